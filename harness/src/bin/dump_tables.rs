use std::hash::{Hash, Hasher};
struct Rec(Vec<u8>);
impl Hasher for Rec { fn finish(&self)->u64{0} fn write(&mut self, b:&[u8]){ self.0.extend_from_slice(b);} }
fn fold(c: char) -> Vec<char> { let s=c.to_string(); let u=unicase::UniCase::unicode(s.as_str()); let mut r=Rec(vec![]); u.hash(&mut r); String::from_utf8(r.0).unwrap().chars().collect() }
fn main(){
    let mut lower=vec![]; let mut folds=vec![]; let mut ranges:Vec<(u32,u32)>=vec![];
    for u in 0..=0x10FFFFu32 { if let Some(c)=char::from_u32(u) {
        let l:Vec<char>=c.to_lowercase().collect(); if l!=vec![c] { lower.push((u,l)); }
        let f=fold(c); if f!=vec![c] { folds.push((u,f)); }
        if c.is_uppercase() { match ranges.last_mut(){ Some(r) if r.1+1==u => r.1=u, _=>ranges.push((u,u)) } }
    }}
    let fmt=|v:&Vec<(u32,Vec<char>)>| v.iter().map(|(k,l)| format!("({},[{}])",k,l.iter().map(|c|(*c as u32).to_string()).collect::<Vec<_>>().join(";"))).collect::<Vec<_>>().join(";\n  ");
    println!("From Coq Require Import List NArith.\nImport ListNotations.\nLocal Open Scope N_scope.");
    println!("Definition std_lower_tbl : list (N * list N) := [\n  {}].", fmt(&lower));
    println!("Definition unicase_fold_tbl : list (N * list N) := [\n  {}].", fmt(&folds));
    println!("Definition std_upper_rng : list (N * N) := [\n  {}].", ranges.iter().map(|(a,b)| format!("({},{})",a,b)).collect::<Vec<_>>().join(";\n  "));
    // the model's table look-up stops at the first larger key: the tables must strictly ascend (checked by the kernel)
    println!("Fixpoint keys_ascend_t (t : list (N * list N)) : bool := match t with (k1, _) :: (((k2, _) :: _) as r) => (k1 <? k2) && keys_ascend_t r | _ => true end.");
    println!("Lemma tables_ascend : keys_ascend_t std_lower_tbl = true /\\ keys_ascend_t unicase_fold_tbl = true. Proof. split; vm_compute; reflexivity. Qed.");
    eprintln!("lower={} fold={} ranges={}", lower.len(), folds.len(), ranges.len());
}
