//! Executable oracles: each is the property's own statement evaluated on the real crate for one case.
//! They are used to search for a concrete failing input (and as a safety net on every run); the
//! decision of a check rests on theorem + correspondence.  Output: `ok` or `FAIL Cxx msg ;; Cyy msg`.
use std::collections::BTreeMap;
use std::str::FromStr;

use purl::qualifiers::well_known::Checksum;
use purl::*;

use crate::*;

pub struct Ck(pub Vec<(&'static str, String)>);
impl Ck {
    fn fail(&mut self, p: &'static str, m: impl Into<String>) {
        self.0.push((p, m.into()));
    }
    fn req(&mut self, p: &'static str, c: bool, m: &str) {
        if !c {
            self.fail(p, m);
        }
    }
}

// ------------------------------------------------------------------ independent specifications
pub fn spec_lower(s: &str) -> String {
    s.chars().flat_map(|c| c.to_lowercase()).collect()
}
pub fn spec_pypi(s: &str) -> String {
    // lower-case, every maximal run of '-', '_', '.' replaced by a single '-'
    let mut out = String::new();
    let mut prev_dash = false;
    for c in s.chars() {
        if matches!(c, '-' | '_' | '.') {
            if !prev_dash {
                out.push('-');
            }
            prev_dash = true;
        } else {
            prev_dash = false;
            out.extend(c.to_lowercase());
        }
    }
    out
}
fn valid_type(t: &str) -> bool {
    !t.is_empty() && t.bytes().all(|b| b.is_ascii_alphanumeric() || b == b'.' || b == b'+' || b == b'-')
}
fn valid_key(k: &str) -> bool {
    !k.is_empty() && k.bytes().all(|b| b.is_ascii_alphanumeric() || b == b'.' || b == b'-' || b == b'_')
}
#[derive(Clone, Copy, PartialEq)]
enum Pos {
    Ns,
    Name,
    Ver,
    QVal,
    Sub,
}
fn escaped(pos: Pos, b: u8) -> bool {
    if b < 0x20 || b == 0x7f || b == b' ' || b >= 0x80 {
        return true;
    }
    if matches!(b, b'"' | b'<' | b'>' | b'%' | b'@' | b'?' | b'#') {
        return true;
    }
    match pos {
        Pos::Ns | Pos::Ver => matches!(b, b'`' | b'{' | b'}'),
        Pos::Name => matches!(b, b'`' | b'{' | b'}' | b'/'),
        Pos::QVal => matches!(b, b'+' | b'&'),
        Pos::Sub => b == b'`',
    }
}
fn enc(pos: Pos, s: &str) -> String {
    let mut o = String::new();
    for b in s.bytes() {
        if escaped(pos, b) {
            o.push_str(&format!("%{:02X}", b));
        } else {
            o.push(b as char);
        }
    }
    o
}
/// C03: the documented shape, built from exactly what the accessors return
fn render<T: PurlShape>(p: &GenericPurl<T>) -> String {
    let mut o = format!("pkg:{}/", p.package_type().package_type());
    if let Some(ns) = p.namespace() {
        o.push_str(&enc(Pos::Ns, ns));
        o.push('/');
    }
    o.push_str(&enc(Pos::Name, p.name()));
    if let Some(v) = p.version() {
        o.push('@');
        o.push_str(&enc(Pos::Ver, v));
    }
    let mut kv: Vec<(String, String)> = p.qualifiers().iter().map(|(k, v)| (k.as_str().to_string(), v.to_string())).collect();
    kv.sort();
    for (i, (k, v)) in kv.iter().enumerate() {
        o.push(if i == 0 { '?' } else { '&' });
        o.push_str(k);
        o.push('=');
        o.push_str(&enc(Pos::QVal, v));
    }
    if let Some(s) = p.subpath() {
        o.push('#');
        o.push_str(&enc(Pos::Sub, s));
    }
    o
}
/// reference canonical checksum text: None = malformed
pub fn ref_checksum(v: &str) -> Option<String> {
    let mut m: BTreeMap<String, String> = BTreeMap::new();
    for item in v.split(',') {
        let (a, hx) = item.rsplit_once(':')?;
        if m.insert(spec_lower(a), hx.to_string()).is_some() {
            return None;
        }
    }
    let mut parts = vec![];
    for (a, hx) in &m {
        if hx.len() % 2 != 0 || !hx.bytes().all(|b| b.is_ascii_hexdigit()) {
            return None;
        }
        parts.push(format!("{}:{}", a, hx.to_ascii_lowercase()));
    }
    Some(parts.join(","))
}
fn checksum_canonical(v: &str) -> bool {
    let mut prev: Option<&str> = None;
    for item in v.split(',') {
        let Some((a, hx)) = item.rsplit_once(':') else { return false };
        if hx.len() % 2 != 0 || !hx.bytes().all(|b| b.is_ascii_hexdigit()) {
            return false;
        }
        if let Some(p) = prev {
            if p >= a {
                return false;
            }
        }
        prev = Some(a);
    }
    !v.bytes().any(|b| b.is_ascii_uppercase())
}
fn norm_ns(s: &str) -> String {
    s.split('/').filter(|x| !x.is_empty()).collect::<Vec<_>>().join("/")
}
fn norm_sub(s: &str) -> String {
    s.split('/').filter(|x| !x.is_empty() && *x != "." && *x != "..").collect::<Vec<_>>().join("/")
}

// ------------------------------------------------------------------ oracles on one PURL value
fn value_oracles<K: Kind>(ck: &mut Ck, p: &GenericPurl<K::T>, builtin: bool, parsed_from: Option<&str>) {
    if builtin {
        // Display under width / precision / fill / alternate flags is still the canonical string (the type segment included)
        if let Ok(s0) = catch_unwind(AssertUnwindSafe(|| p.to_string())) {
            let flagged = catch_unwind(AssertUnwindSafe(|| (format!("{:6}", p), format!("{:.2}", p), format!("{:<40}", p), format!("{:_^9}", p), format!("{:#}", p), format!("{:>80}", p))));
            match flagged {
                Ok((a, b, c, d, e, f)) => {
                    let ok = a == s0 && b == s0 && c == s0 && d == s0 && e == s0 && f == s0;
                    ck.req("C03", ok, "Display under formatting flags is not the canonical string");
                    ck.req("C15", ok || (a.split('/').next() == s0.split('/').next() && b.split('/').next() == s0.split('/').next() && d.split('/').next() == s0.split('/').next()), "the type segment printed under formatting flags is not the type's name");
                },
                Err(_) => ck.fail("C06", "Display under formatting flags panics"),
            }
        }
    }
    {
        let c = p.clone();
        ck.req("C19", &c == p && c.cmp(p) == std::cmp::Ordering::Equal && p.qualifiers() == c.qualifiers(), "a PURL is not equal to its own clone");
    }
    // C04 ---------------------------------------------------------------
    ck.req("C04", !p.name().is_empty(), "empty name");
    ck.req("C04", p.namespace() != Some(""), "namespace reported as empty string");
    ck.req("C04", p.version() != Some(""), "version reported as empty string");
    ck.req("C04", p.subpath() != Some(""), "subpath reported as empty string");
    let mut prev: Option<String> = None;
    for (k, v) in p.qualifiers() {
        let ks = k.as_str();
        ck.req("C04", valid_key(ks) && !ks.bytes().any(|b| b.is_ascii_uppercase()), "qualifier key not valid lower case");
        ck.req("C04", !v.is_empty(), "qualifier with empty value");
        if let Some(pk) = &prev {
            ck.req("C04", pk.as_str() < ks, "qualifier keys not strictly ascending");
        }
        ck.req("C04", p.qualifiers().get(ks) == Some(v), "qualifier not retrievable by its key");
        ck.req("C04", p.qualifiers().get(ks.to_ascii_uppercase()) == Some(v), "qualifier not retrievable by its upper-cased key");
        prev = Some(ks.to_string());
    }
    ck.req("C04", p.qualifiers().len() == p.qualifiers().iter().count(), "len differs from iteration");
    let ty = p.package_type().package_type().to_string();
    if builtin {
        ck.req("C04", valid_type(&ty) && !ty.bytes().any(|b| b.is_ascii_uppercase()), "type string not valid lower case");
    }
    if let Some(cs) = p.qualifiers().get("checksum") {
        ck.req("C04", checksum_canonical(cs), "checksum not canonical");
        // C12: typed accessor gives the same entries as the canonical text
        match p.qualifiers().try_get_typed::<Checksum>() {
            Ok(Some(c)) => match Small::try_from(c) {
                Ok(t) => ck.req("C12", t.as_str() == cs, "typed checksum does not reproduce the stored text"),
                Err(_) => ck.fail("C12", "stored checksum does not serialise"),
            },
            _ => ck.fail("C12", "stored checksum does not read back through the typed accessor"),
        }
    }
    if !builtin && !valid_type(&ty) {
        return; // Display panics: documented
    }
    // C03 ---------------------------------------------------------------
    let s = match catch_unwind(AssertUnwindSafe(|| p.to_string())) {
        Ok(s) => s,
        Err(_) => {
            ck.fail("C06", "formatting a PURL panics");
            if builtin {
                ck.fail("C04", "a PURL with a built-in type parameter has a type string that Display refuses");
            }
            return;
        },
    };
    if builtin {
        ck.req("C03", !ty.bytes().any(|b| b.is_ascii_uppercase()), "type in the canonical string is not lower case");
    }
    let want = render(p);
    if s != want {
        ck.fail("C03", format!("to_string {:?} but documented shape gives {:?}", s, want));
    }
    ck.req("C03", s.bytes().all(|b| (0x21..=0x7e).contains(&b)), "canonical string not printable ASCII");
    // C07 ---------------------------------------------------------------
    if parsed_from.is_some() {
        if let Some(ns) = p.namespace() {
            ck.req("C07", ns.split('/').all(|x| !x.is_empty()), "namespace has an empty segment or leading/trailing '/'");
        }
        if let Some(sp) = p.subpath() {
            ck.req("C07", sp.split('/').all(|x| !x.is_empty() && x != "." && x != ".."), "subpath has an empty, '.' or '..' segment");
        }
    }
    // C01 / C09 / C16: the canonical string is accepted and gives an equal PURL and the same string
    if let Some(r) = K::parse(&s) {
        let which = if parsed_from.is_some() { "C01" } else { "C09" };
        match r {
            Err(e) => ck.fail(which, format!("canonical string {:?} rejected: {}", s, e)),
            Ok(p2) => {
                if parsed_from.is_some() {
                    ck.req("C01", &p2 == p, "re-parsed PURL differs");
                    ck.req("C01", p2.to_string() == s, "re-parsed PURL formats differently");
                } else {
                    // builder: same fields after dropping insignificant segments
                    let same = p2.package_type() == p.package_type()
                        && p2.namespace().unwrap_or("") == norm_ns(p.namespace().unwrap_or(""))
                        && p2.name() == p.name()
                        && p2.version() == p.version()
                        && p2.qualifiers() == p.qualifiers()
                        && p2.subpath().unwrap_or("") == norm_sub(p.subpath().unwrap_or(""));
                    if !same {
                        ck.fail("C09", format!("string form {:?} re-parses to different fields: {}", s, show(&p2)));
                    }
                }
                // C19 on the pair (p, p2)
                let eq = &p2 == p;
                let seq = p2.to_string() == s;
                ck.req("C19", eq == seq, "equality disagrees with canonical-string equality");
                if eq {
                    ck.req("C19", hash_of(&p2) == hash_of(p), "equal PURLs hash differently");
                    ck.req("C19", p2.cmp(p) == std::cmp::Ordering::Equal, "equal PURLs do not compare Equal");
                } else {
                    ck.req("C19", p2.cmp(p) != std::cmp::Ordering::Equal, "unequal PURLs compare Equal");
                    ck.req("C19", p2.cmp(p) == p.cmp(&p2).reverse(), "ordering not antisymmetric");
                }
                ck.req("C19", p2.partial_cmp(p) == Some(p2.cmp(p)), "partial_cmp differs from cmp");
            },
        }
    }
    // C10 ---------------------------------------------------------------
    match p.clone().into_builder().build() {
        Err(e) => ck.fail("C10", format!("re-build fails: {}", K::err(&e))),
        Ok(p2) => {
            ck.req("C10", &p2 == p, "re-built PURL differs");
            ck.req("C10", p2.to_string() == s, "re-built PURL formats differently");
        },
    }
}

// ------------------------------------------------------------------ independent reference splitter (C07 exactness, C14 argument)
pub struct RawSplit<'a> {
    pub ty: &'a str,
    pub ns: Option<&'a str>,
    pub sub: Option<&'a str>,
    pub name: &'a str,
    pub ver: Option<&'a str>,
    pub query: Option<&'a str>,
}
pub fn raw_split(s: &str) -> Option<RawSplit<'_>> {
    let s = s.strip_prefix("pkg:")?;
    let s = s.trim_start_matches('/');
    let (s, sub) = match s.rfind('#') {
        Some(i) => (&s[..i], Some(&s[i + 1..])),
        None => (s, None),
    };
    let (s, query) = match s.rfind('?') {
        Some(i) => (&s[..i], Some(&s[i + 1..])),
        None => (s, None),
    };
    let i = s.find('/')?;
    let (ty, rest) = (&s[..i], &s[i + 1..]);
    let (rest, ver) = match rest.rfind('@') {
        Some(i) => (&rest[..i], Some(&rest[i + 1..])),
        None => (rest, None),
    };
    let (ns, name) = match rest.rfind('/') {
        Some(i) => (Some(&rest[..i]), &rest[i + 1..]),
        None => (None, rest),
    };
    Some(RawSplit { ty, ns, sub, name, ver, query })
}
/// reference reading of the raw query: lower-cased keys, decoded non-empty values (None when an item has no '=' or a value is not UTF-8)
pub fn ref_quals(query: Option<&str>) -> Option<BTreeMap<String, String>> {
    let mut m = BTreeMap::new();
    if let Some(q) = query {
        for item in q.split('&') {
            let (k, v) = item.split_once('=')?;
            let v = String::from_utf8(pct_decode(v)).ok()?;
            if !v.is_empty() {
                m.insert(k.to_ascii_lowercase(), v);
            }
        }
    }
    Some(m)
}
fn pct_decode(s: &str) -> Vec<u8> {
    let b = s.as_bytes();
    let mut o = vec![];
    let mut i = 0;
    let hv = |c: u8| (c as char).to_digit(16);
    while i < b.len() {
        if b[i] == b'%' && i + 2 < b.len() + 0 && i + 2 <= b.len() - 1 {
            if let (Some(x), Some(y)) = (hv(b[i + 1]), hv(b[i + 2])) {
                o.push((x * 16 + y) as u8);
                i += 3;
                continue;
            }
        }
        o.push(b[i]);
        i += 1;
    }
    o
}
fn c07_exact<T: PurlShape>(ck: &mut Ck, s: &str, p: &GenericPurl<T>) {
    let Some(r) = raw_split(s) else {
        ck.fail("C07", "accepted string has no skeleton");
        return;
    };
    let ns_want: Vec<Vec<u8>> = r.ns.unwrap_or("").split('/').filter(|x| !x.is_empty()).map(pct_decode).collect();
    let ns_got: Vec<Vec<u8>> = p.namespace().map(|n| n.split('/').map(|x| x.as_bytes().to_vec()).collect()).unwrap_or_default();
    if ns_want != ns_got {
        ck.fail("C07", "namespace segments are not the decoded non-empty pieces between raw '/'");
    }
    let sub_want: Vec<Vec<u8>> =
        r.sub.unwrap_or("").split('/').filter(|x| !x.is_empty() && *x != "." && *x != "..").map(pct_decode).collect();
    let sub_got: Vec<Vec<u8>> = p.subpath().map(|n| n.split('/').map(|x| x.as_bytes().to_vec()).collect()).unwrap_or_default();
    if sub_want != sub_got {
        ck.fail("C07", "subpath segments are not the decoded kept pieces between raw '/'");
    }
}

// ------------------------------------------------------------------ per-case oracles
fn expect_tuple(exp: &str) -> Vec<String> {
    exp.split('|').map(|x| x.to_string()).collect()
}
fn main_fields(show_line: &str) -> Option<Vec<String>> {
    let r = show_line.strip_prefix("O ")?;
    Some(r.split('|').take(6).map(|x| x.to_string()).collect())
}
#[cfg(feature = "pt")]
fn typed_expect(exp: &[String]) -> Result<Vec<String>, String> {
    let ty = uh(&exp[0]).to_ascii_lowercase();
    let name = uh(&exp[2]);
    let name = match ty.as_str() {
        "cargo" | "gem" | "golang" | "maven" | "npm" => name,
        "nuget" => spec_lower(&name),
        "pypi" => spec_pypi(&name),
        _ => return Err("E UnsupportedType".into()),
    };
    if ty == "maven" && exp[1] == "-" {
        return Err("E PMissing(namespace)".into());
    }
    let mut e = exp.to_vec();
    e[0] = h(&ty);
    e[2] = h(&name);
    Ok(e)
}

fn parse_oracles<K: Kind>(ck: &mut Ck, a: &[&str], made: &Made<K::T>) {
    let s = uh(a[a.len() - 1]);
    if let Made::Purl(p) = made {
        value_oracles::<K>(ck, p, true, Some(&s));
        c07_exact(ck, &s, p);
        // C05: an accepted string has a syntactically valid type and only valid qualifier keys, in the documented alphabets
        if let Some(raw) = raw_split(&s) {
            if !valid_type(raw.ty) {
                ck.fail("C05", format!("{:?} accepted although its type {:?} is syntactically invalid", s, raw.ty));
            }
        }
        for (k, _) in p.qualifiers().iter() {
            if !valid_key(k.as_str()) {
                ck.fail("C05", format!("{:?} accepted although the qualifier key {:?} is invalid", s, k.as_str()));
            }
        }
        if let Some(raw) = raw_split(&s) {
            // right-to-left splitting done independently: the name is what stands after the last '/' of the part before the last '@'
            if raw.name.is_empty() {
                ck.fail("C05", format!("{:?} accepted although it has no name (MissingRequiredField(Name))", s));
            }
            if a[1] != "t" {
                let dn = String::from_utf8_lossy(&pct_decode(raw.name)).to_string();
                let dv = String::from_utf8_lossy(&pct_decode(raw.ver.unwrap_or(""))).to_string();
                if p.name() != dn || p.version().unwrap_or("") != dv {
                    ck.fail("C02", format!("{:?}: name/version {:?}/{:?}, the pieces between the separators decode to {:?}/{:?}", s, p.name(), p.version(), dn, dv));
                }
                if let Some(want) = ref_quals(raw.query) {
                    let got: BTreeMap<String, String> = p.qualifiers().iter().filter(|(k, _)| k.as_str() != "checksum").map(|(k, v)| (k.as_str().to_string(), v.to_string())).collect();
                    let want: BTreeMap<String, String> = want.into_iter().filter(|(k, _)| k != "checksum").collect();
                    if got != want {
                        ck.fail("C02", format!("{:?}: qualifiers {:?}, the items of the query decode to {:?}", s, got, want));
                    }
                }
            }
        }
    }
    let got = match made {
        Made::Purl(p) => show(p),
        Made::Stop(e) => e.clone(),
    };
    match a[0] {
        "S" => {
            // C02: a legal spelling parses to exactly the expected tuple
            let exp = expect_tuple(a[2]);
            let exp: Result<Vec<String>, String> = if a[1] == "t" {
                #[cfg(feature = "pt")]
                {
                    typed_expect(&exp)
                }
                #[cfg(not(feature = "pt"))]
                {
                    Ok(exp)
                }
            } else {
                let mut e = exp.clone();
                e[0] = h(&uh(&exp[0]).to_ascii_lowercase());
                Ok(e)
            };
            // ... and is `==` to the PURL built from those components (equality is hand-written for qualifier keys: it must agree with the fields)
            if let Made::Purl(p) = made {
                let e0 = expect_tuple(a[2]);
                let mut b = Some(GenericPurlBuilder::new(p.package_type().clone(), uh(&e0[2])).with_namespace(uh(&e0[1])).with_version(uh(&e0[3])).with_subpath(uh(&e0[5])));
                if e0[4] != "-" {
                    for kv in e0[4].split(';') {
                        let (k, v) = kv.split_once('=').unwrap();
                        b = b.and_then(|x| x.with_qualifier(uh(k), uh(v)).ok());
                    }
                }
                if let Some(Ok(q)) = b.map(|x| x.build()) {
                    if q.to_string() == p.to_string() {
                        ck.req("C02", &q == p && p == &p.clone(), "the PURL parsed from a spelling is not == the PURL built from the same components");
                    }
                }
            }
            match exp {
                Ok(e) => {
                    if main_fields(&got).as_ref() != Some(&e) {
                        ck.fail("C02", format!("spelling {:?} gives {} but the components are {}", s, got, e.join("|")));
                    }
                },
                Err(e) => {
                    if got != e {
                        ck.fail(if e.contains("Unsupported") { "C08" } else { "C05" }, format!("{:?}: expected {} got {}", s, e, got));
                    }
                },
            }
        },
        "X" => {
            let want = format!("E {}", a[2]);
            if got.starts_with("O ") {
                ck.fail("C05", format!("faulty string {:?} accepted (expected {})", s, want));
            } else if got != want {
                ck.fail("C05", format!("faulty string {:?}: expected {} got {}", s, want, got));
            }
        },
        _ => {},
    }
}

#[cfg(feature = "pt")]
fn typed_vs_generic(ck: &mut Ck, s: &str) {
    // C08: the typed parser relates to the type-agnostic one as the rules say
    let g = GenericPurl::<String>::from_str(s);
    let t = Purl::from_str(s);
    // the type is taken from the text as written (never percent-decoded): whatever is accepted carries the ASCII-lower-cased raw type substring
    if let Some(raw) = raw_split(s) {
        if let Ok(g) = &g {
            if g.package_type().as_str() != raw.ty.to_ascii_lowercase() {
                ck.fail("C02", format!("{:?}: type {:?} is not the lower-cased type substring {:?}", s, g.package_type(), raw.ty));
            }
        }
        if let Ok(t) = &t {
            if t.package_type().name() != raw.ty.to_ascii_lowercase() {
                ck.fail("C15", format!("{:?}: taken for {} although the type substring is {:?}", s, t.package_type().name(), raw.ty));
            }
        }
    }
    if let Ok(g) = &g {
        let ty = g.package_type().as_str();
        let known = ["cargo", "gem", "golang", "maven", "npm", "nuget", "pypi"].contains(&ty);
        match &t {
            Ok(t) => {
                ck.req("C08", known, "typed PURL accepted an unknown type");
                ck.req("C15", t.package_type().name() == ty, "type name differs from the generic lower-cased type");
                let want = match ty {
                    "nuget" => spec_lower(g.name()),
                    "pypi" => spec_pypi(g.name()),
                    _ => g.name().to_string(),
                };
                if t.name() != want {
                    ck.fail("C08", format!("{:?}: typed name {:?}, rule gives {:?}", s, t.name(), want));
                }
                let rest = t.namespace() == g.namespace()
                    && t.version() == g.version()
                    && t.qualifiers() == g.qualifiers()
                    && t.subpath() == g.subpath();
                ck.req("C08", rest, "typed namespace/version/qualifiers/subpath differ from the type-agnostic parse");
                if ty == "maven" {
                    ck.req("C08", g.namespace().is_some(), "maven accepted without namespace");
                }
            },
            Err(PackageError::UnsupportedType) => ck.req("C08", !known, "known type refused as unsupported"),
            Err(PackageError::MissingRequiredField(PurlField::Namespace)) => {
                ck.req("C08", ty == "maven" && g.namespace().is_none(), "namespace demanded although present or not maven")
            },
            Err(e) => ck.fail("C08", format!("{:?}: generic accepts, typed fails with {}", s, pkerr(e))),
        }
    } else if let Ok(t) = &t {
        ck.fail("C08", format!("typed accepts {:?} ({}) but the type-agnostic parser refuses", s, show(t)));
    }
}

/// C13: the built-in type parameters give identical outcome lines
fn c13(ck: &mut Ck, a: &[&str]) {
    let strip = |m: String| m.split(" ## ").next().unwrap().to_string();
    // a panic on one carrier's route is an outcome too ("PANIC"): all carriers must then show it (C06 judges the panic itself)
    fn guard(f: impl FnOnce() -> String) -> String {
        catch_unwind(AssertUnwindSafe(f)).unwrap_or_else(|_| "PANIC".to_string())
    }
    if a[0] == "B" {
        if !matches!(a[1], "g") {
            return;
        }
        let g = guard(|| strip(triple::<KG>(&make_g(a))));
        let s = guard(|| strip(triple::<KS>(&make_s(a))));
        let b = guard(|| strip(triple::<KB>(&make_b(a))));
        let o = guard(|| strip(triple::<KO>(&make_o(a))));
        if !(g == s && g == b && g == o) {
            ck.fail("C13", format!("builder outcomes differ: String {} / SmallString {} / Cow::Borrowed {} / Cow::Owned {}", g, s, b, o));
        }
    } else if a[1] == "g" {
        let g = guard(|| strip(triple::<KG>(&make_g(a))));
        let s = guard(|| strip(triple::<KS>(&make_s(a))));
        if g != s {
            ck.fail("C13", format!("parser outcomes differ: String {} / SmallString {}", g, s));
        }
    }
}

/// reference: the canonical text of the typed checksum made by a sequence of Checksum operations (entries by lower-cased algorithm, sorted,
/// lower-case hex); None when an entry is not an even number of hex digits
fn ref_cs_text(ops: &str) -> Option<String> {
    let mut m: BTreeMap<String, String> = BTreeMap::new();
    if ops != "-" {
        for op in ops.split('+') {
            let g: Vec<&str> = op.split('.').collect();
            match g[0] {
                "i" => {
                    m.insert(spec_lower(&uh(g[1])), hex::encode(uhb(g[2])));
                },
                "w" => {
                    m.insert(spec_lower(&uh(g[1])), uh(g[2]));
                },
                "r" => {
                    m.remove(&uh(g[1]));
                },
                _ => {},
            }
        }
    }
    let mut parts = vec![];
    for (k, v) in &m {
        if v.len() % 2 != 0 || !v.bytes().all(|b| b.is_ascii_hexdigit()) {
            return None;
        }
        parts.push(format!("{}:{}", k, v.to_ascii_lowercase()));
    }
    Some(parts.join(","))
}
// reference interpretation of a builder op sequence (C09): last write wins, field by field
struct RefB {
    ty: String,
    ns: String,
    name: String,
    ver: String,
    sub: String,
    q: BTreeMap<String, String>,
    stop: Option<&'static str>,
}
fn ref_builder(a: &[&str], typed: bool) -> RefB {
    let mut r = RefB { ty: if typed { a[2].to_string() } else { uh(a[2]) }, ns: String::new(), name: uh(a[3]), ver: String::new(), sub: String::new(), q: BTreeMap::new(), stop: None };
    if a[4] == "-" {
        return r;
    }
    for o in a[4].split(',') {
        let f: Vec<&str> = o.split(':').collect();
        match f[0] {
            "N" => r.name = uh(f[1]),
            "S" => r.ns = uh(f[1]),
            "s" => r.ns.clear(),
            "V" => r.ver = uh(f[1]),
            "v" => r.ver.clear(),
            "U" => r.sub = uh(f[1]),
            "u" => r.sub.clear(),
            "T" => r.ty = if typed { f[1].to_string() } else { uh(f[1]) },
            "Q" | "D" => {
                let k = uh(f[1]);
                if valid_key(&k) {
                    r.q.insert(k.to_ascii_lowercase(), uh(f[2]));
                } else if f[0] == "Q" {
                    r.stop = Some("QE");
                    return r;
                }
            },
            "q" | "E" => {
                r.q.remove(&uh(f[1]).to_ascii_lowercase());
            },
            "z" => r.q.clear(),
            "C" => match ref_cs_text(f[1]) {
                Some(t) => {
                    r.q.insert("checksum".into(), t);
                },
                None => {
                    r.stop = Some("CE");
                    return r;
                },
            },
            "c" => {
                r.q.remove("checksum");
            },
            "R" => {
                r.q.insert("repository_url".into(), uh(f[1]));
            },
            "r" => {
                r.q.remove("repository_url");
            },
            "W" => {
                r.q.insert(["buildtag", "x-y.z_1", "?"][f[1].parse::<usize>().unwrap().min(2)].into(), uh(f[2]));
            },
            "w" => {
                r.q.remove(["buildtag", "x-y.z_1", "?"][f[1].parse::<usize>().unwrap().min(2)]);
            },
            _ => {},
        }
    }
    r
}
fn c09<K: Kind>(ck: &mut Ck, a: &[&str], made: &Made<K::T>, typed: bool) {
    let r = ref_builder(a, typed);
    let got = match made {
        Made::Purl(p) => show(p),
        Made::Stop(e) => e.clone(),
    };
    if let Some(st) = r.stop {
        if got != st {
            ck.fail("C09", format!("expected {} got {}", st, got));
        }
        return;
    }
    // expected outcome
    let names = ["cargo", "gem", "golang", "maven", "npm", "nuget", "pypi"];
    let (ty, name, rule_ok) = if typed {
        let t = names[r.ty.parse::<usize>().unwrap()];
        let name = match t {
            "nuget" => spec_lower(&r.name),
            "pypi" => spec_pypi(&r.name),
            _ => r.name.clone(),
        };
        (t.to_string(), name, !(t == "maven" && norm_ns(&r.ns).is_empty()))
    } else {
        (r.ty.to_ascii_lowercase(), r.name.clone(), true)
    };
    let mut q: BTreeMap<String, String> = r.q.iter().filter(|(_, v)| !v.is_empty()).map(|(k, v)| (k.clone(), v.clone())).collect();
    let mut cs_ok = true;
    if let Some(cs) = q.get("checksum").cloned() {
        match ref_checksum(&cs) {
            Some(t) if !t.is_empty() => {
                q.insert("checksum".into(), t);
            },
            Some(_) => {
                // canonical text empty: only possible from an empty typed checksum; the value stays as inserted
            },
            None => cs_ok = false,
        }
    }
    let want_ok = (typed || valid_type(&r.ty)) && rule_ok && !name.is_empty() && cs_ok;
    match made {
        Made::Stop(e) => {
            if want_ok {
                ck.fail("C09", format!("build refused ({}) although name, type, rule, keys and checksum are fine", e));
                if typed && e.contains("namespace") {
                    ck.fail("C08", "builder demands a namespace although one is present or the type is not maven");
                }
            }
        },
        Made::Purl(p) => {
            if !want_ok {
                ck.fail("C09", format!("build succeeded ({}) although it must be refused", got));
                if typed && !rule_ok {
                    ck.fail("C08", "maven built without any namespace segment (the parser refuses its string form)");
                    ck.fail("C05", "a Maven PURL without namespace is handed out instead of MissingRequiredField(Namespace)");
                }
                if !cs_ok {
                    ck.fail("C05", "a PURL with a malformed checksum is handed out");
                }
                return;
            }
            let gq: BTreeMap<String, String> = p.qualifiers().iter().map(|(k, v)| (k.as_str().to_string(), v.to_string())).collect();
            let same = p.package_type().package_type() == ty
                && norm_ns(p.namespace().unwrap_or("")) == norm_ns(&r.ns)
                && p.namespace().unwrap_or("") == r.ns
                && p.name() == name
                && p.version().unwrap_or("") == r.ver
                && gq == q
                && p.subpath().unwrap_or("") == r.sub;
            if !same {
                ck.fail("C09", format!("accessors {} differ from what was last set", got));
            }
            if gq.get("checksum") != q.get("checksum") {
                ck.fail("C12", format!("built PURL carries checksum {:?}; the canonical text of what was last set is {:?}", gq.get("checksum"), q.get("checksum")));
            }
            if gq != q {
                ck.fail("C08", format!("built PURL has qualifiers {:?}; what was set (empty values dropped, checksum canonical) is {:?}", gq, q));
            }
            if typed && p.name() != name {
                ck.fail("C08", format!("builder: name {:?}, the type's rule gives {:?}", p.name(), name));
            }
        },
    }
}

fn purl_case_oracles(ck: &mut Ck, a: &[&str]) {
    if a[0] == "B" && a.len() > 4 && a[4].split(',').any(|o| o.starts_with("W:2:")) {
        return; // insert_typed with an invalid declared KEY: the documented panic; the outcome is compared with the model by the correspondence
    }
    match a[1] {
        "g" => {
            // the value of the FIRST evaluation of the case in this process is the one examined (an outcome that depends on earlier calls must not be
            // washed out by evaluating twice); a panic in this part is reported and must not keep the carrier comparison from running
            let first = catch_unwind(AssertUnwindSafe(|| {
                let mut ck1 = Ck(vec![]);
                let m = make_g(a);
                if a[0] == "B" {
                    if let Made::Purl(p) = &m {
                        value_oracles::<KG>(&mut ck1, p, true, None);
                    }
                    c09::<KG>(&mut ck1, a, &m, false);
                } else {
                    parse_oracles::<KG>(&mut ck1, a, &m);
                }
                ck1
            }));
            match first {
                Ok(ck1) => ck.0.extend(ck1.0),
                Err(_) => ck.fail("C06", "panic"),
            }
            c13(ck, a);
        },
        "s" => {
            let m = make_s(a);
            if a[0] == "B" {
                if let Made::Purl(p) = &m {
                    value_oracles::<KS>(ck, p, true, None);
                }
            } else {
                parse_oracles::<KS>(ck, a, &m);
            }
        },
        "b" => {
            if let Made::Purl(p) = &make_b(a) {
                value_oracles::<KB>(ck, p, true, None);
            }
        },
        "o" => {
            if let Made::Purl(p) = &make_o(a) {
                value_oracles::<KO>(ck, p, true, None);
            }
        },
        #[cfg(feature = "pt")]
        "t" => {
            let m = make_t(a);
            if a[0] == "B" {
                if let Made::Purl(p) = &m {
                    value_oracles::<KT>(ck, p, true, None);
                }
                c09::<KT>(ck, a, &m, true);
            } else {
                parse_oracles::<KT>(ck, a, &m);
                typed_vs_generic(ck, &uh(a[a.len() - 1]));
            }
        },
        _ => {},
    }
}

// ------------------------------------------------------------------ C11: reference map
fn q_oracle(ck: &mut Ck, spec: &str) {
    let (outs, q) = qops(spec);
    let mut m: BTreeMap<String, String> = BTreeMap::new();
    let ops: Vec<&str> = if spec == "-" { vec![] } else { spec.split(',').collect() };
    let ovs = |o: Option<&String>| match o {
        Some(v) => format!("v:{}", h(v)),
        None => "n".to_string(),
    };
    for (i, o) in ops.iter().enumerate() {
        let f: Vec<&str> = o.split(':').collect();
        let k = if f.len() > 1 && !matches!(f[0], "M" | "I" | "J" | "tr" | "tC" | "tk" | "tkg" | "tkd" | "tu" | "tug" | "tud" | "wc" | "re" | "rv") { uh(f[1]) } else { String::new() };
        let lk = k.to_ascii_lowercase();
        let vk = valid_key(&k);
        let want: String = match f[0] {
            "i" => {
                if vk {
                    m.insert(lk, uh(f[2]));
                    format!("u:{}", f[2])
                } else {
                    "e".into()
                }
            },
            "r" => ovs(if vk { m.remove(&lk) } else { None }.as_ref()),
            "g" => ovs(if vk { m.get(&lk) } else { None }),
            "m" => match if vk { m.get_mut(&lk) } else { None } {
                Some(v) => {
                    let old = v.clone();
                    *v = uh(f[2]);
                    format!("v:{}", h(&old))
                },
                None => "n".into(),
            },
            "c" => if vk && m.contains_key(&lk) { "t" } else { "f" }.into(),
            "x" => match if vk { m.get(&lk) } else { None } {
                Some(v) => format!("v:{}", h(v)),
                None => "PANIC".into(),
            },
            "X" => match if vk { m.get_mut(&lk) } else { None } {
                Some(v) => {
                    *v = uh(f[2]);
                    "u".into()
                },
                None => "PANIC".into(),
            },
            "C" | "wc" => {
                m.clear();
                "u".into()
            },
            "re" | "rv" => "u".into(),
            "t" => {
                m.retain(|_, v| !v.is_empty());
                "u".into()
            },
            "T" => {
                // QualifierKey == str: case-insensitive (Unicode lower-casing of the right-hand side)
                let rhs = spec_lower(&k);
                m.retain(|kk, _| *kk != rhs);
                "u".into()
            },
            "M" => {
                let suf = uh(f[1]);
                m.retain(|_, v| {
                    v.push_str(&suf);
                    v.len() % 2 == 0
                });
                "u".into()
            },
            "I" | "J" => {
                let suf = uh(f[1]);
                for v in m.values_mut() {
                    v.push_str(&suf);
                }
                "u".into()
            },
            "eo" => {
                if vk {
                    format!("v:{}", h(m.entry(lk).or_insert(uh(f[2]))))
                } else {
                    "e".into()
                }
            },
            "ew" => {
                if vk {
                    let called = !m.contains_key(&lk);
                    format!("v:{}:{}", h(m.entry(lk).or_insert(uh(f[2]))), if called { "c" } else { "nc" })
                } else {
                    "e".into()
                }
            },
            "em" => {
                if vk {
                    let called = m.contains_key(&lk);
                    let suf = uh(f[2]);
                    let v = m.entry(lk).and_modify(|v| v.push_str(&suf)).or_insert(uh(f[3]));
                    format!("v:{}:{}", h(v), if called { "c" } else { "nc" })
                } else {
                    "e".into()
                }
            },
            "eC" => {
                if vk {
                    let called = m.contains_key(&lk);
                    let v = m.entry(lk).and_modify(|v| v.clear()).or_insert(uh(f[2]));
                    format!("v:{}:{}", h(v), if called { "c" } else { "nc" })
                } else {
                    "e".into()
                }
            },
            "ei" => {
                if !vk {
                    "e".into()
                } else {
                    match m.insert(lk, uh(f[2])) {
                        Some(old) => format!("o:{}:{}", h(&old), h(&old)),
                        None => format!("vac:{}", f[2]),
                    }
                }
            },
            "er" => {
                if !vk {
                    "e".into()
                } else {
                    match m.remove(&lk) {
                        Some(old) => format!("o:{}", h(&old)),
                        None => "vac".into(),
                    }
                }
            },
            "eR" => {
                if !vk {
                    "e".into()
                } else {
                    match m.remove(&lk) {
                        Some(old) => format!("o:{}={}", h(&lk), h(&old)),
                        None => "vac".into(),
                    }
                }
            },
            "eG" => {
                if !vk {
                    "e".into()
                } else {
                    match m.get_mut(&lk) {
                        Some(v) => {
                            v.push_str(&uh(f[2]));
                            format!("o:{}", h(v))
                        },
                        None => "vac".into(),
                    }
                }
            },
            "l" => format!("l:{}:{}:{}:{}:true:{}:{}", m.len(), if m.is_empty() { "t" } else { "f" }, m.len(), m.len(), m.len(), m.len()),
            "tu" | "tug" | "tud" => {
                let key = ["buildtag", "x-y.z_1"].get(f[1].parse::<usize>().unwrap()).map(|s| s.to_string());
                match (key, f[0]) {
                    (None, "tu") => "PANIC".into(),
                    (None, "tug") => "n".into(),
                    (None, _) => "u".into(),
                    (Some(key), "tu") => {
                        m.insert(key, uh(f[2]));
                        "u".into()
                    },
                    (Some(key), "tug") => ovs(m.get(&key)),
                    (Some(key), _) => {
                        m.remove(&key);
                        "u".into()
                    },
                }
            },
            "tk" | "tkg" | "tkd" => {
                let keys = ["repository_url", "download_url", "vcs_url", "file_name", "platform", "classifier", "type"];
                let key = keys[f[1].parse::<usize>().unwrap()].to_string();
                match f[0] {
                    "tk" => {
                        m.insert(key, uh(f[2]));
                        "u".into()
                    },
                    "tkg" => ovs(m.get(&key)),
                    _ => {
                        m.remove(&key);
                        "u".into()
                    },
                }
            },
            "tr" => {
                m.insert("repository_url".into(), uh(f[1]));
                "u".into()
            },
            "tg" => ovs(m.get("repository_url")),
            "tc" => if m.contains_key("repository_url") { "t" } else { "f" }.into(),
            "td" => {
                m.remove("repository_url");
                "u".into()
            },
            "tC" => match ref_cs_text(f[1]) {
                // try_insert_typed: the canonical text replaces whatever the key held; a malformed checksum changes nothing
                Some(t) => {
                    m.insert("checksum".into(), t);
                    "u".into()
                },
                None => "e".into(),
            },
            "tG" => match m.get("checksum") {
                // try_get_typed::<Checksum>: the stored text read as entries (algorithm lower-cased, hex as written), refused when an entry has no ':' or an algorithm repeats
                None => "n".into(),
                Some(text) => {
                    let mut e: BTreeMap<String, String> = BTreeMap::new();
                    let mut ok = true;
                    for item in text.split(',') {
                        match item.rsplit_once(':') {
                            Some((a, hx)) => {
                                if e.insert(spec_lower(a), hx.to_string()).is_some() {
                                    ok = false;
                                }
                            },
                            None => ok = false,
                        }
                    }
                    if !ok {
                        "e".into()
                    } else {
                        let mut v: Vec<(String, String)> = e.into_iter().collect();
                        v.sort();
                        format!("k:{}", v.iter().map(|(k, v)| format!("{}={}", h(k), h(v))).collect::<Vec<_>>().join(";"))
                    }
                },
            },
            "ke" => {
                // QualifierKey == / partial_cmp against an arbitrary string: the stored (lower-case) key against the other side lower-cased per character
                let s = spec_lower(&uh(f[1]));
                m.keys()
                    .map(|k| {
                        let o = k.chars().cmp(s.chars());
                        format!("{}{}", if o == std::cmp::Ordering::Equal { "E" } else { "N" }, match o {
                            std::cmp::Ordering::Less => "lt",
                            std::cmp::Ordering::Equal => "eq",
                            std::cmp::Ordering::Greater => "gt",
                        })
                    })
                    .collect::<Vec<_>>()
                    .join("/")
                    + "."
            },
            _ => outs[i].clone(),
        };
        if want != outs[i] {
            ck.fail("C11", format!("operation #{} `{}`: reference map gives {} but the collection gives {}", i, o, want, outs[i]));
            return;
        }
    }
    let got: Vec<(String, String)> = q.iter().map(|(k, v)| (k.as_str().to_string(), v.to_string())).collect();
    let want: Vec<(String, String)> = m.iter().map(|(k, v)| (k.clone(), v.clone())).collect();
    ck.req("C11", got == want, "final content / forward iteration differs from the reference map");
    let mut rev: Vec<(String, String)> = q.iter().rev().map(|(k, v)| (k.as_str().to_string(), v.to_string())).collect();
    rev.reverse();
    ck.req("C11", rev == want, "backward iteration differs from the reference map");
    ck.req("C11", q.len() == m.len() && q.is_empty() == m.is_empty(), "len/is_empty differ from the reference map");
    // equality, ordering and hashing depend on the content only: rebuild from pairs in reverse order with upper-cased keys
    let q2 = Qualifiers::try_from_iter(want.iter().rev().map(|(k, v)| (k.to_ascii_uppercase(), v.clone())));
    match q2 {
        Ok(q2) => {
            ck.req("C11", q2 == q, "same content inserted in another order/case is not equal");
            ck.req("C11", hash_of(&q2) == hash_of(&q), "same content hashes differently");
            ck.req("C11", q2.cmp(&q) == std::cmp::Ordering::Equal, "same content does not compare Equal");
        },
        Err(_) => ck.fail("C11", "try_from_iter refuses the content of a collection"),
    }
}
fn q_get_after(spec: &str, i: usize) -> String {
    // value of "checksum" right after operation i (used only to keep the reference in step for tC)
    let prefix: Vec<&str> = spec.split(',').take(i + 1).collect();
    let (_, q) = qops(&prefix.join(","));
    q.get("checksum").unwrap_or("").to_string()
}
fn f_oracle(ck: &mut Ck, spec: &str) {
    let ps = pairs(spec);
    let mut m: BTreeMap<String, String> = BTreeMap::new();
    let mut bad = false;
    for (k, v) in &ps {
        if !valid_key(k) || m.insert(k.to_ascii_lowercase(), v.clone()).is_some() {
            bad = true;
            break;
        }
    }
    // the same pairs through an iterator whose size_hint is only a lower bound (filter), and through a by-reference iterator
    let lazy = Qualifiers::try_from_iter(ps.clone().into_iter().filter(|_| true));
    let exact = Qualifiers::try_from_iter(ps.clone());
    ck.req("C11", lazy.is_ok() == exact.is_ok() && lazy.as_ref().ok() == exact.as_ref().ok(), "try_from_iter depends on the iterator's size_hint");
    match Qualifiers::try_from_iter(ps.clone()) {
        Err(_) => ck.req("C11", bad, "try_from_iter refuses valid distinct keys"),
        Ok(q) => {
            ck.req("C11", !bad, "try_from_iter accepts an invalid or repeated key");
            let got: Vec<(String, String)> = q.iter().map(|(k, v)| (k.as_str().to_string(), v.to_string())).collect();
            let want: Vec<(String, String)> = m.into_iter().collect();
            ck.req("C11", bad || got == want, "try_from_iter content differs from the reference map");
        },
    }
}

// ------------------------------------------------------------------ C12
fn cs_oracle(ck: &mut Ck, spec: &str) {
    let c = run_csops(spec);
    let mut m: BTreeMap<String, String> = BTreeMap::new();
    let mut bytes: BTreeMap<String, Vec<u8>> = BTreeMap::new();
    if spec != "-" {
        for o in spec.split('+') {
            let f: Vec<&str> = o.split('.').collect();
            match f[0] {
                "i" => {
                    m.insert(spec_lower(&uh(f[1])), hex::encode(uhb(f[2])));
                    bytes.insert(spec_lower(&uh(f[1])), uhb(f[2]));
                },
                "w" => {
                    m.insert(spec_lower(&uh(f[1])), uh(f[2]));
                    bytes.remove(&spec_lower(&uh(f[1])));
                },
                "r" => {
                    m.remove(&uh(f[1]));
                    bytes.remove(&uh(f[1]));
                },
                _ => {},
            }
        }
    }
    let got: BTreeMap<String, String> = c.iter().map(|(k, v)| (k.to_string(), v.raw().to_string())).collect();
    if got != m {
        ck.fail("C12", format!("entries {:?} differ from the reference {:?}", got, m));
        return;
    }
    for (k, b) in &bytes {
        ck.req("C12", c.get::<Vec<u8>>(k).ok().flatten().as_ref() == Some(b), "decoding an entry does not return the inserted bytes");
    }
    let all_hex = m.values().all(|v| v.len() % 2 == 0 && v.bytes().all(|b| b.is_ascii_hexdigit()));
    let r = catch_unwind(AssertUnwindSafe(|| Small::try_from(c.clone())));
    match r {
        Err(_) => ck.fail("C06", "serialising the checksum panics"),
        Ok(Err(_)) => ck.req("C12", !all_hex, "well-formed checksum does not serialise"),
        Ok(Ok(t)) => {
            ck.req("C12", all_hex, "malformed checksum serialises");
            let want = m.iter().map(|(k, v)| format!("{}:{}", k, v.to_ascii_lowercase())).collect::<Vec<_>>().join(",");
            if t.as_str() != want {
                ck.fail("C12", format!("text {:?} but sorted lower-case form is {:?}", t, want));
            }
            // the text parses back to the same entries, unless an algorithm contains ',' or the set is empty
            if !m.is_empty() && m.keys().all(|k| !k.contains(',')) {
                match Checksum::try_from(t.as_str()) {
                    Err(_) => ck.fail("C12", "canonical text does not parse back"),
                    Ok(c2) => {
                        let back: BTreeMap<String, String> = c2.iter().map(|(k, v)| (k.to_string(), v.raw().to_string())).collect();
                        let want: BTreeMap<String, String> = m.iter().map(|(k, v)| (k.clone(), v.to_ascii_lowercase())).collect();
                        ck.req("C12", back == want, "canonical text parses back to different entries");
                    },
                }
            }
        },
    }
}

// ------------------------------------------------------------------ C15 / C18
#[cfg(feature = "pt")]
fn t_oracle(ck: &mut Ck, s: &str) {
    let names = ["cargo", "gem", "golang", "maven", "npm", "nuget", "pypi"];
    let want = names.iter().position(|n| *n == s.to_ascii_lowercase());
    let got = PackageType::from_str(s).ok();
    match (want, got) {
        (None, None) => {},
        (Some(i), Some(t)) => {
            ck.req("C15", t == PTS[i], "wrong variant");
        },
        (None, Some(t)) => ck.fail("C15", format!("{:?} taken for {}", s, t.name())),
        (Some(i), None) => ck.fail("C15", format!("{:?} (a spelling of {}) refused", s, names[i])),
    }
    for (i, t) in PTS.iter().enumerate() {
        let n = names[i];
        let disp = t.to_string();
        let asr: &str = t.as_ref();
        let frm: &'static str = (*t).into();
        ck.req("C15", t.name() == n && disp == n && asr == n && frm == n && t.package_type() == n, "names disagree");
        // Display under formatting flags still shows the name (alternate flag; padding may only add fill characters around it)
        ck.req("C15", format!("{:#}", t) == n && format!("{:>12}", t).trim() == n && format!("{:<12}", t).trim() == n, "Display under formatting flags shows another name");
    }
}
#[cfg(feature = "pt")]
fn n_oracle(ck: &mut Ck, a: &[&str]) {
    let i = a[1].parse::<usize>().unwrap();
    let t = PTS[i];
    let s = uh(a[2]);
    let b = Purl::builder_with_combined_name(t, &s);
    let (wns, wname): (Option<&str>, &str) = match i {
        2 | 4 => match s.rfind('/') {
            Some(j) => (Some(&s[..j]), &s[j + 1..]),
            None => (None, &s[..]),
        },
        3 => match s.find(':') {
            Some(j) => (Some(&s[..j]), &s[j + 1..]),
            None => (None, &s[..]),
        },
        _ => (None, &s[..]),
    };
    if b.parts.namespace.as_str() != wns.unwrap_or("") || b.parts.name.as_str() != wname {
        ck.fail("C18", format!("combined {:?} split into ({:?},{:?}), expected ({:?},{:?})", s, b.parts.namespace, b.parts.name, wns, wname));
    }
    let built = b.build();
    {
        let ns_ok = i != 3 || wns.map(|n| n.split('/').any(|x| !x.is_empty())).unwrap_or(false);
        let should = !wname.is_empty() && ns_ok;
        if should != built.is_ok() {
            ck.fail("C18", format!("builder_with_combined_name({}, {:?}).build() {} although name {:?} / namespace {:?} {} the type's rule", t.name(), s, if built.is_ok() { "succeeds" } else { "fails" }, wname, wns, if should { "satisfy" } else { "do not satisfy" }));
        }
    }
    if let Ok(p) = built {
        // C08: the type's name rule applies to what the split put into the name, identically from this entry point
        let rule = match i {
            5 => spec_lower(wname),
            6 => spec_pypi(wname),
            _ => wname.to_string(),
        };
        if p.name() != rule {
            ck.fail("C08", format!("builder_with_combined_name({}, {:?}) gives name {:?}, the type's rule gives {:?}", t.name(), s, p.name(), rule));
        }
        let side = match i {
            2 | 4 => !p.name().contains('/'),
            3 => p.namespace().map(|n| !n.contains(':')).unwrap_or(false),
            _ => p.namespace().is_none(),
        };
        if side {
            let b2 = Purl::builder_with_combined_name(t, p.combined_name());
            if b2.parts.namespace.as_str() != p.namespace().unwrap_or("") || b2.parts.name.as_str() != p.name() {
                ck.fail("C18", format!("combined_name {:?} does not split back into ({:?},{:?})", p.combined_name(), p.namespace(), p.name()));
            }
            // ... and the PURL built from it has the same namespace and name again
            match b2.build() {
                Ok(p2) => {
                    if p2.namespace() != p.namespace() || p2.name() != p.name() {
                        ck.fail("C18", format!("combined_name {:?} builds to ({:?},{:?}) instead of ({:?},{:?})", p.combined_name(), p2.namespace(), p2.name(), p.namespace(), p.name()));
                    }
                },
                Err(_) => ck.fail("C18", format!("combined_name {:?} of a valid PURL does not build", p.combined_name())),
            }
        }
    }
}

// ------------------------------------------------------------------ C19 on pairs
fn k_oracle(ck: &mut Ck, a: &[&str]) {
    fn go<T: PurlShape + Eq + Ord + Hash>(ck: &mut Ck, x: &Made<T>, y: &Made<T>) {
        if let (Made::Purl(p), Made::Purl(q)) = (x, y) {
            let (sp, sq) = (catch_unwind(AssertUnwindSafe(|| p.to_string())), catch_unwind(AssertUnwindSafe(|| q.to_string())));
            let (Ok(sp), Ok(sq)) = (sp, sq) else { return };
            let eq = p == q;
            if eq != (sp == sq) {
                ck.fail("C19", format!("== is {} but canonical strings are {:?} and {:?}", eq, sp, sq));
            }
            if eq {
                ck.req("C19", hash_of(p) == hash_of(q), "equal PURLs hash differently");
            }
            ck.req("C19", (p.cmp(q) == std::cmp::Ordering::Equal) == eq, "cmp == Equal disagrees with ==");
            ck.req("C19", p.cmp(q) == q.cmp(p).reverse(), "ordering not antisymmetric");
            ck.req("C19", p.partial_cmp(q) == Some(p.cmp(q)), "partial_cmp differs from cmp");
        }
    }
    let i = a.iter().position(|x| *x == "~").unwrap();
    let (l, r) = (&a[1..i], &a[i + 1..]);
    if l[1] != r[1] {
        return;
    }
    match l[1] {
        "g" => go(ck, &make_g(l), &make_g(r)),
        "s" => go(ck, &make_s(l), &make_s(r)),
        "b" => go(ck, &make_b(l), &make_b(r)),
        "o" => go(ck, &make_o(l), &make_o(r)),
        #[cfg(feature = "pt")]
        "t" => go(ck, &make_t(l), &make_t(r)),
        _ => {},
    }
}

// ------------------------------------------------------------------ C14 on family cases
fn h_oracle(ck: &mut Ck, a: &[&str]) {
    let line = crate::shapes::run(a);
    let (log, main) = line.split_once(" ## ").unwrap();
    let calls: Vec<&str> = if log == "-" { vec![] } else { log.split(',').collect() };
    let conv = a[1].chars().next().unwrap();
    let hook: String = a[1].chars().skip(2).collect();
    if a[2] == "P" {
        let s = uh(a[3]);
        let nf = calls.iter().filter(|c| c.starts_with("F:")).count();
        let nh = calls.iter().filter(|c| c.starts_with("H:")).count();
        ck.req("C14", nf <= 1 && nh <= 1, "conversion or hook invoked more than once per parse");
        if nh == 1 {
            ck.req("C14", nf == 1 && calls[0].starts_with("F:"), "hook invoked before the conversion");
        }
        if nf == 1 {
            let arg = uh(&calls[0][2..]);
            ck.req("C14", valid_type(&arg), "conversion invoked with an invalid type substring");
            match raw_split(&s) {
                Some(r) => ck.req("C14", r.ty == arg, "conversion argument is not the type substring as written"),
                None => ck.fail("C14", "conversion invoked on a string without type substring"),
            }
            let conv_ok = conv == 'A' || (conv == 'C' && arg.eq_ignore_ascii_case("custom"));
            if !conv_ok {
                ck.req("C14", main == "E Conv" && nh == 0, "conversion error not returned unchanged / hook ran after failed conversion");
            }
        }
        if main.starts_with("O ") {
            ck.req("C14", nf == 1 && nh == 1, "a PURL was produced without exactly one conversion and one hook call");
        }
        // a hook that leaves the qualifiers alone: the PURL reports exactly the non-empty qualifiers of the string (the generic clean-up removes empty values only)
        if main.starts_with("O ") && !hook.chars().any(|c| "eqmcbxo".contains(c)) {
            if let (Some(raw), Some(f)) = (raw_split(&s), main_fields(main)) {
                if let Some(want) = ref_quals(raw.query) {
                    let want: Vec<String> = want.iter().filter(|(k, _)| k.as_str() != "checksum").map(|(k, v)| format!("{}={}", h(k), h(v))).collect();
                    let got: Vec<String> = if f[4] == "-" { vec![] } else { f[4].split(';').filter(|kv| !kv.starts_with(&format!("{}=", h("checksum")))).map(|x| x.to_string()).collect() };
                    ck.req("C14", got == want, "qualifiers of the string are not what the PURL reports although the hook did not touch them");
                }
            }
        }
    } else {
        ck.req("C14", calls.len() == 1 && calls[0].starts_with("H:") || main == "QE", "build() did not invoke the hook exactly once");
    }
    // C04 on whatever value was handed out (user-written shape: everything except the type string)
    if let Some(f) = main_fields(main) {
        ck.req("C04", f[2] != "-", "PURL with an empty name handed out");
        let q: Vec<(String, String)> = if f[4] == "-" { vec![] } else { f[4].split(';').map(|kv| { let (k, v) = kv.split_once('=').unwrap(); (uh(k), uh(v)) }).collect() };
        for w in q.windows(2) {
            ck.req("C04", w[0].0 < w[1].0, "qualifier keys not strictly ascending");
        }
        for (k, v) in &q {
            ck.req("C04", valid_key(k) && !k.bytes().any(|b| b.is_ascii_uppercase()), "qualifier key not valid lower case");
            ck.req("C04", !v.is_empty(), "qualifier with empty value handed out");
            if k == "checksum" {
                ck.req("C04", checksum_canonical(v), "checksum not canonical");
            }
        }
    }
    let hooked = calls.iter().any(|c| c.starts_with("H:"));
    if hooked && hook.contains('f') {
        ck.req("C14", main == "E Hook", "hook error not returned unchanged");
    }
    if hooked && !hook.contains('f') {
        // post-hook generic checks
        if hook.contains('n') && !hook[hook.find('n').unwrap()..].contains('N') {
            ck.req("C14", main == "E Parse:Missing(name)", "emptied name not refused");
        }
        if let Some(f) = main_fields(main) {
            // the last write of the hook program wins ('s' writes "Hook//Ns/", 'S' writes "//")
            match hook.rfind(|c| c == 's' || c == 'S').map(|i| hook.as_bytes()[i]) {
                Some(b's') => ck.req("C14", f[1] == h("Hook//Ns/"), "namespace written by the hook not reported"),
                Some(_) => ck.req("C14", f[1] == h("//"), "namespace of slashes written by the hook not reported as written"),
                None => {},
            }
            if hook.contains('V') && !hook[hook.find('V').unwrap()..].contains('v') {
                ck.req("C14", f[3] == h("9%"), "version written by the hook not reported");
            }
            if hook.contains('U') && !hook[hook.rfind('U').unwrap()..].contains('u') {
                ck.req("C14", f[5] == h("./c//.."), "subpath written by the hook not reported as written");
            }
            if hook.contains('u') && !hook[hook.rfind('u').unwrap()..].contains('U') {
                ck.req("C14", f[5] == h("a/../b"), "subpath written by the hook not reported");
            }
            let q: Vec<&str> = if f[4] == "-" { vec![] } else { f[4].split(';').collect() };
            if hook.contains('e') {
                ck.req("C14", !q.iter().any(|kv| kv.starts_with(&format!("{}=", h("zz")))), "empty-valued qualifier inserted by the hook not removed");
            }
            ck.req("C14", !q.iter().any(|kv| kv.ends_with("=-")), "empty-valued qualifier handed out");
            if hook.contains('q') && !hook[hook.rfind('q').unwrap()..].contains('x') {
                ck.req("C14", q.contains(&format!("{}={}", h("hk"), h("Val")).as_str()), "qualifier inserted by the hook not reported");
            }
            // whoever wrote it (the input or the hook): a checksum that is handed out is in canonical form - algorithms (the text before the last ':') lower-cased character by
            // character and strictly ascending, digests lower-case hex of even length (possibly empty)
            for kv in &q {
                if let Some(v) = kv.strip_prefix(&format!("{}=", h("checksum"))) {
                    let txt = uh(v);
                    let items: Vec<(&str, &str)> = txt.split(',').map(|e| e.rsplit_once(':').unwrap_or((e, "\u{0}"))).collect();
                    let canon = items.iter().all(|(al, d)| {
                        !al.is_empty()
                            && al.chars().flat_map(char::to_lowercase).collect::<String>() == *al
                            && d.len() % 2 == 0
                            && d.chars().all(|c| c.is_ascii_digit() || ('a'..='f').contains(&c))
                    }) && items.windows(2).all(|w| w[0].0 < w[1].0);
                    ck.req("C14", canon, "the checksum handed out after the type's hook ran is not in canonical form");
                    ck.req("C12", canon, "a PURL carries a checksum that is not in canonical form");
                }
            }
            let last_cs = hook.rfind(|c| c == 'm' || c == 'o' || c == 'c' || c == 'b' || c == 'x').map(|i| hook.as_bytes()[i] as char);
            if last_cs == Some('b') || last_cs == Some('x') {
                ck.req("C14", !q.iter().any(|kv| kv.starts_with(&format!("{}=", h("checksum")))), "checksum blanked / cleared by the hook still present");
            }
            if last_cs == Some('c') {
                ck.req("C14", q.contains(&format!("{}={}", h("checksum"), h("a:ff,b:00")).as_str()), "checksum written by the hook not canonicalised");
                ck.req("C12", q.contains(&format!("{}={}", h("checksum"), h("a:ff,b:00")).as_str()), "a PURL carries a checksum (written by the type's hook) that is not the canonical text");
            }
            if last_cs == Some('m') || last_cs == Some('o') {
                ck.fail("C14", "malformed checksum written by the hook accepted");
            }
        } else if matches!(hook.rfind(|c| c == 'm' || c == 'o' || c == 'c' || c == 'b' || c == 'x').map(|i| hook.as_bytes()[i] as char), Some('b') | Some('x') | Some('c')) && !hook.contains('n') && !hook.contains('m') && !hook.contains('o') {
            // a blanked, cleared or valid checksum is no reason to refuse: only a Parse error of the front end or an empty name may remain
            ck.req("C14", !main.contains("InvalidQualifier") || a[2] == "P", "PURL refused although the hook left no malformed checksum");
        } else if hook.rfind(|c| c == 'm' || c == 'o' || c == 'c' || c == 'b' || c == 'x').map(|i| hook.as_bytes()[i] as char).map(|c| c == 'm' || c == 'o') == Some(true) {
            // the name check comes first, so an empty name may pre-empt the checksum error
            ck.req("C14", main == "E Parse:InvalidQualifier" || main == "E Parse:Missing(name)", "malformed checksum written by the hook: wrong error");
        }
    }
}

// ------------------------------------------------------------------ C16
#[cfg(feature = "serde")]
pub fn serde_case(a: &[&str]) -> String {
    // J <k> <json text>: deserialize; on success also serialize
    let j = uh(a[2]);
    fn go<T>(j: &str, errf: &dyn Fn(&T::Error) -> String) -> String
    where
        T: PurlShape + FromStr + Clone,
        <T as PurlShape>::Error: std::fmt::Display + From<<T as FromStr>::Err>,
    {
        let _ = errf;
        match serde_json::from_str::<GenericPurl<T>>(j) {
            Ok(p) => format!("{} ## {}", show(&p), h(&serde_json::to_string(&p).unwrap())),
            Err(_) => "E".into(),
        }
    }
    match a[1] {
        "g" => go::<String>(&j, &|e| perr(e)),
        #[cfg(feature = "pt")]
        "t" => go::<PackageType>(&j, &|e| pkerr(e)),
        _ => "SKIP".into(),
    }
}
/// A serde Serializer that records which primitive a Serialize impl emits: human-readable or not, and optionally a sink that fails.
#[cfg(feature = "serde")]
mod probe {
    use serde::ser::{self, Impossible};
    #[derive(Debug, PartialEq)]
    pub enum Emitted {
        Str(String),
        Bytes(Vec<u8>),
        Other(&'static str),
    }
    #[derive(Debug)]
    pub struct PErr(pub String);
    impl std::fmt::Display for PErr {
        fn fmt(&self, f: &mut std::fmt::Formatter<'_>) -> std::fmt::Result {
            f.write_str(&self.0)
        }
    }
    impl std::error::Error for PErr {}
    impl ser::Error for PErr {
        fn custom<T: std::fmt::Display>(m: T) -> Self {
            PErr(m.to_string())
        }
    }
    pub struct Probe {
        pub human: bool,
        pub fail: bool,
    }
    macro_rules! prim {
        ($($f:ident : $t:ty),*) => { $(fn $f(self, _v: $t) -> Result<Emitted, PErr> { Ok(Emitted::Other(stringify!($f))) })* };
    }
    impl ser::Serializer for Probe {
        type Error = PErr;
        type Ok = Emitted;
        type SerializeMap = Impossible<Emitted, PErr>;
        type SerializeSeq = Impossible<Emitted, PErr>;
        type SerializeStruct = Impossible<Emitted, PErr>;
        type SerializeStructVariant = Impossible<Emitted, PErr>;
        type SerializeTuple = Impossible<Emitted, PErr>;
        type SerializeTupleStruct = Impossible<Emitted, PErr>;
        type SerializeTupleVariant = Impossible<Emitted, PErr>;

        prim!(serialize_bool: bool, serialize_i8: i8, serialize_i16: i16, serialize_i32: i32, serialize_i64: i64, serialize_u8: u8, serialize_u16: u16,
              serialize_u32: u32, serialize_u64: u64, serialize_f32: f32, serialize_f64: f64, serialize_char: char);

        fn is_human_readable(&self) -> bool {
            self.human
        }

        fn serialize_str(self, v: &str) -> Result<Emitted, PErr> {
            if self.fail {
                Err(PErr("sink failed".into()))
            } else {
                Ok(Emitted::Str(v.to_string()))
            }
        }

        fn serialize_bytes(self, v: &[u8]) -> Result<Emitted, PErr> {
            if self.fail {
                Err(PErr("sink failed".into()))
            } else {
                Ok(Emitted::Bytes(v.to_vec()))
            }
        }

        fn serialize_none(self) -> Result<Emitted, PErr> {
            Ok(Emitted::Other("none"))
        }

        fn serialize_some<T: ?Sized + ser::Serialize>(self, _v: &T) -> Result<Emitted, PErr> {
            Ok(Emitted::Other("some"))
        }

        fn serialize_unit(self) -> Result<Emitted, PErr> {
            Ok(Emitted::Other("unit"))
        }

        fn serialize_unit_struct(self, _n: &'static str) -> Result<Emitted, PErr> {
            Ok(Emitted::Other("unit_struct"))
        }

        fn serialize_unit_variant(self, _n: &'static str, _i: u32, _v: &'static str) -> Result<Emitted, PErr> {
            Ok(Emitted::Other("unit_variant"))
        }

        fn serialize_newtype_struct<T: ?Sized + ser::Serialize>(self, _n: &'static str, _v: &T) -> Result<Emitted, PErr> {
            Ok(Emitted::Other("newtype_struct"))
        }

        fn serialize_newtype_variant<T: ?Sized + ser::Serialize>(self, _n: &'static str, _i: u32, _vn: &'static str, _v: &T) -> Result<Emitted, PErr> {
            Ok(Emitted::Other("newtype_variant"))
        }

        fn serialize_seq(self, _l: Option<usize>) -> Result<Self::SerializeSeq, PErr> {
            Err(PErr("seq".into()))
        }

        fn serialize_tuple(self, _l: usize) -> Result<Self::SerializeTuple, PErr> {
            Err(PErr("tuple".into()))
        }

        fn serialize_tuple_struct(self, _n: &'static str, _l: usize) -> Result<Self::SerializeTupleStruct, PErr> {
            Err(PErr("tuple_struct".into()))
        }

        fn serialize_tuple_variant(self, _n: &'static str, _i: u32, _v: &'static str, _l: usize) -> Result<Self::SerializeTupleVariant, PErr> {
            Err(PErr("tuple_variant".into()))
        }

        fn serialize_map(self, _l: Option<usize>) -> Result<Self::SerializeMap, PErr> {
            Err(PErr("map".into()))
        }

        fn serialize_struct(self, _n: &'static str, _l: usize) -> Result<Self::SerializeStruct, PErr> {
            Err(PErr("struct".into()))
        }

        fn serialize_struct_variant(self, _n: &'static str, _i: u32, _v: &'static str, _l: usize) -> Result<Self::SerializeStructVariant, PErr> {
            Err(PErr("struct_variant".into()))
        }
    }
    /// a writer that accepts `ok` bytes and then fails
    pub struct Broken(pub usize);
    impl std::io::Write for Broken {
        fn write(&mut self, b: &[u8]) -> std::io::Result<usize> {
            if self.0 == 0 {
                return Err(std::io::Error::new(std::io::ErrorKind::BrokenPipe, "broken"));
            }
            let n = b.len().min(self.0);
            self.0 -= n;
            Ok(n)
        }

        fn flush(&mut self) -> std::io::Result<()> {
            Ok(())
        }
    }
}
/// a non-self-describing format in miniature: it can hand out a string when asked for one (deserialize_str / deserialize_string) and nothing else
#[cfg(feature = "serde")]
mod noany {
    use serde::de::{self, Visitor};
    pub struct StrOnly<'a>(pub &'a str);
    macro_rules! refuse {
        ($($m:ident)*) => { $(fn $m<V: Visitor<'de>>(self, _v: V) -> Result<V::Value, Self::Error> { Err(de::Error::custom(concat!(stringify!($m), " is not supported by this format"))) })* };
    }
    impl<'de, 'a> de::Deserializer<'de> for StrOnly<'a> {
        type Error = de::value::Error;

        refuse!(deserialize_any deserialize_bool deserialize_i8 deserialize_i16 deserialize_i32 deserialize_i64 deserialize_u8 deserialize_u16 deserialize_u32 deserialize_u64
                deserialize_f32 deserialize_f64 deserialize_char deserialize_bytes deserialize_byte_buf deserialize_option deserialize_unit deserialize_seq deserialize_map
                deserialize_identifier deserialize_ignored_any);

        fn deserialize_str<V: Visitor<'de>>(self, v: V) -> Result<V::Value, Self::Error> {
            v.visit_str(self.0)
        }

        fn deserialize_string<V: Visitor<'de>>(self, v: V) -> Result<V::Value, Self::Error> {
            v.visit_string(self.0.to_string())
        }

        fn deserialize_unit_struct<V: Visitor<'de>>(self, _n: &'static str, _v: V) -> Result<V::Value, Self::Error> {
            Err(de::Error::custom("not supported"))
        }

        fn deserialize_newtype_struct<V: Visitor<'de>>(self, _n: &'static str, _v: V) -> Result<V::Value, Self::Error> {
            Err(de::Error::custom("not supported"))
        }

        fn deserialize_tuple<V: Visitor<'de>>(self, _l: usize, _v: V) -> Result<V::Value, Self::Error> {
            Err(de::Error::custom("not supported"))
        }

        fn deserialize_tuple_struct<V: Visitor<'de>>(self, _n: &'static str, _l: usize, _v: V) -> Result<V::Value, Self::Error> {
            Err(de::Error::custom("not supported"))
        }

        fn deserialize_struct<V: Visitor<'de>>(self, _n: &'static str, _f: &'static [&'static str], _v: V) -> Result<V::Value, Self::Error> {
            Err(de::Error::custom("not supported"))
        }

        fn deserialize_enum<V: Visitor<'de>>(self, _n: &'static str, _f: &'static [&'static str], _v: V) -> Result<V::Value, Self::Error> {
            Err(de::Error::custom("not supported"))
        }
    }
}
#[cfg(feature = "serde")]
fn j_oracle(ck: &mut Ck, a: &[&str]) {
    let j = uh(a[2]);
    fn go<K: Kind>(ck: &mut Ck, j: &str)
    where
        K::T: FromStr,
        <K::T as PurlShape>::Error: std::fmt::Display + From<<K::T as FromStr>::Err>,
    {
        let v: Result<serde_json::Value, _> = serde_json::from_str(j);
        let Ok(v) = v else { return };
        let de = serde_json::from_value::<GenericPurl<K::T>>(v.clone());
        // the same JSON text through the three entry points of serde_json (borrowed, transient and owned strings reach the visitor differently)
        let de_text = serde_json::from_str::<GenericPurl<K::T>>(j);
        let de_reader = serde_json::from_reader::<_, GenericPurl<K::T>>(j.as_bytes());
        if de.is_ok() != de_text.is_ok() || de.is_ok() != de_reader.is_ok() {
            ck.fail("C16", format!("from_value / from_str / from_reader disagree on {}: {} {} {}", j, de.is_ok(), de_text.is_ok(), de_reader.is_ok()));
        } else if let (Ok(a), Ok(b), Ok(c)) = (&de, &de_text, &de_reader) {
            ck.req("C16", a == b && a == c, "from_value / from_str / from_reader give different PURLs");
        }
        // values of the serde data model that are not strings, handed to Deserialize directly (serde_json has no byte-array value)
        if let Some(txt) = v.as_str() {
            use serde::de::value::{BorrowedBytesDeserializer, BytesDeserializer, Error as VE, SeqDeserializer, U64Deserializer, UnitDeserializer, BoolDeserializer, StrDeserializer, StringDeserializer, BorrowedStrDeserializer};
            use serde::Deserialize;
            let by = GenericPurl::<K::T>::deserialize(BytesDeserializer::<VE>::new(txt.as_bytes()));
            let bb = GenericPurl::<K::T>::deserialize(BorrowedBytesDeserializer::<VE>::new(txt.as_bytes()));
            ck.req("C16", by.is_err() && bb.is_err(), "a byte-array value deserialises to a PURL");
            let sq = GenericPurl::<K::T>::deserialize(SeqDeserializer::<_, VE>::new(txt.bytes()));
            ck.req("C16", sq.is_err(), "a sequence value deserialises to a PURL");
            ck.req("C16", GenericPurl::<K::T>::deserialize(U64Deserializer::<VE>::new(txt.len() as u64)).is_err(), "an integer value deserialises to a PURL");
            ck.req("C16", GenericPurl::<K::T>::deserialize(UnitDeserializer::<VE>::new()).is_err(), "a unit value deserialises to a PURL");
            ck.req("C16", GenericPurl::<K::T>::deserialize(BoolDeserializer::<VE>::new(true)).is_err(), "a bool value deserialises to a PURL");
            // the three string flavours of the data model give what from_str gives
            let want = K::parse(txt).unwrap().ok();
            let s1 = GenericPurl::<K::T>::deserialize(StrDeserializer::<VE>::new(txt)).ok();
            let s2 = GenericPurl::<K::T>::deserialize(StringDeserializer::<VE>::new(txt.to_string())).ok();
            let s3 = GenericPurl::<K::T>::deserialize(BorrowedStrDeserializer::<VE>::new(txt)).ok();
            ck.req("C16", s1 == want && s2 == want && s3 == want, "a transient / owned / borrowed string value does not deserialise to what from_str gives");
            let s4 = GenericPurl::<K::T>::deserialize(noany::StrOnly(txt)).ok();
            ck.req("C16", s4 == want, "a format that can only hand out strings when asked for one (no deserialize_any) does not deserialise to what from_str gives");
        }
        match v.as_str() {
            None => ck.req("C16", de.is_err(), "a non-string JSON value deserialises to a PURL"),
            Some(s) => {
                let p = K::parse(s).unwrap();
                match (&p, &de) {
                    (Ok(p), Ok(d)) => {
                        ck.req("C16", p == d, "deserialised PURL differs from the parsed one");
                        // the serialised form is one string value, the canonical string, for every kind of serializer, and does not depend on earlier calls
                        {
                            use serde::Serialize;
                            let canon = d.to_string();
                            let want = Ok(probe::Emitted::Str(canon.clone()));
                            let hr = d.serialize(probe::Probe { human: true, fail: false }).map_err(|e| e.0);
                            let nhr = d.serialize(probe::Probe { human: false, fail: false }).map_err(|e| e.0);
                            ck.req("C16", hr == want && nhr == want, "a serializer (human-readable or binary) is not handed the canonical string as one string value");
                            let failed = d.serialize(probe::Probe { human: true, fail: true });
                            ck.req("C16", failed.is_err(), "a failing serializer's error is swallowed");
                            let _ = serde_json::to_writer(probe::Broken(0), d);
                            let _ = serde_json::to_writer(probe::Broken(3), &vec![d.clone(), d.clone()]);
                            let again = d.serialize(probe::Probe { human: true, fail: false }).map_err(|e| e.0);
                            ck.req("C16", again == want && serde_json::to_string(d).ok() == serde_json::to_string(&canon).ok(), "serialising after a failed serialisation gives another string");
                        }
                        let ser = serde_json::to_value(d).unwrap();
                        ck.req("C16", ser.as_str() == Some(&d.to_string()), "serialised form is not the canonical string");
                        let back = serde_json::from_value::<GenericPurl<K::T>>(ser);
                        ck.req("C16", back.as_ref().ok() == Some(d), "JSON round trip changes the PURL");
                    },
                    (Err(_), Err(_)) => {},
                    _ => ck.fail("C16", format!("parse and deserialise disagree on {:?}", s)),
                }
            },
        }
    }
    match a[1] {
        "g" => go::<KG>(ck, &j),
        #[cfg(feature = "pt")]
        "t" => go::<KT>(ck, &j),
        _ => {},
    }
}

pub fn check(line: &str) -> String {
    let a: Vec<&str> = line.split(' ').collect();
    let mut ck = Ck(vec![]);
    // C06: no panic on the plain run of the case, except the documented ones (encoded as PANIC op outcomes / `!`)
    // PURL-producing cases are evaluated once, inside their oracles (first evaluation = the one examined); the others are run here first
    let is_purl = matches!(a[0], "P" | "S" | "X" | "B");
    let r = if is_purl { Ok(String::new()) } else { catch_unwind(AssertUnwindSafe(|| run(line))) };
    // documented panic #2 reached through the builder: with_typed_qualifier(Some(..)) of a user type whose KEY is not a valid key
    let documented = a[0] == "B" && a.len() > 4 && a[4].split(',').any(|o| o.starts_with("W:2:"));
    match &r {
        Err(_) if documented => {},
        Err(_) => ck.fail("C06", "panic"),
        Ok(l) => {
            if a[0] == "C" || a[0] == "c" {
                ck.req("C06", !l.ends_with("|P"), "checksum serialisation panics");
            }
            if a[0] == "Q" {
                // PANIC is documented only for Index/IndexMut of an absent key
                let outs: Vec<&str> = l.split('|').next().unwrap().split(',').collect();
                let ops: Vec<&str> = a[1].split(',').collect();
                for (o, op) in outs.iter().zip(ops.iter()) {
                    if *o == "PANIC" && !(op.starts_with("x:") || op.starts_with("X:") || op.starts_with("tu:2:")) {
                        ck.fail("C06", format!("operation {} panics", op));
                    }
                }
            }
            if matches!(a[0], "P" | "S" | "X" | "B") {
                ck.req("C06", !l.contains('!'), "formatting a PURL with a built-in type parameter panics");
            }
        },
    }
    if r.is_ok() {
        match a[0] {
            "P" | "S" | "X" | "B" => purl_case_oracles(&mut ck, &a),
            "Q" => q_oracle(&mut ck, a[1]),
            "F" => f_oracle(&mut ck, a[1]),
            "C" => cs_oracle(&mut ck, a[1]),
            "c" => {
                let t = uh(a[1]);
                let got = Checksum::try_from(t.as_str()).ok().and_then(|c| Small::try_from(c).ok()).map(|s| s.to_string());
                let want = ref_checksum(&t);
                if got != want {
                    ck.fail("C12", format!("text {:?}: canonical form {:?}, reference {:?}", t, got, want));
                }
            },
            #[cfg(feature = "pt")]
            "T" => t_oracle(&mut ck, &uh(a[1])),
            #[cfg(feature = "pt")]
            "N" => n_oracle(&mut ck, &a),
            #[cfg(feature = "pt")]
            "M" => {
                if let Ok(p) = Purl::from_str(&uh(a[1])) {
                    let i = PTS.iter().position(|t| t == p.package_type()).unwrap();
                    let side = match i {
                        2 | 4 => !p.name().contains('/'),
                        3 => p.namespace().map(|n| !n.contains(':')).unwrap_or(false),
                        _ => p.namespace().is_none(),
                    };
                    if side {
                        let b2 = Purl::builder_with_combined_name(*p.package_type(), p.combined_name());
                        if b2.parts.namespace.as_str() != p.namespace().unwrap_or("") || b2.parts.name.as_str() != p.name() {
                            ck.fail("C18", format!("combined_name {:?} of {} does not split back into ({:?},{:?})", p.combined_name(), p, p.namespace(), p.name()));
                        }
                        match b2.build() {
                            Ok(p2) => ck.req("C18", p2.namespace() == p.namespace() && p2.name() == p.name(), "the PURL built from combined_name() has another namespace or name"),
                            Err(_) => ck.fail("C18", format!("combined_name {:?} of a valid PURL does not build", p.combined_name())),
                        }
                    }
                }
            },
            "K" => k_oracle(&mut ck, &a),
            "H" => h_oracle(&mut ck, &a),
            #[cfg(feature = "serde")]
            "J" => j_oracle(&mut ck, &a),
            _ => {},
        }
    }
    if ck.0.is_empty() {
        "ok".into()
    } else {
        let mut seen = std::collections::BTreeSet::new();
        let v: Vec<String> = ck.0.iter().filter(|(p, _)| seen.insert(*p)).map(|(p, m)| format!("{} {}", p, m)).collect();
        format!("FAIL {}", v.join(" ;; "))
    }
}
