//! Correspondence harness: runs the real `purl` crate on case lines and prints canonical outcome
//! lines (mode `run`), or evaluates the per-property oracles on the real crate (mode `oracle`).
//! The OCaml driver `model/drv.ml` prints the same canonical lines from the extracted Coq model.
//!
//! Case language (one case per line, fields separated by one space, strings hex encoded, `-` = empty):
//!   P <k> <s>                      parse; k = g (String) | s (SmallString) | t (PackageType)
//!   S <k> <exp> <s>                parse a legal spelling; exp = ty|ns|name|ver|k=v;..|sub (expected tuple)
//!   X <k> <err> <s>                parse a faulty spelling; err = expected error text
//!   B <k> <type> <name0> <ops>     builder; k = g | b (Cow::Borrowed) | o (Cow::Owned) | s | t (type = index 0..6)
//!   Q <ops>                        Qualifiers operation sequence
//!   F <pairs>                      Qualifiers::try_from_iter
//!   C <csops>                      Checksum operation sequence
//!   c <text>                       Checksum::try_from(text)
//!   T <s>                          PackageType::from_str
//!   N <idx> <s>                    Purl::builder_with_combined_name
//!   K <sub> ~ <sub>                comparison of two PURL-producing cases (P or B) of the same kind
//!   H <fam> <P|B ...>              user-supplied shape family member `fam` (conv,ty,hook)
//!   J <k> <json>                   serde: deserialize JSON text (feature serde)
#![allow(clippy::all)]
use std::borrow::Cow;
use std::cell::RefCell;
use std::collections::hash_map::DefaultHasher;
use std::hash::{Hash, Hasher};
use std::io::{BufRead, Write};
use std::panic::{catch_unwind, AssertUnwindSafe};
use std::str::FromStr;

use purl::qualifiers::well_known::{gem, maven, Checksum, DownloadUrl, FileName, KnownQualifierKey, RepositoryUrl, VcsUrl};
use purl::qualifiers::Entry;
use purl::*;

#[cfg(feature = "ss")]
type Small = purl::SmallString;
#[cfg(not(feature = "ss"))]
type Small = String;

mod oracle;
mod shapes;

/// user-written typed qualifiers (the trait is public): a mixed-case key, a key with every special character, an invalid key
pub struct BuildTag(pub String);
impl KnownQualifierKey for BuildTag {
    const KEY: &'static str = "buildTag";
}
impl From<BuildTag> for Small {
    fn from(v: BuildTag) -> Self {
        Small::from(v.0)
    }
}
impl<'a> From<&'a str> for BuildTag {
    fn from(v: &'a str) -> Self {
        BuildTag(v.to_string())
    }
}
pub struct Odd(pub String);
impl KnownQualifierKey for Odd {
    const KEY: &'static str = "X-Y.z_1";
}
impl From<Odd> for Small {
    fn from(v: Odd) -> Self {
        Small::from(v.0)
    }
}
impl<'a> From<&'a str> for Odd {
    fn from(v: &'a str) -> Self {
        Odd(v.to_string())
    }
}
pub struct BadKey(pub String);
impl KnownQualifierKey for BadKey {
    const KEY: &'static str = "bad key";
}
impl From<BadKey> for Small {
    fn from(v: BadKey) -> Self {
        Small::from(v.0)
    }
}
impl<'a> From<&'a str> for BadKey {
    fn from(v: &'a str) -> Self {
        BadKey(v.to_string())
    }
}

// ------------------------------------------------------------------ printing helpers
pub fn h(s: &str) -> String {
    if s.is_empty() {
        "-".into()
    } else {
        hex::encode(s.as_bytes())
    }
}
pub fn hb(s: &[u8]) -> String {
    if s.is_empty() {
        "-".into()
    } else {
        hex::encode(s)
    }
}
pub fn uhb(s: &str) -> Vec<u8> {
    if s == "-" {
        vec![]
    } else {
        hex::decode(s).expect("hex")
    }
}
pub fn uh(s: &str) -> String {
    String::from_utf8(uhb(s)).expect("case strings are UTF-8")
}
pub fn fld(f: PurlField) -> &'static str {
    match f {
        PurlField::PackageType => "type",
        PurlField::Namespace => "namespace",
        PurlField::Name => "name",
        PurlField::Version => "version",
        PurlField::Subpath => "subpath",
        #[allow(unreachable_patterns)]
        _ => "other",
    }
}
pub fn perr(e: &ParseError) -> String {
    match e {
        ParseError::UnsupportedUrlScheme => "Scheme".into(),
        ParseError::MissingRequiredField(f) => format!("Missing({})", fld(*f)),
        ParseError::InvalidPackageType => "InvalidType".into(),
        ParseError::InvalidQualifier => "InvalidQualifier".into(),
        ParseError::InvalidEscape => "InvalidEscape".into(),
        #[allow(unreachable_patterns)]
        other => format!("Other({})", other), // a variant the machinery does not know (the enum grew)
    }
}
#[cfg(feature = "pt")]
pub fn pkerr(e: &PackageError) -> String {
    match e {
        PackageError::MissingRequiredField(f) => format!("PMissing({})", fld(*f)),
        PackageError::Parse(e) => format!("Parse:{}", perr(e)),
        PackageError::UnsupportedType => "UnsupportedType".into(),
        #[allow(unreachable_patterns)]
        other => format!("Other({})", other),
    }
}
pub fn qs(q: &Qualifiers) -> String {
    if q.is_empty() {
        return "-".into();
    }
    q.iter().map(|(k, v)| format!("{}={}", h(k.as_str()), h(v))).collect::<Vec<_>>().join(";")
}
pub fn qs_rev(q: &Qualifiers) -> String {
    if q.is_empty() {
        return "-".into();
    }
    q.iter().rev().map(|(k, v)| format!("{}={}", h(k.as_str()), h(v))).collect::<Vec<_>>().join(";")
}
/// `O ty|ns|name|ver|quals|sub|canon` (canon = `!` when Display panics)
pub fn show<T: PurlShape>(p: &GenericPurl<T>) -> String {
    let canon = catch_unwind(AssertUnwindSafe(|| p.to_string()));
    format!(
        "O {}|{}|{}|{}|{}|{}|{}",
        h(&p.package_type().package_type()),
        h(p.namespace().unwrap_or("")),
        h(p.name()),
        h(p.version().unwrap_or("")),
        qs(p.qualifiers()),
        h(p.subpath().unwrap_or("")),
        match canon {
            Ok(c) => h(&c),
            Err(_) => "!".into(),
        }
    )
}

// ------------------------------------------------------------------ kinds of type parameter
pub trait Kind {
    type T: PurlShape + Clone + Eq + Ord + Hash + std::fmt::Debug;
    fn err(e: &<Self::T as PurlShape>::Error) -> String;
    /// parse with the FromStr-capable sibling of this kind and show
    fn parse_show(s: &str) -> String;
    fn parse(s: &str) -> Option<Result<GenericPurl<Self::T>, String>>;
}
pub struct KG;
pub struct KS;
pub struct KB;
pub struct KO;
#[cfg(feature = "pt")]
pub struct KT;
impl Kind for KG {
    type T = String;
    fn err(e: &ParseError) -> String {
        perr(e)
    }
    fn parse_show(s: &str) -> String {
        match GenericPurl::<String>::from_str(s) {
            Ok(p) => show(&p),
            Err(e) => format!("E {}", perr(&e)),
        }
    }
    fn parse(s: &str) -> Option<Result<GenericPurl<String>, String>> {
        Some(GenericPurl::<String>::from_str(s).map_err(|e| perr(&e)))
    }
}
impl Kind for KS {
    type T = Small;
    fn err(e: &ParseError) -> String {
        perr(e)
    }
    fn parse_show(s: &str) -> String {
        match GenericPurl::<Small>::from_str(s) {
            Ok(p) => show(&p),
            Err(e) => format!("E {}", perr(&e)),
        }
    }
    fn parse(s: &str) -> Option<Result<GenericPurl<Small>, String>> {
        Some(GenericPurl::<Small>::from_str(s).map_err(|e| perr(&e)))
    }
}
impl Kind for KB {
    type T = Cow<'static, str>;
    fn err(e: &ParseError) -> String {
        perr(e)
    }
    fn parse_show(s: &str) -> String {
        KG::parse_show(s)
    }
    fn parse(_: &str) -> Option<Result<GenericPurl<Self::T>, String>> {
        None
    }
}
impl Kind for KO {
    type T = Cow<'static, str>;
    fn err(e: &ParseError) -> String {
        perr(e)
    }
    fn parse_show(s: &str) -> String {
        KG::parse_show(s)
    }
    fn parse(_: &str) -> Option<Result<GenericPurl<Self::T>, String>> {
        None
    }
}
#[cfg(feature = "pt")]
impl Kind for KT {
    type T = PackageType;
    fn err(e: &PackageError) -> String {
        pkerr(e)
    }
    fn parse_show(s: &str) -> String {
        match Purl::from_str(s) {
            Ok(p) => show(&p),
            Err(e) => format!("E {}", pkerr(&e)),
        }
    }
    fn parse(s: &str) -> Option<Result<Purl, String>> {
        Some(Purl::from_str(s).map_err(|e| pkerr(&e)))
    }
}
#[cfg(feature = "pt")]
pub const PTS: [PackageType; 7] = [
    PackageType::Cargo,
    PackageType::Gem,
    PackageType::Golang,
    PackageType::Maven,
    PackageType::Npm,
    PackageType::NuGet,
    PackageType::PyPI,
];

/// A PURL-producing case result: either a PURL or a terminal text (`E ..`, `QE`, `CE`).
pub enum Made<T> {
    Purl(GenericPurl<T>),
    Stop(String),
}

/// `main ## reparse ## rebuild`
pub fn triple<K: Kind>(m: &Made<K::T>) -> String {
    match m {
        Made::Stop(s) => format!("{} ## - ## -", s),
        Made::Purl(p) => {
            let main = show(p);
            let canon = catch_unwind(AssertUnwindSafe(|| p.to_string()));
            let re = match &canon {
                Ok(c) => K::parse_show(c),
                Err(_) => "!".into(),
            };
            let rb = match p.clone().into_builder().build() {
                Ok(p2) => show(&p2),
                Err(e) => format!("E {}", K::err(&e)),
            };
            format!("{} ## {} ## {}", main, re, rb)
        },
    }
}

// ------------------------------------------------------------------ checksum op sequences
/// csops: `+`-separated; `i.alg.hexbytes` insert, `w.alg.rawtext` insert_raw, `r.alg` remove
pub fn run_csops(spec: &str) -> Checksum<'static> {
    let mut c = Checksum::default();
    if spec == "-" {
        return c;
    }
    for o in spec.split('+') {
        let f: Vec<&str> = o.split('.').collect();
        match f[0] {
            "i" => c.insert(&uh(f[1]), uhb(f[2])),
            "w" => c.insert_raw(&uh(f[1]), uh(f[2])),
            "r" => c.remove(&uh(f[1])),
            _ => panic!("bad csop"),
        }
    }
    c
}
pub fn cs_entries(c: &Checksum) -> String {
    let mut v: Vec<(String, String)> = c.iter().map(|(k, v)| (k.to_string(), v.raw().to_string())).collect();
    v.sort();
    // the other read accessors must show the same entries
    let mut v2: Vec<(String, String)> = c.algorithms().map(|a| (a.to_string(), c.get_raw(a).unwrap_or("<none>").to_string())).collect();
    v2.sort();
    let mut v3: Vec<(String, String)> = c.into_iter().map(|(k, v)| (k.to_string(), (&*v).to_string())).collect();
    v3.sort();
    let v4_ok = v.iter().all(|(k, r)| c.get_value(k).map(|x| x.raw() == r.as_str()).unwrap_or(false));
    if v2 != v || v3 != v || !v4_ok {
        return "INCONSISTENT".into();
    }
    if v.is_empty() {
        return "-".into();
    }
    v.iter().map(|(k, v)| format!("{}={}", h(k), h(v))).collect::<Vec<_>>().join(";")
}
/// `entries|P` (panic) / `entries|E` / `entries|T:text|entries-after-reparse`
pub fn cs_show(c: &Checksum) -> String {
    let c2 = c.clone();
    let r = catch_unwind(move || Small::try_from(c2));
    let ents = cs_entries(c);
    match r {
        Err(_) => format!("{}|P", ents),
        Ok(Err(_)) => format!("{}|E", ents),
        Ok(Ok(t)) => {
            let back = match Checksum::try_from(t.as_str()) {
                Ok(c) => cs_entries(&c),
                Err(_) => "E".into(),
            };
            format!("{}|T:{}|{}", ents, h(&t), back)
        },
    }
}

// ------------------------------------------------------------------ builder
fn build_ops<K: Kind>(
    mut b: GenericPurlBuilder<K::T>,
    ops: &str,
    mkty: &dyn Fn(&str) -> K::T,
) -> Made<K::T> {
    if ops != "-" {
        for o in ops.split(',') {
            let f: Vec<&str> = o.split(':').collect();
            b = match f[0] {
                "N" => b.with_name(uh(f[1])),
                "S" => b.with_namespace(uh(f[1])),
                "s" => b.without_namespace(),
                "V" => b.with_version(uh(f[1])),
                "v" => b.without_version(),
                "U" => b.with_subpath(uh(f[1])),
                "u" => b.without_subpath(),
                "T" => b.with_package_type(mkty(f[1])),
                "Q" => match b.with_qualifier(uh(f[1]), uh(f[2])) {
                    Ok(b) => b,
                    Err(_) => return Made::Stop("QE".into()),
                },
                "q" => b.without_qualifier(uh(f[1])),
                "z" => b.without_qualifiers(),
                "C" => match b.try_with_typed_qualifier(Some(run_csops(f[1]))) {
                    Ok(b) => b,
                    Err(_) => return Made::Stop("CE".into()),
                },
                "c" => b.try_with_typed_qualifier(None::<Checksum>).unwrap(),
                "R" => {
                    let u = uh(f[1]);
                    b.with_typed_qualifier(Some(RepositoryUrl::from(u.as_str())))
                },
                "r" => b.with_typed_qualifier(None::<RepositoryUrl>),
                // typed qualifiers declared by the user of the crate (KEY mixed-case / odd but valid / invalid: the documented panic)
                "W" => match f[1] {
                    "0" => b.with_typed_qualifier(Some(BuildTag(uh(f[2])))),
                    "1" => b.with_typed_qualifier(Some(Odd(uh(f[2])))),
                    _ => b.with_typed_qualifier(Some(BadKey(uh(f[2])))),
                },
                "w" => match f[1] {
                    "0" => b.with_typed_qualifier(None::<BuildTag>),
                    "1" => b.with_typed_qualifier(None::<Odd>),
                    _ => b.with_typed_qualifier(None::<BadKey>),
                },
                "D" => {
                    let _ = b.parts.qualifiers.insert(uh(f[1]), uh(f[2]));
                    b
                },
                "E" => {
                    b.parts.qualifiers.remove(uh(f[1]));
                    b
                },
                _ => panic!("bad builder op {o}"),
            };
        }
    }
    match b.build() {
        Ok(p) => Made::Purl(p),
        Err(e) => Made::Stop(format!("E {}", K::err(&e))),
    }
}
fn leak(s: String) -> &'static str {
    Box::leak(s.into_boxed_str())
}
pub fn make_g(a: &[&str]) -> Made<String> {
    match a[0] {
        "P" | "S" | "X" => {
            let s = uh(a[a.len() - 1]);
            match GenericPurl::<String>::from_str(&s) {
                Ok(p) => Made::Purl(p),
                Err(e) => Made::Stop(format!("E {}", perr(&e))),
            }
        },
        "B" => {
            let m = build_ops::<KG>(GenericPurlBuilder::new(uh(a[2]), uh(a[3])), a[4], &|t| uh(t));
            if a[4] == "-" {
                // GenericPurl::new and GenericPurl::builder(..).build() are the same call
                let n = GenericPurl::<String>::new(uh(a[2]), uh(a[3]));
                let b = GenericPurl::builder(uh(a[2]), uh(a[3])).build();
                let same = match (&m, &n, &b) {
                    (Made::Purl(p), Ok(x), Ok(y)) => p == x && p == y,
                    (Made::Stop(e), Err(x), Err(y)) => *e == format!("E {}", perr(x)) && *e == format!("E {}", perr(y)),
                    _ => false,
                };
                if !same {
                    return Made::Stop("INCONSISTENT new/builder".into());
                }
            }
            m
        },
        _ => panic!("bad case"),
    }
}
pub fn make_s(a: &[&str]) -> Made<Small> {
    match a[0] {
        "P" | "S" | "X" => {
            let s = uh(a[a.len() - 1]);
            match GenericPurl::<Small>::from_str(&s) {
                Ok(p) => Made::Purl(p),
                Err(e) => Made::Stop(format!("E {}", perr(&e))),
            }
        },
        "B" => build_ops::<KS>(GenericPurlBuilder::new(Small::from(uh(a[2])), uh(a[3])), a[4], &|t| Small::from(uh(t))),
        _ => panic!("bad case"),
    }
}
pub fn make_b(a: &[&str]) -> Made<Cow<'static, str>> {
    build_ops::<KB>(GenericPurlBuilder::new(Cow::Borrowed(leak(uh(a[2]))), uh(a[3])), a[4], &|t| Cow::Borrowed(leak(uh(t))))
}
pub fn make_o(a: &[&str]) -> Made<Cow<'static, str>> {
    build_ops::<KO>(GenericPurlBuilder::new(Cow::Owned(uh(a[2])), uh(a[3])), a[4], &|t| Cow::Owned(uh(t)))
}
#[cfg(feature = "pt")]
pub fn make_t(a: &[&str]) -> Made<PackageType> {
    match a[0] {
        "P" | "S" | "X" => {
            let s = uh(a[a.len() - 1]);
            match Purl::from_str(&s) {
                Ok(p) => Made::Purl(p),
                Err(e) => Made::Stop(format!("E {}", pkerr(&e))),
            }
        },
        "B" => build_ops::<KT>(
            GenericPurlBuilder::new(PTS[a[2].parse::<usize>().unwrap()], uh(a[3])),
            a[4],
            &|t| PTS[t.parse::<usize>().unwrap()],
        ),
        _ => panic!("bad case"),
    }
}

fn purl_case(a: &[&str]) -> String {
    match a[1] {
        "g" => triple::<KG>(&make_g(a)),
        "s" => triple::<KS>(&make_s(a)),
        "b" => triple::<KB>(&make_b(a)),
        "o" => triple::<KO>(&make_o(a)),
        #[cfg(feature = "pt")]
        "t" => triple::<KT>(&make_t(a)),
        _ => "SKIP".into(),
    }
}

// ------------------------------------------------------------------ comparison
fn hash_of<T: Hash>(x: &T) -> u64 {
    let mut s = DefaultHasher::new();
    x.hash(&mut s);
    s.finish()
}
fn ord_s(o: std::cmp::Ordering) -> &'static str {
    match o {
        std::cmp::Ordering::Less => "lt",
        std::cmp::Ordering::Equal => "eq",
        std::cmp::Ordering::Greater => "gt",
    }
}
pub fn cmp_line<T: PurlShape + Eq + Ord + Hash>(x: &Made<T>, y: &Made<T>) -> String {
    match (x, y) {
        (Made::Purl(p), Made::Purl(q)) => {
            let can = |x: &GenericPurl<T>| catch_unwind(AssertUnwindSafe(|| h(&x.to_string()))).unwrap_or_else(|_| "!".into());
            format!("{} {} | {} | {}", if p == q { "EQ" } else { "NE" }, ord_s(p.cmp(q)), can(p), can(q))
        },
        _ => "NA".into(),
    }
}
fn cmp_case(a: &[&str]) -> String {
    let i = a.iter().position(|x| *x == "~").expect("~");
    let (l, r) = (&a[1..i], &a[i + 1..]);
    if l[1] != r[1] && !(matches!(l[1], "b" | "o") && matches!(r[1], "b" | "o")) {
        return "NA".into();
    }
    match l[1] {
        "g" => cmp_line(&make_g(l), &make_g(r)),
        "s" => cmp_line(&make_s(l), &make_s(r)),
        "b" | "o" => {
            let x = if l[1] == "b" { make_b(l) } else { make_o(l) };
            let y = if r[1] == "b" { make_b(r) } else { make_o(r) };
            cmp_line(&x, &y)
        },
        #[cfg(feature = "pt")]
        "t" => cmp_line(&make_t(l), &make_t(r)),
        _ => "SKIP".into(),
    }
}

// ------------------------------------------------------------------ Qualifiers op sequences
fn ov(o: Option<&str>) -> String {
    match o {
        Some(v) => format!("v:{}", h(v)),
        None => "n".into(),
    }
}
pub fn qops(spec: &str) -> (Vec<String>, Qualifiers) {
    let mut q = Qualifiers::default();
    let mut outs = vec![];
    if spec == "-" {
        return (outs, q);
    }
    for o in spec.split(',') {
        let f: Vec<&str> = o.split(':').collect();
        let r = catch_unwind(AssertUnwindSafe(|| -> String {
            match f[0] {
                "i" => match q.insert(uh(f[1]), uh(f[2])) {
                    Ok(v) => format!("u:{}", h(v)),
                    Err(_) => "e".into(),
                },
                "r" => ov(q.remove(uh(f[1])).as_deref()),
                "g" => ov(q.get(uh(f[1]))),
                "m" => match q.get_mut(uh(f[1])) {
                    Some(v) => {
                        let old = v.to_string();
                        *v = uh(f[2]).into();
                        format!("v:{}", h(&old))
                    },
                    None => "n".into(),
                },
                "c" => if q.contains_key(uh(f[1])) { "t" } else { "f" }.into(),
                "x" => format!("v:{}", h(&q[uh(f[1])])),
                "X" => {
                    q[uh(f[1])] = uh(f[2]).into();
                    "u".into()
                },
                "C" => {
                    q.clear();
                    "u".into()
                },
                // capacity management: not observable in the content (the model treats wc as clear, re/rv as no-ops)
                "wc" => {
                    q = Qualifiers::with_capacity(f[1].parse::<usize>().unwrap());
                    "u".into()
                },
                "re" => {
                    q.reserve_exact(f[1].parse::<usize>().unwrap());
                    if q.capacity() < q.len() + f[1].parse::<usize>().unwrap() { "INCONSISTENT".into() } else { "u".into() }
                },
                "rv" => {
                    q.reserve(f[1].parse::<usize>().unwrap());
                    if q.capacity() < q.len() + f[1].parse::<usize>().unwrap() { "INCONSISTENT".into() } else { "u".into() }
                },
                "t" => {
                    q.retain(|_, v| !v.is_empty());
                    "u".into()
                },
                "T" => {
                    let k = uh(f[1]);
                    q.retain(|qk, _| *qk != k);
                    "u".into()
                },
                "M" => {
                    let suf = uh(f[1]);
                    q.retain_mut(|_, v| {
                        v.push_str(&suf);
                        v.len() % 2 == 0
                    });
                    "u".into()
                },
                "I" => {
                    let suf = uh(f[1]);
                    for (_, v) in q.iter_mut() {
                        v.push_str(&suf);
                    }
                    "u".into()
                },
                "J" => {
                    let suf = uh(f[1]);
                    for (_, v) in (&mut q).into_iter().rev() {
                        v.push_str(&suf);
                    }
                    "u".into()
                },
                "eo" => match q.entry(uh(f[1])) {
                    Err(_) => "e".into(),
                    Ok(en) => format!("v:{}", h(en.or_insert(uh(f[2])))),
                },
                "ew" => match q.entry(uh(f[1])) {
                    Err(_) => "e".into(),
                    Ok(en) => {
                        let mut called = false;
                        let v = en
                            .or_insert_with(|| {
                                called = true;
                                uh(f[2])
                            })
                            .to_string();
                        format!("v:{}:{}", h(&v), if called { "c" } else { "nc" })
                    },
                },
                "em" => match q.entry(uh(f[1])) {
                    Err(_) => "e".into(),
                    Ok(en) => {
                        let suf = uh(f[2]);
                        let mut called = false;
                        let v = en
                            .and_modify(|v| {
                                called = true;
                                v.push_str(&suf)
                            })
                            .or_insert(uh(f[3]))
                            .to_string();
                        format!("v:{}:{}", h(&v), if called { "c" } else { "nc" })
                    },
                },
                "eC" => match q.entry(uh(f[1])) {
                    Err(_) => "e".into(),
                    Ok(en) => {
                        // the callback empties the value; the entry is then used again
                        let mut called = false;
                        let v = en
                            .and_modify(|v| {
                                called = true;
                                v.clear()
                            })
                            .or_insert(uh(f[2]))
                            .to_string();
                        format!("v:{}:{}", h(&v), if called { "c" } else { "nc" })
                    },
                },
                "ei" => match q.entry(uh(f[1])) {
                    Err(_) => "e".into(),
                    Ok(Entry::Occupied(mut o)) => {
                        let g = o.get().to_string();
                        let old = o.insert(uh(f[2]));
                        format!("o:{}:{}", h(&g), h(&old))
                    },
                    Ok(Entry::Vacant(v)) => format!("vac:{}", h(v.insert(uh(f[2])))),
                },
                "er" => match q.entry(uh(f[1])) {
                    Err(_) => "e".into(),
                    Ok(Entry::Occupied(o)) => format!("o:{}", h(&o.remove())),
                    Ok(Entry::Vacant(_)) => "vac".into(),
                },
                "eR" => match q.entry(uh(f[1])) {
                    Err(_) => "e".into(),
                    Ok(Entry::Occupied(o)) => {
                        let (k, v) = o.remove_entry();
                        format!("o:{}={}", h(&k), h(&v))
                    },
                    Ok(Entry::Vacant(_)) => "vac".into(),
                },
                "eG" => match q.entry(uh(f[1])) {
                    Err(_) => "e".into(),
                    Ok(Entry::Occupied(mut o)) => {
                        o.get_mut().push_str(&uh(f[2]));
                        format!("o:{}", h(o.into_mut()))
                    },
                    Ok(Entry::Vacant(_)) => "vac".into(),
                },
                "l" => {
                    let it = q.iter();
                    let hint = it.size_hint();
                    let il = it.len();
                    let ml = q.iter_mut().len();
                    let cap_ok = q.capacity() >= q.len();
                    let keys_ok = q.iter().all(|(k, _)| k.as_str() == &**k && k.as_str() == AsRef::<str>::as_ref(k) && Small::from(k).as_str() == k.as_str())
                        && iter_adaptors_ok(&mut q);
                    format!("l:{}:{}:{}:{}:{}:{}:{}", q.len(), if q.is_empty() { "t" } else { "f" }, il, hint.0, hint.1 == Some(q.len()) && cap_ok && keys_ok, ml, (&q).into_iter().count())
                },
                "tr" => {
                    let u = uh(f[1]);
                    q.insert_typed(RepositoryUrl::from(u.as_str()));
                    "u".into()
                },
                "tg" => ov(q.get_typed::<RepositoryUrl>().map(|r| {
                    let s: &str = r.into();
                    s
                })),
                "tc" => if q.contains_typed::<RepositoryUrl>() { "t" } else { "f" }.into(),
                "td" => {
                    q.remove_typed::<RepositoryUrl>();
                    "u".into()
                },
                "tk" | "tkg" | "tkd" => {
                    // the seven str_ref_qualifier! types, by index: insert_typed / get_typed + contains_typed / remove_typed
                    macro_rules! typed {
                        ($t:ty) => {{
                            match f[0] {
                                "tk" => {
                                    let v = uh(f[2]);
                                    q.insert_typed(<$t>::from(v.as_str()));
                                    "u".to_string()
                                },
                                "tkg" => {
                                    // the wrapper's three read views (AsRef, Deref, Into<&str>) must show the same text
                                    let g = q.get_typed::<$t>().map(|r| {
                                        let a = AsRef::<str>::as_ref(&r).to_string();
                                        let d = (&*r).to_string();
                                        let s: &str = r.into();
                                        if a != s || d != s {
                                            "\u{1}".to_string()
                                        } else {
                                            s.to_string()
                                        }
                                    });
                                    if g.as_deref() == Some("\u{1}") || g.is_some() != q.contains_typed::<$t>() {
                                        "INCONSISTENT".to_string()
                                    } else {
                                        ov(g.as_deref())
                                    }
                                },
                                _ => {
                                    q.remove_typed::<$t>();
                                    "u".to_string()
                                },
                            }
                        }};
                    }
                    match f[1] {
                        "0" => typed!(RepositoryUrl),
                        "1" => typed!(DownloadUrl),
                        "2" => typed!(VcsUrl),
                        "3" => typed!(FileName),
                        "4" => typed!(gem::Platform),
                        "5" => typed!(maven::Classifier),
                        "6" => typed!(maven::Type),
                        _ => panic!("bad typed index"),
                    }
                },
                "tu" | "tug" | "tud" => {
                    macro_rules! utyped {
                        ($t:ident) => {{
                            match f[0] {
                                "tu" => {
                                    q.insert_typed($t(uh(f[2])));
                                    "u".to_string()
                                },
                                "tug" => {
                                    let g = q.get_typed::<$t>().map(|r| r.0);
                                    if g.is_some() != q.contains_typed::<$t>() {
                                        "INCONSISTENT".to_string()
                                    } else {
                                        ov(g.as_deref())
                                    }
                                },
                                _ => {
                                    q.remove_typed::<$t>();
                                    "u".to_string()
                                },
                            }
                        }};
                    }
                    match f[1] {
                        "0" => utyped!(BuildTag),
                        "1" => utyped!(Odd),
                        _ => utyped!(BadKey),
                    }
                },
                "tC" => match q.try_insert_typed(run_csops(f[1])) {
                    Ok(()) => "u".into(),
                    Err(_) => "e".into(),
                },
                "tG" => match q.try_get_typed::<Checksum>() {
                    Err(_) => "e".into(),
                    Ok(None) => "n".into(),
                    Ok(Some(c)) => format!("k:{}", cs_entries(&c)),
                },
                "ke" => {
                    // QualifierKey comparisons against an arbitrary string, for every stored key
                    let s = uh(f[1]);
                    q.iter()
                        .map(|(k, _)| {
                            format!(
                                "{}{}",
                                if *k == s { "E" } else { "N" },
                                match k.partial_cmp(&s) {
                                    Some(o) => ord_s(o),
                                    None => "none",
                                }
                            )
                        })
                        .collect::<Vec<_>>()
                        .join("/")
                        + "."
                },
                _ => panic!("bad qop {o}"),
            }
        }));
        outs.push(r.unwrap_or_else(|_| "PANIC".into()));
    }
    (outs, q)
}
/// every way of walking the collection gives the positions of the plain forward walk: nth / nth_back / skip / step_by / last / rev on iter(),
/// `&q`, iter_mut() and `&mut q`, and the remaining length reported while walking from both ends
fn iter_adaptors_ok(q: &mut Qualifiers) -> bool {
    let fwd: Vec<(String, String)> = q.iter().map(|(k, v)| (k.as_str().to_string(), v.to_string())).collect();
    let n = fwd.len();
    let pick = |x: Option<(&purl::qualifiers::QualifierKey, &str)>| x.map(|(k, v)| (k.as_str().to_string(), v.to_string()));
    let mut ok = true;
    for i in 0..n + 1 {
        ok &= pick(q.iter().nth(i)) == fwd.get(i).cloned();
        ok &= pick(q.iter().nth_back(i)) == (if i < n { fwd.get(n - 1 - i).cloned() } else { None });
        ok &= pick(q.iter().rev().nth(i)) == (if i < n { fwd.get(n - 1 - i).cloned() } else { None });
        ok &= q.iter().skip(i).map(|x| pick(Some(x)).unwrap()).collect::<Vec<_>>() == fwd[i.min(n)..].to_vec();
        ok &= q.iter().rev().skip(i).map(|x| pick(Some(x)).unwrap()).collect::<Vec<_>>() == fwd[..n - i.min(n)].iter().rev().cloned().collect::<Vec<_>>();
        ok &= (&*q).into_iter().nth_back(i).map(|(k, v)| (k.as_str().to_string(), v.to_string())) == (if i < n { fwd.get(n - 1 - i).cloned() } else { None });
        let m: Option<(String, String)> = q.iter_mut().nth_back(i).map(|(k, v)| (k.as_str().to_string(), v.to_string()));
        ok &= m == (if i < n { fwd.get(n - 1 - i).cloned() } else { None });
        let m: Option<(String, String)> = q.iter_mut().nth(i).map(|(k, v)| (k.as_str().to_string(), v.to_string()));
        ok &= m == fwd.get(i).cloned();
        let m: Option<(String, String)> = (&mut *q).into_iter().rev().nth(i).map(|(k, v)| (k.as_str().to_string(), v.to_string()));
        ok &= m == (if i < n { fwd.get(n - 1 - i).cloned() } else { None });
    }
    for step in 1..4 {
        ok &= q.iter().step_by(step).map(|x| pick(Some(x)).unwrap()).collect::<Vec<_>>() == fwd.iter().step_by(step).cloned().collect::<Vec<_>>();
        ok &= q.iter().rev().step_by(step).map(|x| pick(Some(x)).unwrap()).collect::<Vec<_>>() == fwd.iter().rev().step_by(step).cloned().collect::<Vec<_>>();
    }
    ok &= pick(q.iter().last()) == fwd.last().cloned() && q.iter().count() == n && q.iter().rev().count() == n;
    // alternate ends: lengths shrink by one per step and the two walks meet without overlap
    let mut it = q.iter();
    let (mut lo, mut hi) = (0usize, n);
    let mut turn = false;
    while lo < hi {
        ok &= it.len() == hi - lo;
        let got = if turn { hi -= 1; pick(it.next_back()) } else { lo += 1; pick(it.next()) };
        let want = if turn { fwd.get(hi).cloned() } else { fwd.get(lo - 1).cloned() };
        ok &= got == want;
        turn = !turn;
    }
    ok &= it.next().is_none() && it.next_back().is_none() && it.len() == 0;
    ok
}
fn q_case(spec: &str) -> String {
    let (outs, q) = qops(spec);
    format!("{}|{}|{}|{}", if outs.is_empty() { "-".into() } else { outs.join(",") }, qs(&q), qs_rev(&q), q.len())
}
pub fn pairs(s: &str) -> Vec<(String, String)> {
    if s == "-" {
        return vec![];
    }
    s.split(',')
        .map(|kv| {
            let (k, v) = kv.split_once('=').unwrap();
            (uh(k), uh(v))
        })
        .collect()
}
fn f_case(spec: &str) -> String {
    match Qualifiers::try_from_iter(pairs(spec)) {
        Ok(q) => format!("{}|{}", qs(&q), q.len()),
        Err(e) => format!("E {}", perr(&e)),
    }
}

// ------------------------------------------------------------------ dispatcher
pub fn run(line: &str) -> String {
    let a: Vec<&str> = line.split(' ').collect();
    match a[0] {
        "P" | "S" | "X" | "B" => purl_case(&a),
        "K" => cmp_case(&a),
        "Q" => q_case(a[1]),
        "F" => f_case(a[1]),
        "C" => cs_show(&run_csops(a[1])),
        "c" => {
            let t = uh(a[1]);
            match Checksum::try_from(t.as_str()) {
                Err(_) => "E".into(),
                Ok(c) => {
                    // typed decode of every entry (hex crate) in sorted order
                    let mut ks: Vec<String> = c.algorithms().map(|s| s.to_string()).collect();
                    ks.sort();
                    let dec = ks
                        .iter()
                        .map(|k| match c.get::<Vec<u8>>(k) {
                            Ok(Some(b)) => hb(&b),
                            Ok(None) => "none".into(),
                            Err(_) => "x".into(),
                        })
                        .collect::<Vec<_>>()
                        .join(";");
                    format!("{}|{}", cs_show(&c), if dec.is_empty() { "-".into() } else { dec })
                },
            }
        },
        #[cfg(feature = "pt")]
        "T" => match PackageType::from_str(&uh(a[1])) {
            Ok(t) => h(t.name()),
            Err(_) => "none".into(),
        },
        #[cfg(feature = "pt")]
        "N" => {
            let t = PTS[a[1].parse::<usize>().unwrap()];
            let b = Purl::builder_with_combined_name(t, uh(a[2]));
            let ns = b.parts.namespace.to_string();
            let nm = b.parts.name.to_string();
            match b.build() {
                Ok(p) => {
                    let cn = p.combined_name().to_string();
                    let b2 = Purl::builder_with_combined_name(t, &cn);
                    format!(
                        "{}|{}|{}|{}|{}|{}|{}",
                        h(&ns),
                        h(&nm),
                        h(p.namespace().unwrap_or("")),
                        h(p.name()),
                        h(&cn),
                        h(&b2.parts.namespace),
                        h(&b2.parts.name)
                    )
                },
                Err(e) => format!("{}|{}|E {}", h(&ns), h(&nm), pkerr(&e)),
            }
        },
        #[cfg(feature = "pt")]
        "M" => match Purl::from_str(&uh(a[1])) {
            Err(e) => format!("E {}", pkerr(&e)),
            Ok(p) => {
                let cn = p.combined_name().to_string();
                let b2 = Purl::builder_with_combined_name(*p.package_type(), &cn);
                format!("{}|{}|{}|{}|{}|{}", h(p.package_type().name()), h(p.namespace().unwrap_or("")), h(p.name()), h(&cn), h(&b2.parts.namespace), h(&b2.parts.name))
            },
        },
        "H" => shapes::run(&a),
        #[cfg(feature = "serde")]
        "J" => oracle::serde_case(&a),
        _ => "SKIP".into(),
    }
}

thread_local! { pub static SCRATCH: RefCell<Vec<String>> = RefCell::new(vec![]); }

// Non-termination watchdog (C06 "fails to terminate"): the index of the case being worked on and a busy flag; a watchdog thread ends the
// process with exit code 3 and "HANGIDX <index>" on stderr when one case has been running longer than VERIF_HANG_MS (default 10 s).
// vcheck then records HANG for that case and resumes behind it.
static DONE: std::sync::atomic::AtomicU64 = std::sync::atomic::AtomicU64::new(0);
static BUSY: std::sync::atomic::AtomicBool = std::sync::atomic::AtomicBool::new(false);
fn spawn_watchdog() {
    use std::sync::atomic::Ordering::SeqCst;
    let limit = std::time::Duration::from_millis(std::env::var("VERIF_HANG_MS").ok().and_then(|v| v.parse().ok()).unwrap_or(10_000));
    std::thread::spawn(move || {
        let mut last = u64::MAX;
        let mut since = std::time::Instant::now();
        loop {
            std::thread::sleep(std::time::Duration::from_millis(200));
            let e = DONE.load(SeqCst);
            if !BUSY.load(SeqCst) || e != last {
                last = e;
                since = std::time::Instant::now();
                continue;
            }
            if since.elapsed() > limit {
                eprintln!("HANGIDX {}", e);
                std::process::exit(3);
            }
        }
    });
}
fn guarded<F: FnOnce() -> String>(f: F) -> Option<String> {
    use std::sync::atomic::Ordering::SeqCst;
    BUSY.store(true, SeqCst);
    let r = catch_unwind(AssertUnwindSafe(f)).ok();
    BUSY.store(false, SeqCst);
    DONE.fetch_add(1, SeqCst);
    r
}

fn main() {
    std::panic::set_hook(Box::new(|_| {}));
    spawn_watchdog();
    let args: Vec<String> = std::env::args().collect();
    let mode = args.get(1).map(|s| s.as_str()).unwrap_or("run");
    let stdin = std::io::stdin();
    let out = std::io::stdout();
    let mut out = std::io::BufWriter::with_capacity(1 << 20, out.lock());
    // VERIF_FLUSH=1: flush after every case, so that after an abort (stack overflow, abort()) the number of lines written names the case
    let flush = std::env::var("VERIF_FLUSH").is_ok();
    match mode {
        "run" => {
            for line in stdin.lock().lines() {
                let line = line.unwrap();
                let r = guarded(|| run(&line));
                writeln!(out, "{}", r.unwrap_or_else(|| "PANIC".into())).unwrap();
                if flush {
                    out.flush().unwrap();
                }
            }
        },
        "oracle" => {
            for line in stdin.lock().lines() {
                let line = line.unwrap();
                let r = guarded(|| oracle::check(&line));
                writeln!(out, "{}", r.unwrap_or_else(|| "FAIL C06 panic in oracle path".into())).unwrap();
                if flush {
                    out.flush().unwrap();
                }
            }
        },
        "probe" => {
            // exhaustive probe of the constants the translator reads from the source (finite domains)
            let b = |ns: &str, name: &str, ver: &str, k: &str, v: &str, sub: &str| -> String {
                let mut bb = GenericPurlBuilder::new("t".to_string(), name).with_namespace(ns).with_version(ver).with_subpath(sub);
                if !k.is_empty() {
                    bb = bb.with_qualifier(k, v).unwrap();
                }
                bb.build().unwrap().to_string()
            };
            let mut sets: Vec<Vec<u8>> = vec![vec![]; 5];
            for c in 0u8..128 {
                let ch = (c as char).to_string();
                let x = format!("x{}x", ch);
                let outs = [
                    b(&x, "n", "", "", "", ""),
                    b("", &x, "", "", "", ""),
                    b("", "n", &x, "", "", ""),
                    b("", "n", "", "k", &x, ""),
                    b("", "n", "", "", "", &x),
                ];
                for (i, o) in outs.iter().enumerate() {
                    if o.contains(&format!("x%{:02X}x", c)) {
                        sets[i].push(c);
                    } else if !o.contains(&x) {
                        panic!("probe: byte {} in position {} printed as {}", c, i, o);
                    }
                }
            }
            for (n, st) in ["ns", "name", "ver", "qval", "sub"].iter().zip(sets.iter()) {
                writeln!(out, "set {} {}", n, st.iter().map(|c| c.to_string()).collect::<Vec<_>>().join(",")).unwrap();
            }
            let mut tchars = vec![];
            let mut kchars = vec![];
            for c in 0u8..128 {
                let ch = (c as char).to_string();
                if GenericPurl::<String>::new(format!("a{}", ch), "n").is_ok() {
                    tchars.push(c);
                }
                if Qualifiers::default().insert(format!("a{}", ch), "v").is_ok() {
                    kchars.push(c);
                }
            }
            let f = |v: &Vec<u8>| v.iter().map(|c| c.to_string()).collect::<Vec<_>>().join(",");
            writeln!(out, "typechars {}", f(&tchars)).unwrap();
            writeln!(out, "keychars {}", f(&kchars)).unwrap();
            #[cfg(feature = "pt")]
            for t in PTS {
                writeln!(out, "ptype {:?} {}", t, t.name()).unwrap();
            }
        },
        "errtexts" => {
            // Display text of every error variant (compared across feature sets by C17)
            let fields = [PurlField::PackageType, PurlField::Namespace, PurlField::Name, PurlField::Version, PurlField::Subpath];
            let mut pes = vec![ParseError::UnsupportedUrlScheme, ParseError::InvalidPackageType, ParseError::InvalidQualifier, ParseError::InvalidEscape];
            for f in fields {
                pes.push(ParseError::MissingRequiredField(f));
                writeln!(out, "field {} = {} / {} / {}", fld(f), f, f.name(), <&'static str>::from(f)).unwrap();
            }
            for e in &pes {
                writeln!(out, "parse {} = {}", perr(e), e).unwrap();
            }
            // Display of a PURL under formatter flags (the flags are ignored: the same text in every feature set)
            for s in ["pkg:npm/a@1", "pkg:maven/org.example/lib@2.0?type=jar#src/main", "pkg:cargo/purl@0.1.5"] {
                if let Ok(p) = GenericPurl::<String>::from_str(s) {
                    writeln!(out, "flags {} = [{:>16}] [{:.9}] [{:30}] [{:#}]", s, p, p, p, p).unwrap();
                }
            }
            #[cfg(feature = "pt")]
            {
                let mut ks = vec![PackageError::UnsupportedType, PackageError::Parse(ParseError::InvalidEscape)];
                for f in fields {
                    ks.push(PackageError::MissingRequiredField(f));
                }
                for e in &ks {
                    writeln!(out, "package {} = {}", pkerr(e), e).unwrap();
                }
            }
        },
        "features" => {
            let mut f = vec![];
            if cfg!(feature = "pt") {
                f.push("pt")
            }
            if cfg!(feature = "ss") {
                f.push("ss")
            }
            if cfg!(feature = "serde") {
                f.push("serde")
            }
            writeln!(out, "{}", f.join(",")).unwrap();
        },
        _ => panic!("usage: vharness run|oracle|probe|features"),
    }
}
