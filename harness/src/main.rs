use std::borrow::Cow;
use std::io::{BufRead, Write};
use std::str::FromStr;
use purl::qualifiers::well_known::Checksum;
use purl::qualifiers::Entry;
use purl::*;
fn fld(f:PurlField)->&'static str{ match f {PurlField::PackageType=>"type",PurlField::Namespace=>"namespace",PurlField::Name=>"name",PurlField::Version=>"version",PurlField::Subpath=>"subpath"} }
fn perr(e:&ParseError)->String{ match e { ParseError::UnsupportedUrlScheme=>"Scheme".into(), ParseError::MissingRequiredField(f)=>format!("Missing({})",fld(*f)), ParseError::InvalidPackageType=>"InvalidType".into(), ParseError::InvalidQualifier=>"InvalidQualifier".into(), ParseError::InvalidEscape=>"InvalidEscape".into() } }
fn pkerr(e:&PackageError)->String{ match e { PackageError::MissingRequiredField(f)=>format!("PMissing({})",fld(*f)), PackageError::Parse(e)=>format!("Parse:{}",perr(e)), PackageError::UnsupportedType=>"UnsupportedType".into() } }
fn h(s:&str)->String{ hex::encode(s.as_bytes()) }
fn uh(s:&str)->String{ String::from_utf8(hex::decode(s).unwrap()).unwrap() }
fn qs(q:&Qualifiers)->String{ q.iter().map(|(k,v)| format!("{}={}",h(k.as_str()),h(v))).collect::<Vec<_>>().join(";") }
fn show<T:PurlShape>(p:&GenericPurl<T>)->String{
  format!("O {}|{}|{}|{}|{}|{}|{}", h(&p.package_type().package_type()), h(p.namespace().unwrap_or("")), h(p.name()), h(p.version().unwrap_or("")), qs(p.qualifiers()), h(p.subpath().unwrap_or("")), h(&p.to_string())) }
fn pairs(s:&str)->Vec<(String,String)>{ if s.is_empty(){vec![]} else { s.split(',').map(|kv|{ let (k,v)=kv.split_once('=').unwrap(); (uh(k),uh(v)) }).collect() } }
const PTS:[PackageType;7]=[PackageType::Cargo,PackageType::Gem,PackageType::Golang,PackageType::Maven,PackageType::Npm,PackageType::NuGet,PackageType::PyPI];
fn bgen<T:PurlShape<Error=ParseError>>(t:T,a:&[&str])->String{
  let mut b=GenericPurlBuilder::new(t,uh(a[2])).with_namespace(uh(a[3])).with_version(uh(a[4])).with_subpath(uh(a[5]));
  for (k,v) in pairs(a.get(6).copied().unwrap_or("")) { match b.with_qualifier(k,v){ Ok(x)=>b=x, Err(_)=>return "QE".into() } }
  match b.build(){ Ok(p)=>show(&p), Err(e)=>format!("E {}",perr(&e)) } }
fn cs_show(c:&Checksum)->String{ let mut v:Vec<(String,String)>=c.iter().map(|(k,v)|(k.to_string(),v.raw().to_string())).collect(); v.sort();
  let ents=v.iter().map(|(k,v)|format!("{}={}",h(k),h(v))).collect::<Vec<_>>().join(";");
  let c2=c.clone(); let r=std::panic::catch_unwind(move|| SmallString::try_from(c2));
  format!("{}|{}", ents, match r { Err(_)=>"P".into(), Ok(Err(_))=>"E".into(), Ok(Ok(t))=>format!("T:{}",h(&t)) }) }
fn run(line:&str)->String{
  let a:Vec<&str>=line.split(' ').collect();
  match a[0] {
    "pg"=> match GenericPurl::<String>::from_str(&uh(a[1])){Ok(p)=>show(&p),Err(e)=>format!("E {}",perr(&e))},
    "pt"=> match Purl::from_str(&uh(a[1])){Ok(p)=>show(&p),Err(e)=>format!("E {}",pkerr(&e))},
    "bg"=> bgen::<String>(uh(a[1]),&a),
    "bb"=> { let t=uh(a[1]); bgen::<Cow<str>>(Cow::Borrowed(&t),&a) },
    "bt"=> { let mut b=Purl::builder(PTS[a[1].parse::<usize>().unwrap()],uh(a[2])).with_namespace(uh(a[3])).with_version(uh(a[4])).with_subpath(uh(a[5]));
             for (k,v) in pairs(a.get(6).copied().unwrap_or("")) { match b.with_qualifier(k,v){ Ok(x)=>b=x, Err(_)=>return "QE".into() } }
             match b.build(){ Ok(p)=>show(&p), Err(e)=>format!("E {}",pkerr(&e)) } },
    "qo"=> { let mut q=Qualifiers::default(); let mut outs=vec![];
             for o in a.get(1).copied().unwrap_or("").split(';').filter(|s|!s.is_empty()) { let f:Vec<&str>=o.split(':').collect();
               outs.push(match f[0] {
                 "i"=> match q.insert(uh(f[1]),uh(f[2])){Ok(_)=>"u".to_string(),Err(_)=>"e".into()},
                 "r"=> match q.remove(uh(f[1])){Some(v)=>format!("v:{}",h(&v)),None=>"n".into()},
                 "g"=> match q.get(uh(f[1])){Some(v)=>format!("v:{}",h(v)),None=>"n".into()},
                 "c"=> {q.clear(); "u".into()},
                 "t"=> {q.retain(|_,v| !v.is_empty()); "u".into()},
                 "e"=> match q.entry(uh(f[1])){ Err(_)=>"e".into(), Ok(en)=>{ let v=en.or_insert(uh(f[2])); format!("v:{}",h(v)) } },
                 _=>"?".into() }); }
             format!("{}|{}", outs.join(";"), qs(&q)) },
    "cs"=> { let mut c=Checksum::default();
             for o in a.get(1).copied().unwrap_or("").split(';').filter(|s|!s.is_empty()) { let f:Vec<&str>=o.split(':').collect();
               match f[0] { "i"=>c.insert(&uh(f[1]), hex::decode(f[2]).unwrap()), "w"=>c.insert_raw(&uh(f[1]), uh(f[2])), "r"=>c.remove(&uh(f[1])), _=>{} } }
             cs_show(&c) },
    "ct"=> { let t=uh(a.get(1).copied().unwrap_or("")); match Checksum::try_from(t.as_str()){ Err(_)=>"E".into(), Ok(c)=>cs_show(&c) } },
    "pn"=> match PackageType::from_str(&uh(a.get(1).copied().unwrap_or(""))){ Ok(t)=>h(t.name()), Err(_)=>"none".into() },
    "cn"=> { let t=PTS[a[1].parse::<usize>().unwrap()]; let b=Purl::builder_with_combined_name(t,uh(a.get(2).copied().unwrap_or("")));
             let ns=b.parts.namespace.to_string(); let nm=b.parts.name.to_string();
             format!("{}|{}|{}", h(&ns), h(&nm), match b.build(){ Ok(p)=>h(&p.combined_name()), Err(_)=>"berr".into() }) },
    _=>"?".into() } }

struct Rng(u64);
impl Rng { fn next(&mut self)->u64{ self.0=self.0.wrapping_add(0x9E3779B97F4A7C15); let mut z=self.0; z=(z^(z>>30)).wrapping_mul(0xBF58476D1CE4E5B9); z=(z^(z>>27)).wrapping_mul(0x94D049BB133111EB); z^(z>>31)} fn below(&mut self,k:usize)->usize{(self.next()%(k as u64)) as usize} }
const TOK:&[&str]=&["pkg:","/","@","?","#","&","=","a","B","%41","%2F","%2f","%80","\u{e9}",".","..","%2e","checksum",":",",","0a","%","+","%26"];
fn gen_tok(k:usize, out:&mut dyn Write){ // every string of <= k tokens, each as pg and pt
  fn rec(cur:&mut String, left:usize, out:&mut dyn Write){ let hx=hex::encode(cur.as_bytes()); writeln!(out,"pg {}",hx).unwrap(); writeln!(out,"pt {}",hx).unwrap();
    if left==0 {return;} for t in TOK { let l=cur.len(); cur.push_str(t); rec(cur,left-1,out); cur.truncate(l);} }
  let mut s=String::new(); rec(&mut s,k,out); }
fn gen_spell(n:usize, seed:u64, out:&mut dyn Write){ let mut r=Rng(seed);
  let comps=["a","B","n","x.y","1.0","\u{e9}","\u{1c5}","a b","a@b","a?b","a#b","a&b","a=b","a%b","a+b","\u{0}","-_.","A_b","\u{130}","\u{212a}"];
  let types=["t","T","npm","NPM","pypi","PyPi","nuget","maven","golang","cargo","gem","a+b.c-9","swift"];
  fn spell(r:&mut Rng,s:&str,raw_ok:&dyn Fn(u8)->bool)->String{ let mut o=String::new(); for &b in s.as_bytes(){ let c=r.below(4); if b<128 && raw_ok(b) && c<2 {o.push(b as char);} else if b>=128 && c==0 { /* raw utf8 handled per char below */ o.push_str(&format!("%{:02X}",b)); } else if c==2 {o.push_str(&format!("%{:02x}",b));} else {o.push_str(&format!("%{:02X}",b));} } o }
  for i in 0..n { let ty=types[r.below(types.len())]; let mut s=String::from("pkg:"); for _ in 0..r.below(3){s.push('/');} s.push_str(ty); s.push('/');
    let has_ver=r.below(2)==0; let has_q=r.below(2)==0; let has_sub=r.below(2)==0;
    let okp=move |b:u8| !(b==b'/'||b==b'%'||(b==b'@'&&!has_ver)||(b==b'?'&&!has_q)||(b==b'#'&&!has_sub));
    for _ in 0..r.below(3){ let c=comps[r.below(comps.len())]; s.push_str(&spell(&mut r,c,&okp)); s.push('/'); for _ in 0..r.below(2){s.push('/');} }
    let c=comps[r.below(comps.len())]; s.push_str(&spell(&mut r,c,&okp));
    if has_ver { s.push('@'); let c=comps[r.below(comps.len())]; let okv=move |b:u8| !(b==b'@'||b==b'%'||(b==b'?'&&!has_q)||(b==b'#'&&!has_sub)); s.push_str(&spell(&mut r,c,&okv)); }
    if has_q { s.push('?'); let nq=1+r.below(3); for j in 0..nq { if j>0 {s.push('&');} let k=["k","K","l","a.b","checksum","Z-9_"][r.below(6)]; s.push_str(k); s.push('=');
        if k=="checksum" { s.push_str(["a:00","B:0A,a:ff","sha1:00ff","x:"][r.below(4)]); } else if r.below(5)!=0 { let c=comps[r.below(comps.len())]; let okq=move |b:u8| !(b==b'&'||b==b'%'||b==b'?'||(b==b'#'&&!has_sub)); s.push_str(&spell(&mut r,c,&okq)); } } }
    if has_sub { s.push('#'); for j in 0..1+r.below(3) { if j>0 {s.push('/');} let c=[".","..","","a","x y","\u{e9}","a?b","a@b"][r.below(8)]; if c=="."||c==".."||c=="" {s.push_str(c);} else { let oks=|b:u8| !(b==b'/'||b==b'%'||b==b'#'); s.push_str(&spell(&mut r,c,&oks)); } } }
    let hx=hex::encode(s.as_bytes()); writeln!(out,"{} {}", if i%2==0 {"pg"} else {"pt"}, hx).unwrap(); } }
fn gen_names(out:&mut dyn Write, all:bool){ // one-character names for nuget / pypi / cargo through the typed builder
  for u in 0..=0x10FFFFu32 { if let Some(c)=char::from_u32(u) { let interesting = all || u<0x250 || c.to_lowercase().ne([c]) || c.is_uppercase();
     if interesting { let h=hex::encode(c.to_string().as_bytes()); for t in [5,6,0] { writeln!(out,"bt {} {} {} {} {} ", t, h, "", "", "").unwrap(); } } } } }
// ---- oracles: the property evaluated on the implementation alone ----
fn oracle(prop:&str, line:&str)->String{ let a:Vec<&str>=line.split(' ').collect();
  fn rt<T>(s:&str)->String where T:FromStr+PurlShape+Clone+PartialEq, <T as PurlShape>::Error: From<<T as FromStr>::Err> {
    match GenericPurl::<T>::from_str(s){ Err(_)=>"ok rejected".into(), Ok(p)=>{ let c=p.to_string(); match GenericPurl::<T>::from_str(&c){ Err(_)=>format!("FAIL canonical string {:?} of {:?} is rejected",c,s),
        Ok(q)=> if q!=p {format!("FAIL {:?} re-parses to a different PURL",c)} else if q.to_string()!=c {format!("FAIL {:?} formats differently the second time",c)} else {"ok".into()} } } } }
  match (prop,a[0]) {
    ("C01","pg")=>rt::<String>(&uh(a[1])), ("C01","pt")=>rt::<PackageType>(&uh(a[1])),
    ("C07",c) if c=="pg"||c=="pt" => { let s=uh(a[1]); let (ns,sub)= if c=="pg" { match GenericPurl::<String>::from_str(&s){Ok(p)=>(p.namespace().map(String::from),p.subpath().map(String::from)),Err(_)=>return "ok rejected".into()} } else { match Purl::from_str(&s){Ok(p)=>(p.namespace().map(String::from),p.subpath().map(String::from)),Err(_)=>return "ok rejected".into()} };
        if let Some(n)=ns { if n.split('/').any(|x| x.is_empty()) {return format!("FAIL namespace {:?} has an empty segment",n);} }
        if let Some(n)=sub { if n.split('/').any(|x| x.is_empty()||x=="."||x=="..") {return format!("FAIL subpath {:?} has an empty or dot segment",n);} } "ok".into() },
    ("C08","bt") => { let t=a[1].parse::<usize>().unwrap(); let name=uh(a[2]); let lower:String=name.chars().flat_map(|c|c.to_lowercase()).collect();
        let expect = match t { 5=>lower, 6=>{ let mut o=String::new(); let mut ind=false; for c in name.chars(){ if "-_.".contains(c){ if !ind {o.push('-'); ind=true;} } else {ind=false; o.extend(c.to_lowercase());} } o }, _=>name.clone() };
        match Purl::builder(PTS[t], name.clone()).with_namespace("ns").build(){ Ok(p)=> if p.name()==expect {"ok".into()} else {format!("FAIL {} name {:?} came out as {:?}, expected {:?}",PTS[t].name(),name,p.name(),expect)}, Err(_)=> if expect.is_empty() {"ok".into()} else {"FAIL build refused".into()} } },
    _=>"ok n/a".into() } }
fn main(){ let _=Entry::<&str>::or_insert::<&str>; std::panic::set_hook(Box::new(|_|{}));
  let args:Vec<String>=std::env::args().collect(); let out=std::io::stdout(); let mut out=std::io::BufWriter::new(out.lock());
  match args.get(1).map(|s|s.as_str()) {
    Some("gen") => match args[2].as_str() { "tok"=>gen_tok(args[3].parse().unwrap(),&mut out), "spell"=>gen_spell(args[3].parse().unwrap(),args[4].parse().unwrap(),&mut out), "names"=>gen_names(&mut out,args.get(3).map(|s|s=="all").unwrap_or(false)), _=>panic!("gen?") },
    Some("oracle") => { let prop=args[2].clone(); let stdin=std::io::stdin(); for line in stdin.lock().lines(){ let line=line.unwrap(); let (p2,l2)=(prop.clone(),line.clone());
        let r=std::panic::catch_unwind(move|| oracle(&p2,&l2)); writeln!(out,"{}", r.unwrap_or_else(|_| "FAIL panic".into())).unwrap(); } },
    _ => { let stdin=std::io::stdin(); for line in stdin.lock().lines(){ let line=line.unwrap(); let l2=line.clone();
        let r=std::panic::catch_unwind(move|| run(&l2)); writeln!(out,"{}", r.unwrap_or_else(|_| "PANIC".into())).unwrap(); } } } }
