//! A parameterised family of user-written `PurlShape + FromStr` implementations (property C14).
//! Member = (conv, tyrep, hook):
//!   conv  : A always succeeds | F always fails | C succeeds iff the string is "custom" ignoring ASCII case
//!   tyrep : L package_type() = ASCII-lower-cased stored string | R = the stored string | X = "in valid" (Display panics)
//!   hook  : letters applied in order by finish():
//!           k nothing | f fail | n clear the name | s namespace := "Hook//Ns/" | v version := "" | V version := "9%"
//!           u subpath := "a/../b" | e insert ("zz","") | q insert ("Hk","Val") | m insert ("checksum","sha1:zz")
//!           c insert ("checksum","B:00,a:FF") | N name := name + "X" | t stored type := stored type + "2"
//!           b insert ("checksum","") (blank the checksum) | x remove every qualifier
use std::borrow::Cow;
use std::cell::RefCell;
use std::str::FromStr;

use purl::*;

use crate::{h, perr, show, uh};

thread_local! {
    static PARAMS: RefCell<(char, char, String)> = RefCell::new(('A', 'L', String::new()));
    static LOG: RefCell<Vec<String>> = RefCell::new(vec![]);
}

#[derive(Clone, Debug, PartialEq, Eq, Hash, PartialOrd, Ord)]
pub struct Fam {
    ty: String,
}
#[derive(Debug)]
pub enum FamError {
    Parse(ParseError),
    Conv,
    Hook,
}
impl From<ParseError> for FamError {
    fn from(e: ParseError) -> Self {
        FamError::Parse(e)
    }
}
impl FromStr for Fam {
    type Err = FamError;

    fn from_str(s: &str) -> Result<Self, FamError> {
        LOG.with(|l| l.borrow_mut().push(format!("F:{}", h(s))));
        let conv = PARAMS.with(|p| p.borrow().0);
        match conv {
            'A' => Ok(Fam { ty: s.to_string() }),
            'C' if s.eq_ignore_ascii_case("custom") => Ok(Fam { ty: s.to_string() }),
            _ => Err(FamError::Conv),
        }
    }
}
impl PurlShape for Fam {
    type Error = FamError;

    fn package_type(&self) -> Cow<str> {
        match PARAMS.with(|p| p.borrow().1) {
            'L' => Cow::Owned(self.ty.to_ascii_lowercase()),
            'R' => Cow::Borrowed(&self.ty),
            _ => Cow::Borrowed("in valid"),
        }
    }

    fn finish(&mut self, parts: &mut PurlParts) -> Result<(), FamError> {
        LOG.with(|l| l.borrow_mut().push(format!("H:{}:{}", h(&self.ty), h(&parts.name))));
        let hook = PARAMS.with(|p| p.borrow().2.clone());
        for c in hook.chars() {
            match c {
                'k' => {},
                'f' => return Err(FamError::Hook),
                'n' => parts.name = Default::default(),
                's' => parts.namespace = "Hook//Ns/".into(),
                'S' => parts.namespace = "//".into(),
                'o' => {
                    parts.qualifiers.insert("checksum", "sha1:abc").unwrap();
                },
                'U' => parts.subpath = "./c//..".into(),
                'v' => parts.version = "".into(),
                'V' => parts.version = "9%".into(),
                'u' => parts.subpath = "a/../b".into(),
                'e' => {
                    parts.qualifiers.insert("zz", "").unwrap();
                },
                'q' => {
                    parts.qualifiers.insert("Hk", "Val").unwrap();
                },
                'm' => {
                    parts.qualifiers.insert("checksum", "sha1:zz").unwrap();
                },
                'c' => {
                    parts.qualifiers.insert("checksum", "B:00,a:FF").unwrap();
                },
                'b' => {
                    parts.qualifiers.insert("checksum", "").unwrap();
                },
                'x' => parts.qualifiers.clear(),
                'N' => parts.name.push('X'),
                't' => self.ty.push('2'),
                _ => panic!("bad hook letter"),
            }
        }
        Ok(())
    }
}
fn ferr(e: &FamError) -> String {
    match e {
        FamError::Parse(e) => format!("Parse:{}", perr(e)),
        FamError::Conv => "Conv".into(),
        FamError::Hook => "Hook".into(),
    }
}

/// `H <fam> P <s>` / `H <fam> B <ty> <name0> <ops>` -> `log ## main`
pub fn run(a: &[&str]) -> String {
    let f: Vec<char> = a[1].chars().collect();
    PARAMS.with(|p| *p.borrow_mut() = (f[0], f[1], f[2..].iter().collect()));
    LOG.with(|l| l.borrow_mut().clear());
    let res = match a[2] {
        "P" => GenericPurl::<Fam>::from_str(&uh(a[3])),
        "B" => {
            let mut b = GenericPurlBuilder::new(Fam { ty: uh(a[3]) }, uh(a[4]));
            if a[5] != "-" {
                for o in a[5].split(',') {
                    let f: Vec<&str> = o.split(':').collect();
                    b = match f[0] {
                        "N" => b.with_name(uh(f[1])),
                        "S" => b.with_namespace(uh(f[1])),
                        "V" => b.with_version(uh(f[1])),
                        "U" => b.with_subpath(uh(f[1])),
                        "Q" => match b.with_qualifier(uh(f[1]), uh(f[2])) {
                            Ok(b) => b,
                            Err(_) => return "- ## QE".into(),
                        },
                        _ => panic!("bad family builder op"),
                    };
                }
            }
            b.build()
        },
        _ => panic!("bad family case"),
    };
    let log = LOG.with(|l| l.borrow().join(","));
    let log = if log.is_empty() { "-".to_string() } else { log };
    match res {
        Ok(p) => format!("{} ## {}", log, show(&p)),
        Err(e) => format!("{} ## E {}", log, ferr(&e)),
    }
}
