(* C13 All built-in type parameters behave identically *)
Load "coq/props/Hdr".
From PM Require Import Small Exec.
Lemma src_cfg_ok : cfg_ok cfg. Proof. sc. Qed.
(* String, Cow::Owned and SmartString run the same hook; the Cow::Borrowed hook is the same function *)
Theorem C13_same_hook : forall t p, cow_borrowed_finish cfg t p = str_finish cfg t p.
Proof. apply C13_finish. Qed.
Print Assumptions C13_same_hook.
Theorem C13_same_build : forall t p, build cfg (cow_shape cfg) t p = build cfg G t p.
Proof. intros t p. unfold build. cbn [sh_finish sh_inj cow_shape string_shape]. rewrite C13_finish. reflexivity. Qed.
Print Assumptions C13_same_build.
Theorem C13_same_parse : forall s, parse cfg (cow_shape cfg) s = parse cfg G s.
Proof.
  intros s. unfold parse, lift. cbn [sh_inj sh_from_str cow_shape string_shape].
  repeat match goal with
  | |- (match ?x with _ => _ end) = _ => destruct x; cbn [bind]; try reflexivity
  | |- (if ?x then _ else _) = _ => destruct x; try reflexivity
  | |- bind ?x _ = _ => destruct x; cbn [bind]; try reflexivity
  | |- (let (_, _) := ?x in _) = _ => destruct x
  end.
  apply C13_same_build.
Qed.
Print Assumptions C13_same_parse.
Theorem C13_same_format : forall t p, format cfg (cow_shape cfg) t p = format cfg G t p.
Proof. reflexivity. Qed.
Print Assumptions C13_same_format.
