(* C02 Parsing recovers exactly the components of any legal spelling *)
Load "coq/props/Hdr".
From PM Require Import C02 Lang Quals Exec CsRef.
Lemma src_cfg_ok : cfg_ok cfg. Proof. sc. Qed.
(* right-to-left splitting at '#', '?', '@' is what the property's statement fixes *)
Lemma src_dirs : dir_sub cfg = true /\ dir_qual cfg = true /\ dir_ver cfg = true. Proof. vm_compute. auto. Qed.
Theorem C02_generic : forall sp, spelling_ok cfg sp ->
  parse cfg G (asm (raw_of sp)) = (t <- sh_from_str G (sp_ty sp) ;; build cfg G t (parts_of sp)).
Proof. intros sp. apply (C02 cfg src_cfg_ok); sc. Qed.
Print Assumptions C02_generic.
Theorem C02_typed : forall sp, spelling_ok cfg sp ->
  parse cfg P (asm (raw_of sp)) = (t <- sh_from_str P (sp_ty sp) ;; build cfg P t (parts_of sp)).
Proof. intros sp. apply (C02 cfg src_cfg_ok); sc. Qed.
Print Assumptions C02_typed.
Theorem C02_same_generic : forall sp1 sp2, spelling_ok cfg sp1 -> spelling_ok cfg sp2 -> sp_ty sp1 = sp_ty sp2 -> parts_of sp1 = parts_of sp2 ->
  parse cfg G (asm (raw_of sp1)) = parse cfg G (asm (raw_of sp2)).
Proof. intros sp1 sp2. apply (C02_same cfg src_cfg_ok); sc. Qed.
Print Assumptions C02_same_generic.
Theorem C02_same_typed : forall sp1 sp2, spelling_ok cfg sp1 -> spelling_ok cfg sp2 -> sp_ty sp1 = sp_ty sp2 -> parts_of sp1 = parts_of sp2 ->
  parse cfg P (asm (raw_of sp1)) = parse cfg P (asm (raw_of sp2)).
Proof. intros sp1 sp2. apply (C02_same cfg src_cfg_ok); sc. Qed.
Print Assumptions C02_same_typed.
(* the parser accepts nothing that is not such a skeleton *)
Theorem C02_only_skeletons : forall s x, parse cfg G s = Ok x -> exists r, WFr cfg r /\ s = asm r /\ checks cfg G r = Ok x.
Proof. intros s x. apply parse_sound. Qed.
Print Assumptions C02_only_skeletons.
(* ... and every such skeleton is a legal spelling in the sense above: the accepted language is exactly the set of legal spellings whose
   type converts and whose components build.  Nothing outside the documented spelling freedom is accepted, for any type parameter. *)
Theorem C02_accepted_language_exactly : forall (T E : Type) (sh : shape T E) s x, parse cfg sh s = Ok x <->
  exists sp, spelling_ok cfg sp /\ s = asm (raw_of sp) /\ (t <- sh_from_str sh (sp_ty sp) ;; build cfg sh t (parts_of sp)) = Ok x.
Proof. intros T E sh. apply (accepted_iff cfg src_cfg_ok); sc. Qed.
Print Assumptions C02_accepted_language_exactly.
(* the checksum value may be spelled with its entries in any order and its hex digits in any case: the built PURL is the same *)
Theorem C02_checksum_spelling_freedom : forall t p v1 v2 m1 m2, QInv cfg (p_quals p) -> q_get cfg (p_quals p) s_checksum = Some v1 -> v1 <> [] -> v2 <> [] ->
  cs_try_from cfg v1 = Ok m1 -> cs_try_from cfg v2 = Ok m2 -> NoDup (map fst m1) -> Permutation.Permutation (map norm m1) (map norm m2) ->
  build cfg G t (with_quals p (q_set cfg (p_quals p) s_checksum v2)) = build cfg G t p.
Proof. apply build_checksum_spelling; sc. Qed.
Print Assumptions C02_checksum_spelling_freedom.
