(* C18 Combined names split and join at the ecosystem separator *)
Load "coq/props/Hdr".
From PM Require Import Small.
Lemma src_cfg_ok : cfg_ok cfg. Proof. sc. Qed.
Theorem C18_split : forall t s, combined_split t s =
  match t with
  | Maven => match split_once c_colon s with Some (a, b) => (Some a, b) | None => (None, s) end
  | Golang | Npm => match rsplit_once c_slash s with Some (a, b) => (Some a, b) | None => (None, s) end
  | _ => (None, s) end.
Proof. apply C18_split_spec. Qed.
Print Assumptions C18_split.
Theorem C18_round_trip : forall t p, side t p -> combined_split t (combined_name t p) = (ns_opt p, p_name p).
Proof. apply C18_round. Qed.
Print Assumptions C18_round_trip.
