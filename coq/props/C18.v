(* C18 Combined names split and join at the ecosystem separator *)
Load "coq/props/Hdr".
From PM Require Import Small.
Lemma src_cfg_ok : cfg_ok cfg. Proof. sc. Qed.
Theorem C18_split : forall t s, combined_split t s =
  match t with
  | Maven => match split_once c_colon s with Some (a, b) => (Some a, b) | None => (None, s) end
  | Golang | Npm => match rsplit_once c_slash s with Some (a, b) => (Some a, b) | None => (None, s) end
  | _ => (None, s) end.
Proof. apply C18_split_spec. Qed.
Print Assumptions C18_split.
Theorem C18_round_trip : forall t p, side t p -> combined_split t (combined_name t p) = (ns_opt p, p_name p).
Proof. apply C18_round. Qed.
Print Assumptions C18_round_trip.
(* builder_with_combined_name(t, s).build(): the outcome as a function of the split pieces - the type's rule decides, nothing else does *)
Theorem C18_combined_build : forall t s,
  let p := comb_parts t s in
  build cfg P t p =
  match t with
  | Maven => if maven_ns_missing cfg (p_ns p) then Err (PMissing FNamespace)
             else if is_empty (p_name p) then Err (PParse (EMissing FName)) else Ok (t, p)
  | NuGet => if is_empty (lowercase_str cfg (p_name p)) then Err (PParse (EMissing FName)) else Ok (t, with_name p (lowercase_str cfg (p_name p)))
  | PyPI => if is_empty (fix_pypi_name cfg (p_name p)) then Err (PParse (EMissing FName)) else Ok (t, with_name p (fix_pypi_name cfg (p_name p)))
  | _ => if is_empty (p_name p) then Err (PParse (EMissing FName)) else Ok (t, p)
  end.
Proof. exact (C18_combined_build_spec cfg). Qed.
Print Assumptions C18_combined_build.
(* non-vacuity: both branches of the Maven rule occur *)
Example C18_combined_build_ex1 : build cfg P Maven (comb_parts Maven ["g";":";"a"]%byte) =
  Ok (Maven, {| p_ns := ["g"]%byte; p_name := ["a"]%byte; p_ver := []; p_quals := []; p_sub := [] |}).
Proof. vm_compute. reflexivity. Qed.
Example C18_combined_build_ex2 : build cfg P Maven (comb_parts Maven ["/";":";"a"]%byte) = Err (PMissing FNamespace).
Proof. vm_compute. reflexivity. Qed.
