(* C08 Package-type rules: pypi and nuget names, maven namespace, others untouched *)
Load "coq/props/Hdr".
From PM Require Import Lower2 Pypi C08rel C15 More Alpha.
Lemma src_cfg_ok : cfg_ok cfg. Proof. sc. Qed.
(* nuget: every character replaced by its Unicode lower-case mapping, nothing else changed *)
Theorem C08_nuget : forall n, utf8_valid n = true -> lowercase_str cfg n = spec_lower cfg n.
Proof. intros n. apply lowercase_str_spec; sc. Qed.
Print Assumptions C08_nuget.
(* pypi: lower-cased, every maximal run of dash characters replaced by one '-' (right-to-left specification without state) *)
Theorem C08_pypi : forall n, utf8_valid n = true -> fix_pypi_name cfg n = spec_pypi cfg n.
Proof. intros n. apply C08_pypi; sc. Qed.
Print Assumptions C08_pypi.
(* every other field, for every type, is what the type-agnostic parser returns; the name is the rule applied to its name *)
Theorem C08_relation : forall s t p, utf8_valid s = true -> parse cfg P s = Ok (t, p) ->
  exists g, parse cfg G s = Ok (pt_name t, g) /\ p = with_name g (rule cfg t (p_name g)).
Proof. apply C08_rel; sc. Qed.
Print Assumptions C08_relation.
Theorem C08_rule_identity : forall n, rule cfg Cargo n = n /\ rule cfg Gem n = n /\ rule cfg Golang n = n /\ rule cfg Npm n = n /\ rule cfg Maven n = n
  /\ rule cfg NuGet n = lowercase_str cfg n /\ rule cfg PyPI n = fix_pypi_name cfg n.
Proof. intros n. repeat split; reflexivity. Qed.
Print Assumptions C08_rule_identity.
Theorem C08_unknown_type : forall s ty g, parse cfg G s = Ok (ty, g) -> (forall r, s = asm r -> pt_from_str cfg (r_ty r) = None) -> parse cfg P s = Err PUnsupportedType.
Proof. apply C08_unknown. exact src_cfg_ok. Qed.
Print Assumptions C08_unknown_type.
(* parser and builder share build(): maven is refused exactly when no namespace segment is present *)
Theorem C08_maven : forall p, (exists e, build cfg P Maven p = Err e /\ e = PMissing FNamespace) <-> forallb is_empty (split c_slash (p_ns p)) = true.
Proof.
  intros p. unfold build. cbn [sh_finish ptype_shape pt_finish]. unfold maven_ns_missing. change (maven_ns_segments cfg) with true. cbv iota.
  destruct (forallb is_empty (split c_slash (p_ns p))).
  - split; [reflexivity|]. intros _. eexists. split; reflexivity.
  - split; [|discriminate]. intros (e & H & ->). exfalso.
    destruct (is_empty (p_name p)); [discriminate|]. destruct (q_get _ _ _); [|discriminate].
    destruct (cs_try_from _ _); [|discriminate]. destruct (cs_to_text _); [|discriminate]. destruct (q_insert _ _ _ _); discriminate.
Qed.
Print Assumptions C08_maven.
(* identically from the builder: build() applies the same rule, and leaves namespace, version and subpath alone *)
Theorem C08_builder_applies_rule : forall t p t' p', build cfg P t p = Ok (t', p') ->
  t' = t /\ p_name p' = rule cfg t (p_name p) /\ p_ns p' = p_ns p /\ p_ver p' = p_ver p /\ p_sub p' = p_sub p.
Proof. apply C08_build_rule. Qed.
Print Assumptions C08_builder_applies_rule.
(* the model's table look-up (which stops at the first larger key) finds every entry of the dumped std table: the tables strictly ascend *)
Theorem C08_table_lookup_is_complete : forall c l, In (c, l) (lower_tbl cfg) -> lower_c cfg c = l.
Proof. intros c l H. unfold lower_c. rewrite (tbl_find_complete cfg (lower_tbl cfg) c l); [reflexivity|vm_compute; reflexivity|exact H]. Qed.
Print Assumptions C08_table_lookup_is_complete.
(* the pypi separators are '-', '_' and '.' *)
Theorem C08_pypi_separators_are_the_documented_ones : forall c, is_dash cfg c = existsb (fun b => N.eqb (bn b) c) doc_dash_chars.
Proof. apply is_dash_is_documented. vm_compute. reflexivity. Qed.
Print Assumptions C08_pypi_separators_are_the_documented_ones.
