(* C04 Every PURL value handed out is valid and normalised *)
Load "coq/props/Hdr".
From PM Require Import DecQual ParseInv BuildG BuildGen C01P C04 Builder Assemble Exec Alpha.
Lemma src_cfg_ok : cfg_ok cfg. Proof. sc. Qed.
(* the invariant, for ANY type parameter whose hook hands back a qualifier collection that the collection's API can produce
   (hook_sane; otherwise the hook edits the parts arbitrarily): parser and builder *)
Theorem C04_parse_any_shape : forall (T E : Type) (sh : shape T E) s t p, hook_sane cfg sh -> parse cfg sh s = Ok (t, p) -> Inv cfg p.
Proof. intros T E sh s t p. apply (C04_parse cfg); sc. Qed.
Print Assumptions C04_parse_any_shape.
Theorem C04_build_any_shape : forall (T E : Type) (sh : shape T E) t p t' p', hook_sane cfg sh ->
  QInv cfg (p_quals p) -> vals_utf8 (p_quals p) -> build cfg sh t p = Ok (t', p') -> Inv cfg p'.
Proof. intros T E sh t p t' p'. apply (C04_build cfg); sc. Qed.
Print Assumptions C04_build_any_shape.
(* the built-in type parameters are sane, so the invariant holds for them unconditionally *)
Theorem C04_builtin_sane : hook_sane cfg G /\ hook_sane cfg (cow_shape cfg) /\ hook_sane cfg P.
Proof. split; [apply G_sane|split; [apply Cow_sane|apply P_sane]]. Qed.
Print Assumptions C04_builtin_sane.
(* the builder keeps the collection invariant along any call sequence *)
Theorem C04_builder_quals : forall (T : Type) (ops : list (@bop T)) b b', QInv cfg (p_quals (b_parts b)) -> brun cfg b ops = Ok b' -> QInv cfg (p_quals (b_parts b')).
Proof. intros T. apply C09_quals_inv; sc. Qed.
Print Assumptions C04_builder_quals.
(* type string of the built-in string parameters: non-empty, lower-case, [a-z0-9.+-] *)
Theorem C04_type_generic : forall t p t' p', build cfg G t p = Ok (t', p') -> valid_type cfg t' = true /\ t' = make_ascii_lowercase t.
Proof. apply G_type_ok. Qed.
Print Assumptions C04_type_generic.
Theorem C04_type_typed : forall t, valid_type cfg (pt_name t) = true /\ make_ascii_lowercase (pt_name t) = pt_name t.
Proof. destruct t; split; reflexivity. Qed.
Print Assumptions C04_type_typed.
(* accessors never report an empty string *)
Theorem C04_accessors : forall x, acc x <> Some [] /\ (acc x = None <-> x = []).
Proof. intros x. split; [apply acc_nonempty|]. destruct x; cbn; split; congruence. Qed.
Print Assumptions C04_accessors.
(* what the parser hands to build(): valid UTF-8 fields, segment-normal namespace and subpath *)
Theorem C04_parser_front : forall (r : raw) sub q ver ns name,
  oget (r_sub r) decode_subpath = Ok sub ->
  (match r_q r with Some qs => decode_quals cfg (split c_amp qs) [] | None => Ok [] end) = Ok q ->
  oget (r_ver r) decode = Ok ver -> oget (r_ns r) decode_namespace = Ok ns -> decode (r_name r) = Ok name ->
  fields_valid cfg {| p_ns := ns; p_name := name; p_ver := ver; p_quals := q; p_sub := sub |}
  /\ seg_inv {| p_ns := ns; p_name := name; p_ver := ver; p_quals := q; p_sub := sub |}.
Proof. apply checks_fields; sc. Qed.
Print Assumptions C04_parser_front.
(* non-vacuity: the invariant's hypotheses are met by a parsed value with a checksum *)
Definition ex1 : bytes := map nb [112;107;103;58;78;80;77;47;37;52;48;97;47;98;64;49;63;75;61;118;38;99;104;101;99;107;115;117;109;61;98;58;48;48;44;65;58;49;70;35;120;47;46;47;121]%N.
Definition ex1_res := Eval vm_compute in parse cfg G ex1.
Example C04_nonvacuous : parse cfg G ex1 = ex1_res /\ match ex1_res with Ok (t, p) => q_get cfg (p_quals p) s_checksum <> None | Err _ => False end.
Proof. split; [vm_compute; reflexivity|vm_compute; discriminate]. Qed.
(* the type alphabet read from the source is the documented one: letters, digits, '.', '+', '-' *)
Theorem C04_type_alphabet_is_the_documented_one : forall t, valid_type cfg t = doc_valid_type t.
Proof. apply valid_type_is_documented. vm_compute. reflexivity. Qed.
Print Assumptions C04_type_alphabet_is_the_documented_one.
Theorem C04_key_alphabet_is_the_documented_one : forall k, valid_key cfg k = doc_valid_key k.
Proof. apply valid_key_is_documented. vm_compute. reflexivity. Qed.
Print Assumptions C04_key_alphabet_is_the_documented_one.
