(* C09 Builder is faithful and serialisation loses nothing *)
Load "coq/props/Hdr".
From PM Require Import BuildG BuildGen C01P C09 Builder Assemble C08rel Final Exec Refine.
Lemma src_rt : rt_ok cfg. Proof. prove_rt. Qed.
Lemma src_cfg_ok : cfg_ok cfg. Proof. sc. Qed.
(* the string form of a built PURL is accepted and yields the same fields, up to dropping insignificant segments *)
Theorem C09_reparse_generic : forall t0 p0 t p, fields_valid cfg p0 -> build cfg G t0 p0 = Ok (t, p) ->
  format_panics cfg G t = false /\ parse cfg G (format cfg G t p) = Ok (t, norm_parts p).
Proof.
  intros t0 p0 t p. apply (C09_reparse cfg src_rt); try sc.
  - apply G_finish_stable.
  - apply G_norm_commute.
  - intros t1 p1 t2 p2. cbn [sh_finish sh_type sh_from_str string_shape]. unfold str_finish. destruct (valid_type cfg t1) eqn:Ev; [|discriminate].
    intros [= <- _]. split; [apply valid_type_mal; exact Ev|reflexivity].
Qed.
Print Assumptions C09_reparse_generic.
Theorem C09_reparse_typed : forall t0 p0 t p, fields_valid cfg p0 -> build cfg P t0 p0 = Ok (t, p) ->
  format_panics cfg P t = false /\ parse cfg P (format cfg P t p) = Ok (t, norm_parts p).
Proof.
  intros t0 p0 t p. apply (C09_reparse cfg src_rt); try sc.
  - apply (pt_finish_stable cfg); sc.
  - apply P_norm_commute. side.
  - intros t1 p1 t2 p2 _. cbn [sh_type sh_from_str ptype_shape]. destruct t2; split; reflexivity.
Qed.
Print Assumptions C09_reparse_typed.
(* norm_parts touches only namespace and subpath segments *)
Theorem C09_norm_only_segments : forall p, p_name (norm_parts p) = p_name p /\ p_ver (norm_parts p) = p_ver p /\ p_quals (norm_parts p) = p_quals p.
Proof. intros p. repeat split; reflexivity. Qed.
Print Assumptions C09_norm_only_segments.
(* calls on different fields commute; later calls override earlier ones *)
Theorem C09_calls_commute : forall (T : Type) (b : @bstate T) o1 o2, wr o1 <> wr o2 ->
  (b1 <- bstep cfg b o1 ;; bstep cfg b1 o2) = (b2 <- bstep cfg b o2 ;; bstep cfg b2 o1).
Proof. intros T. apply C09_commute. Qed.
Print Assumptions C09_calls_commute.
Theorem C09_last_name_wins : forall (T : Type) (b : @bstate T) s1 s2, (b1 <- bstep cfg b (OName s1) ;; bstep cfg b1 (OName s2)) = bstep cfg b (OName s2).
Proof. intros T. apply C09_override_name. Qed.
Print Assumptions C09_last_name_wins.
Theorem C09_last_namespace_wins : forall (T : Type) (b : @bstate T) s1 s2, (b1 <- bstep cfg b (ONs s1) ;; bstep cfg b1 (ONs s2)) = bstep cfg b (ONs s2).
Proof. intros T. apply C09_override_ns. Qed.
Print Assumptions C09_last_namespace_wins.
Theorem C09_builder_keeps_collection_invariant : forall (T : Type) (ops : list (@bop T)) b b', QInv cfg (p_quals (b_parts b)) -> brun cfg b ops = Ok b' -> QInv cfg (p_quals (b_parts b')).
Proof. intros T. apply C09_quals_inv; sc. Qed.
Print Assumptions C09_builder_keeps_collection_invariant.
(* what build() keeps of the fields for the string shapes *)
Theorem C09_fields_generic : forall t p t' p', fields_valid cfg p -> build cfg G t p = Ok (t', p') ->
  t' = make_ascii_lowercase t /\ valid_type cfg t' = true /\ p_name p' <> [] /\ fields_valid cfg p' /\ same_fields p p' /\ build cfg G t' p' = Ok (t', p').
Proof. apply (build_G_stable cfg); sc. Qed.
Print Assumptions C09_fields_generic.
(* build() succeeds exactly when the hook accepts (type valid / type rule satisfied), the name is non-empty and any checksum is well-formed *)
Theorem C09_build_succeeds_iff_generic : forall t p, (exists x, build cfg G t p = Ok x) <->
  valid_type cfg t = true /\ p_name p <> [] /\ cs_well_formed cfg (p_quals p).
Proof.
  intros t p. rewrite (build_succeeds_iff cfg G ltac:(sc) t p). cbn [sh_finish string_shape]. unfold str_finish. split.
  - intros (t1 & p1 & Ef & Hn & Hc). destruct (valid_type cfg t); [|discriminate]. injection Ef as <- <-. auto.
  - intros (Hv & Hn & Hc). rewrite Hv. do 2 eexists. split; [reflexivity|auto].
Qed.
Print Assumptions C09_build_succeeds_iff_generic.
Theorem C09_build_succeeds_iff_typed : forall t p, (exists x, build cfg P t p = Ok x) <->
  (t = Maven -> forallb is_empty (split c_slash (p_ns p)) = false) /\ p_name (with_name p (rule cfg t (p_name p))) <> [] /\ cs_well_formed cfg (p_quals p).
Proof.
  intros t p. rewrite (build_succeeds_iff cfg P ltac:(sc) t p). cbn [sh_finish ptype_shape]. unfold pt_finish, maven_ns_missing. change (maven_ns_segments cfg) with true. cbv iota. split.
  - intros (t1 & p1 & Ef & Hn & Hc). destruct t; try (injection Ef as <- <-; split; [discriminate|split; assumption]).
    destruct (forallb is_empty (split c_slash (p_ns p))); [discriminate|]. injection Ef as <- <-. split; [reflexivity|split; assumption].
  - intros (Hm & Hn & Hc). destruct t; try (do 2 eexists; split; [reflexivity|split; assumption]).
    rewrite (Hm eq_refl). do 2 eexists; split; [reflexivity|split; assumption].
Qed.
Print Assumptions C09_build_succeeds_iff_typed.
(* the builder steps executed by the correspondence check are those the theorems above speak about *)
Theorem C09_executed_steps : forall (T : Type) (b : @bstate T) o,
  match bstep cfg b o, xstep cfg (b_type b, b_parts b) (embed o) with
  | Ok b', Ok (t, p) => b_type b' = t /\ b_parts b' = p
  | Err _, Err StopQE => True
  | _, _ => False end.
Proof. intros T. apply xstep_is_bstep. Qed.
Print Assumptions C09_executed_steps.
Theorem C09_empty_means_unset : forall (T : Type) (tp : T * parts),
  xstep cfg tp XNoNs = xstep cfg tp (XNs []) /\ xstep cfg tp XNoVer = xstep cfg tp (XVer []) /\ xstep cfg tp XNoSub = xstep cfg tp (XSub []).
Proof. intros T. apply xstep_without. Qed.
Print Assumptions C09_empty_means_unset.
(* qualifiers: later calls override earlier ones per lower-cased key, and leave every other key alone *)
Theorem C09_last_qualifier_wins : forall q k v q' k', QInv cfg q -> q_insert cfg q k v = Ok q' ->
  q_get cfg q' k = Some v /\ (valid_key cfg k' = true -> lk k' <> lk k -> q_get cfg q' k' = q_get cfg q k').
Proof. intros q k v q' k' HQ Hi. split; [eapply Quals3.q_get_insert_same; try eassumption; sc|intros; eapply q_get_insert_other; try eassumption; sc]. Qed.
Print Assumptions C09_last_qualifier_wins.
