(* C19 Equality, hashing and ordering agree with the canonical string *)
Load "coq/props/Hdr".
From PM Require Import Inj Inj2 Order Assemble Exec Final.
Lemma src_rt : rt_ok cfg. Proof. prove_rt. Qed.
Lemma src_cfg_ok : cfg_ok cfg. Proof. sc. Qed.
(* equal canonical strings => equal PURLs (the converse is congruence) *)
Theorem C19_string_determines_generic : forall t1 p1 t2 p2, valid_type cfg t1 = true -> valid_type cfg t2 = true ->
  keys_valid cfg (p_quals p1) -> keys_valid cfg (p_quals p2) -> format cfg G t1 p1 = format cfg G t2 p2 -> t1 = t2 /\ p1 = p2.
Proof. apply (format_inj_G cfg src_rt). Qed.
Print Assumptions C19_string_determines_generic.
Theorem C19_string_determines_typed : forall t1 p1 t2 p2, keys_valid cfg (p_quals p1) -> keys_valid cfg (p_quals p2) ->
  format cfg P t1 p1 = format cfg P t2 p2 -> t1 = t2 /\ p1 = p2.
Proof. apply (format_inj_P cfg src_rt). Qed.
Print Assumptions C19_string_determines_typed.
Theorem C19_invariant_gives_valid_keys : forall q, QInv cfg q -> keys_valid cfg q.
Proof. apply QInv_keys_valid. Qed.
Print Assumptions C19_invariant_gives_valid_keys.
(* the derived ordering is a total order in which Equal means equal *)
Theorem C19_total_order : total_cmp cmp_purl.
Proof. exact C19_ord. Qed.
Print Assumptions C19_total_order.
(* the comparison functions executed by the correspondence check (derived Ord of GenericPurl<String> and of Purl) are total orders, Equal iff equal *)
Theorem C19_total_order_generic : total_cmp cmp_g.
Proof. exact cmp_g_total. Qed.
Print Assumptions C19_total_order_generic.
Theorem C19_total_order_typed : total_cmp cmp_t.
Proof. exact cmp_t_total. Qed.
Print Assumptions C19_total_order_typed.
