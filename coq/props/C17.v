(* C17 Behaviour does not depend on optional feature flags.  Feature selection is a build-time fact below the model; the model has
   one definition of SmallString (bytes) and no cfg.  What is stated here is only that every configuration is compared with ONE function. *)
Load "coq/props/Hdr".
Lemma src_cfg_ok : cfg_ok cfg. Proof. sc. Qed.
Theorem C17_model_is_a_function : forall s r1 r2, parse cfg G s = r1 -> parse cfg G s = r2 -> r1 = r2.
Proof. intros s r1 r2 <- <-. reflexivity. Qed.
Print Assumptions C17_model_is_a_function.
