(* C17 Behaviour does not depend on optional feature flags.  Feature selection is a build-time fact below the model; the model has
   one definition of SmallString (bytes) and no cfg.  What is stated here is only that every configuration is compared with ONE function. *)
Load "coq/props/Hdr".
Lemma src_rt : rt_ok cfg. Proof. apply conds_rt_ok. vm_compute. reflexivity. Qed.
Lemma src_tbl : tbl_ok cfg. Proof. apply conds_tbl_ok. vm_compute. reflexivity. Qed.
Lemma src_cfg_ok : cfg_ok cfg. Proof. exact (rt_cfg _ src_rt). Qed.
Ltac sc := sidecond_with src_rt src_tbl.
Theorem C17_model_is_a_function : forall s r1 r2, parse cfg G s = r1 -> parse cfg G s = r2 -> r1 = r2.
Proof. intros s r1 r2 <- <-. reflexivity. Qed.
Print Assumptions C17_model_is_a_function.
