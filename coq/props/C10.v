(* C10 Re-building an existing PURL is the identity *)
Load "coq/props/Hdr".
From PM Require Import BuildG BuildGen C01P Assemble.
Lemma src_cfg_ok : cfg_ok cfg. Proof. sc. Qed.
Lemma G_st : finish_stable G. Proof. apply G_finish_stable. Qed.
Lemma P_st : finish_stable P. Proof. apply (pt_finish_stable cfg); sc. Qed.
Theorem C10_parsed_generic : forall s t p, parse cfg G s = Ok (t, p) -> build cfg G t p = Ok (t, p).
Proof. intros s t p. apply (C10_parse cfg); try sc. exact G_st. Qed.
Print Assumptions C10_parsed_generic.
Theorem C10_parsed_typed : forall s t p, parse cfg P s = Ok (t, p) -> build cfg P t p = Ok (t, p).
Proof. intros s t p. apply (C10_parse cfg); try sc. exact P_st. Qed.
Print Assumptions C10_parsed_typed.
Theorem C10_built_generic : forall t0 p0 t p, fields_valid cfg p0 -> build cfg G t0 p0 = Ok (t, p) -> build cfg G t p = Ok (t, p).
Proof. intros t0 p0 t p. apply (C10_build cfg); try sc. exact G_st. Qed.
Print Assumptions C10_built_generic.
Theorem C10_built_typed : forall t0 p0 t p, fields_valid cfg p0 -> build cfg P t0 p0 = Ok (t, p) -> build cfg P t p = Ok (t, p).
Proof. intros t0 p0 t p. apply (C10_build cfg); try sc. exact P_st. Qed.
Print Assumptions C10_built_typed.
