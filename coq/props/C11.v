(* C11 Qualifier collection behaves as a case-insensitive sorted map *)
Load "coq/props/Hdr".
From PM Require Import Quals2 Quals3 Quals4 Quals5 Final Exec Refine Alpha.
Lemma src_cfg_ok : cfg_ok cfg. Proof. sc. Qed.
Theorem C11_reachable_invariant : forall (ops : list qop) q, QInv cfg q -> QInv cfg (fold_left (qstep cfg) ops q).
Proof. apply C11_reachable; sc. Qed.
Print Assumptions C11_reachable_invariant.
Theorem C11_empty_invariant : QInv cfg [].
Proof. split; constructor. Qed.
Print Assumptions C11_empty_invariant.
Theorem C11_insert_keeps_invariant : forall q k v q', QInv cfg q -> q_insert cfg q k v = Ok q' -> QInv cfg q'.
Proof. apply q_insert_inv; sc. Qed.
Print Assumptions C11_insert_keeps_invariant.
Theorem C11_get_after_insert : forall q k v q', QInv cfg q -> q_insert cfg q k v = Ok q' -> q_get cfg q' k = Some v.
Proof. apply q_get_insert_same; sc. Qed.
Print Assumptions C11_get_after_insert.
(* lookup is by the ASCII-lower-cased key, whatever the letter case used *)
Theorem C11_get_is_lookup_by_lowercased_key : forall q k v, QInv cfg q -> valid_key cfg k = true -> (q_get cfg q k = Some v <-> In (lk k, v) q).
Proof. apply q_get_iff; sc. Qed.
Print Assumptions C11_get_is_lookup_by_lowercased_key.
Theorem C11_absent_iff : forall q k, QInv cfg q -> valid_key cfg k = true -> (q_get cfg q k = None <-> ~ In (lk k) (map fst q)).
Proof. apply q_get_none_iff; sc. Qed.
Print Assumptions C11_absent_iff.
Theorem C11_remove : forall q k, QInv cfg q -> valid_key cfg k = true ->
  QInv cfg (fst (q_remove cfg q k)) /\ snd (q_remove cfg q k) = q_get cfg q k /\ q_get cfg (fst (q_remove cfg q k)) k = None
  /\ (forall k' v, lk k' <> lk k -> In (lk k', v) (fst (q_remove cfg q k)) <-> In (lk k', v) q).
Proof. apply q_remove_spec; sc. Qed.
Print Assumptions C11_remove.
Theorem C11_invalid_keys : forall q k, valid_key cfg k = false ->
  q_get cfg q k = None /\ (forall v, q_insert cfg q k v = Err EInvalidQualifier) /\ q_remove cfg q k = (q, None).
Proof. intros q k H. split; [apply q_get_invalid; exact H|]. split; [intros v; apply q_insert_invalid; exact H|apply q_remove_invalid; exact H]. Qed.
Print Assumptions C11_invalid_keys.
Theorem C11_entry_classification : forall q k, QInv cfg q ->
  q_entry_kind cfg q k = if valid_key cfg k then match q_get cfg q k with Some v => EOccupied v | None => EVacant end else EInvalid.
Proof. apply entry_kind_spec; sc. Qed.
Print Assumptions C11_entry_classification.
Theorem C11_or_insert : forall q k v, QInv cfg q -> valid_key cfg k = true ->
  match q_get cfg q k with
  | Some w => q_or_insert cfg q k v = Ok (q, w)
  | None => exists q', q_or_insert cfg q k v = Ok (q', v) /\ q_insert cfg q k v = Ok q' end.
Proof. apply or_insert_spec; sc. Qed.
Print Assumptions C11_or_insert.
Theorem C11_from_pairs_keeps_invariant : forall items q q', QInv cfg q -> q_try_from_iter cfg items q = Ok q' -> QInv cfg q'.
Proof. apply try_from_iter_inv; sc. Qed.
Print Assumptions C11_from_pairs_keeps_invariant.
Theorem C11_from_pairs_refuses_repeated_key : forall k v1 v2 rest q, QInv cfg q -> valid_key cfg k = true -> q_get cfg q k = None ->
  forall k2, lk k2 = lk k -> valid_key cfg k2 = true -> q_try_from_iter cfg ((k, v1) :: (k2, v2) :: rest) q = Err EInvalidQualifier.
Proof. apply try_from_iter_dup; sc. Qed.
Print Assumptions C11_from_pairs_refuses_repeated_key.
(* same content => the same value, hence ==, cmp and hash agree, whatever the insertion order and key case *)
Theorem C11_canonical_form : forall q1 q2, QInv cfg q1 -> QInv cfg q2 -> (forall k, valid_key cfg k = true -> q_get cfg q1 k = q_get cfg q2 k) -> q1 = q2.
Proof. apply C11_canon; sc. Qed.
Print Assumptions C11_canonical_form.
(* every operation of the executed language (27 operations: Qualifiers, Entry, OccupiedEntry, VacantEntry, iterators, typed accessors) keeps the invariant *)
Theorem C11_executed_language_invariant : forall ops q, QInv cfg q -> QInv cfg (fst (qxrun cfg q ops)).
Proof. apply qxrun_inv; sc. Qed.
Print Assumptions C11_executed_language_invariant.
Theorem C11_entry_or_insert_is_reference : forall q k v, QInv cfg q -> valid_key cfg k = true ->
  qxstep cfg q (QEOrIns k v) = match q_get cfg q k with Some w => (q, XoOpt (Some w)) | None => (q_set cfg q k v, XoOpt (Some v)) end.
Proof. apply qxstep_entry_or_insert; sc. Qed.
Print Assumptions C11_entry_or_insert_is_reference.
(* --- refinement to the reference map  k |-> get k  (keyed by the ASCII-lower-cased key) --- *)
Theorem C11_insert_leaves_other_keys : forall q k v q' k', QInv cfg q -> q_insert cfg q k v = Ok q' -> valid_key cfg k' = true -> lk k' <> lk k -> q_get cfg q' k' = q_get cfg q k'.
Proof. apply q_get_insert_other; sc. Qed.
Print Assumptions C11_insert_leaves_other_keys.
Theorem C11_lookup_ignores_letter_case : forall q k k', QInv cfg q -> valid_key cfg k = true -> valid_key cfg k' = true -> lk k = lk k' -> q_get cfg q k = q_get cfg q k'.
Proof. apply q_get_case_insensitive; sc. Qed.
Print Assumptions C11_lookup_ignores_letter_case.
Theorem C11_remove_leaves_other_keys : forall q k k', QInv cfg q -> valid_key cfg k = true -> valid_key cfg k' = true -> lk k' <> lk k -> q_get cfg (fst (q_remove cfg q k)) k' = q_get cfg q k'.
Proof. apply q_get_remove_other; sc. Qed.
Print Assumptions C11_remove_leaves_other_keys.
Theorem C11_retain : forall f q k, QInv cfg q -> valid_key cfg k = true ->
  q_get cfg (q_retain f q) k = match q_get cfg q k with Some v => if f (lk k) v then Some v else None | None => None end.
Proof. apply q_get_retain; sc. Qed.
Print Assumptions C11_retain.
Theorem C11_value_mutation : forall g q k, QInv cfg q -> valid_key cfg k = true -> q_get cfg (map_vals g q) k = option_map g (q_get cfg q k).
Proof. apply q_get_map_vals; sc. Qed.
Print Assumptions C11_value_mutation.
Theorem C11_iteration_is_the_map : forall q, QInv cfg q ->
  (forall k v, In (k, v) q <-> valid_key cfg k = true /\ lk k = k /\ q_get cfg q k = Some v)
  /\ Sorted.StronglySorted (fun a b => bcmp a b = Lt) (map fst q) /\ NoDup q /\ rev (rev q) = q.
Proof. apply iteration_is_the_map; sc. Qed.
Print Assumptions C11_iteration_is_the_map.
Theorem C11_entry_insert : forall q k v, QInv cfg q -> valid_key cfg k = true ->
  qxstep cfg q (QEInsert k v) = match q_get cfg q k with Some w => (q_set cfg q k v, XoOcc2 w w) | None => (q_set cfg q k v, XoVacV v) end.
Proof. apply entry_insert_is_reference; sc. Qed.
Print Assumptions C11_entry_insert.
Theorem C11_entry_remove : forall q k, QInv cfg q -> valid_key cfg k = true ->
  qxstep cfg q (QERemove k) = match q_get cfg q k with Some w => (fst (q_remove cfg q k), XoOcc w) | None => (q, XoVac) end.
Proof. apply entry_remove_is_reference; sc. Qed.
Print Assumptions C11_entry_remove.
Theorem C11_entry_remove_entry : forall q k, QInv cfg q -> valid_key cfg k = true ->
  qxstep cfg q (QERemoveEntry k) = match q_get cfg q k with Some w => (fst (q_remove cfg q k), XoOccKV (lk k) w) | None => (q, XoVac) end.
Proof. apply entry_remove_entry_is_reference; sc. Qed.
Print Assumptions C11_entry_remove_entry.
Theorem C11_entry_and_modify : forall q k suf v, QInv cfg q -> valid_key cfg k = true ->
  qxstep cfg q (QEAndMod k suf v) = match q_get cfg q k with Some w => (q_set cfg q k (w ++ suf), XoVC (w ++ suf) true) | None => (q_set cfg q k v, XoVC v false) end.
Proof. apply entry_and_modify_is_reference; sc. Qed.
Print Assumptions C11_entry_and_modify.
Theorem C11_entry_and_modify_clearing : forall q k v, QInv cfg q -> valid_key cfg k = true ->
  qxstep cfg q (QEAndClr k v) = match q_get cfg q k with Some w => (q_set cfg q k [], XoVC [] true) | None => (q_set cfg q k v, XoVC v false) end.
Proof. apply entry_and_clear_is_reference; sc. Qed.
Print Assumptions C11_entry_and_modify_clearing.
Theorem C11_invalid_key_every_operation : forall q k, valid_key cfg k = false ->
  forall v suf, qxstep cfg q (QEOrIns k v) = (q, XoE) /\ qxstep cfg q (QEOrInsWith k v) = (q, XoE) /\ qxstep cfg q (QEAndMod k suf v) = (q, XoE)
  /\ qxstep cfg q (QEInsert k v) = (q, XoE) /\ qxstep cfg q (QERemove k) = (q, XoE) /\ qxstep cfg q (QERemoveEntry k) = (q, XoE) /\ qxstep cfg q (QEGetMut k suf) = (q, XoE)
  /\ qxstep cfg q (QIns k v) = (q, XoE) /\ qxstep cfg q (QRem k) = (q, XoOpt None) /\ qxstep cfg q (QGet k) = (q, XoOpt None) /\ qxstep cfg q (QHas k) = (q, XoB false).
Proof. apply entry_invalid_key. Qed.
Print Assumptions C11_invalid_key_every_operation.
(* invalid keys are: empty, or containing anything but ASCII letters, digits, '.', '-', '_' *)
Theorem C11_key_alphabet_is_the_documented_one : forall k, valid_key cfg k = doc_valid_key k.
Proof. apply valid_key_is_documented. vm_compute. reflexivity. Qed.
Print Assumptions C11_key_alphabet_is_the_documented_one.
(* Qualifiers::search is slice::binary_search_by with the key comparator; the model scans linearly. theories/BinSearch.v models std's loop
   (left/right, mid = left + (right-left)/2) and proves it returns what the linear scan returns on every list that is monotone for the probe;
   every reachable qualifier list is (QInv: strictly sorted canonical keys), so the model's search is the crate's, for lists of any length *)
From PM Require Import BinSearch.
Theorem C11_search_is_binary_search : forall q m k, QInv cfg q -> check_key cfg k = Ok m ->
  search cfg q m = binary_search_by (probe cfg k) dkv q.
Proof. intros q m k HQ Hm. apply search_is_binary_search; [sc|sc|exact HQ|exact Hm]. Qed.
Print Assumptions C11_search_is_binary_search.
(* the same for the loop std has used since Rust 1.82 (branch-free: size halves, base moves unless Greater, one final comparison) *)
Theorem C11_search_is_binary_search_182 : forall q m k, QInv cfg q -> check_key cfg k = Ok m ->
  search cfg q m = binary_search_by2 (probe cfg k) dkv q.
Proof. intros q m k HQ Hm. apply search_is_binary_search2; [sc|sc|exact HQ|exact Hm]. Qed.
Print Assumptions C11_search_is_binary_search_182.
