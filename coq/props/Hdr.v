(* shared header of the per-property instance files (textually loaded): the configuration read from the source and its side conditions.
   Each record is established by evaluating the named boolean conditions of Conds.v on the current constants. *)
From Coq Require Import List NArith Bool.
From Coq.Strings Require Import Byte.
From PM Require Import Base Lemmas Text Model Skeleton Quals DecQual Lower2 Lower3 Cs2 Pypi Roundtrip PypiAny C15 Tables Consts Conds.
Import ListNotations.
Notation cfg := src_cfg. Notation G := (string_shape src_cfg). Notation P := (ptype_shape src_cfg).
Ltac side := vm_compute; reflexivity.
(* every side condition is a closed boolean fact about the constants read from the source; each is proved on demand, by computation,
   and only where a theorem needs it - so a changed constant breaks exactly the obligations whose proofs mention it *)
Ltac sc := match goal with
  | |- cfg_ok _ => constructor; vm_compute; reflexivity
  | |- tbl_ascii_ok _ = true => vm_compute; reflexivity
  | |- key_special_ascii _ = true => vm_compute; reflexivity
  | |- scan_ascii_ok _ = true => vm_compute; reflexivity
  | |- tbl_img_fixed _ = true => vm_compute; reflexivity
  | |- tbl_img_scalar _ = true => vm_compute; reflexivity
  | |- tbl_no_comma _ = true => vm_compute; reflexivity
  | |- dash_has_hyphen _ = true => vm_compute; reflexivity
  | |- tbl_no_dash _ = true => vm_compute; reflexivity
  | |- dash_not_letter _ = true => vm_compute; reflexivity
  | |- valid_key _ _ = true => vm_compute; reflexivity
  | |- scan_lower_ne _ = true => reflexivity
  | |- maven_ns_segments _ = true => reflexivity
  | |- cap_saturating _ = true => reflexivity
  | |- dir_sub _ = true => reflexivity
  | |- dir_qual _ = true => reflexivity
  | |- dir_ver _ = true => reflexivity
  | |- mem _ (key_special _) = false => vm_compute; reflexivity
  | |- fold_blocks _ = true => vm_compute; reflexivity
  | |- fold_ascii _ = true => vm_compute; reflexivity
  | |- forallb _ (type_special _) = true => vm_compute; reflexivity
  end.
(* the round-trip record (14 facts about the escape sets and key characters), for the files whose theorems need it *)
Ltac prove_rt := apply conds_rt_ok; vm_compute; reflexivity.
