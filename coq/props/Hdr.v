(* shared header of the per-property instance files (textually loaded): the configuration read from the source and its side conditions.
   Each record is established by evaluating the named boolean conditions of Conds.v on the current constants. *)
From Coq Require Import List NArith Bool.
From Coq.Strings Require Import Byte.
From PM Require Import Base Lemmas Text Model Skeleton Quals DecQual Lower2 Lower3 Cs2 Pypi Roundtrip PypiAny C15 Tables Consts Conds.
Import ListNotations.
Notation cfg := src_cfg. Notation G := (string_shape src_cfg). Notation P := (ptype_shape src_cfg).
Ltac side := vm_compute; reflexivity.
Ltac sidecond_with rt tbl := match goal with
  | |- rt_ok _ => exact rt
  | |- cfg_ok _ => exact (rt_cfg _ rt)
  | |- tbl_ascii_ok _ = true => exact (rt_asc _ rt)
  | |- key_special_ascii _ = true => exact (rt_ksp _ rt)
  | |- scan_ascii_ok _ = true => exact (t_sa _ tbl)
  | |- tbl_img_fixed _ = true => exact (t_fix _ tbl)
  | |- tbl_img_scalar _ = true => exact (t_sc _ tbl)
  | |- tbl_no_comma _ = true => exact (t_nc _ tbl)
  | |- dash_has_hyphen _ = true => exact (t_hy _ tbl)
  | |- tbl_no_dash _ = true => exact (t_nd _ tbl)
  | |- dash_not_letter _ = true => exact (t_dl _ tbl)
  | |- valid_key _ s_checksum = true => exact (t_ck _ tbl)
  | |- scan_lower_ne _ = true => reflexivity
  | |- maven_ns_segments _ = true => reflexivity
  | |- cap_saturating _ = true => reflexivity
  | |- dir_sub _ = true => reflexivity
  | |- dir_qual _ = true => reflexivity
  | |- dir_ver _ = true => reflexivity
  | |- mem _ (key_special _) = false => vm_compute; reflexivity
  | |- fold_blocks _ = true => vm_compute; reflexivity
  | |- fold_ascii _ = true => vm_compute; reflexivity
  | |- forallb _ (type_special _) = true => vm_compute; reflexivity
  end.
