(* C06 No input makes the library panic: every panic site of the crate's own source is unreachable, or is one of the three documented ones *)
Load "coq/props/Hdr".
From PM Require Import C06 Exec Final.
Lemma src_cfg_ok : cfg_ok cfg. Proof. sc. Qed.
Theorem C06_index_after_found : forall q k j, QInv cfg q -> valid_key cfg k = true -> search_from cfg q k 0 = Found j -> (j < length q)%nat.
Proof. apply search_found_in_bounds; sc. Qed.
Print Assumptions C06_index_after_found.
Theorem C06_insert_position : forall q k j, QInv cfg q -> valid_key cfg k = true -> search_from cfg q k 0 = NotFound j -> (j <= length q)%nat.
Proof. apply search_notfound_in_bounds; sc. Qed.
Print Assumptions C06_insert_position.
Theorem C06_checksum_capacity : forall m, cs_cap_panics cfg m = false.
Proof. intros m. apply cap_no_underflow. side. Qed.
Print Assumptions C06_checksum_capacity.
Theorem C06_display_generic : forall t p t' p', build cfg G t p = Ok (t', p') -> format_panics cfg G t' = false.
Proof. apply display_no_panic_G. Qed.
Print Assumptions C06_display_generic.
Theorem C06_display_typed : forall t, format_panics cfg P t = false.
Proof. apply display_no_panic_P. Qed.
Print Assumptions C06_display_typed.
(* the keys of the typed qualifiers shipped with the crate are valid, so insert_typed does not panic for them *)
Theorem C06_typed_keys_valid : valid_key cfg s_checksum = true /\ valid_key cfg s_repo = true /\ Forall (fun k => valid_key cfg k = true) (typed_keys cfg) /\ length (typed_keys cfg) = 7%nat.
Proof. split; [vm_compute; reflexivity|]. split; [vm_compute; reflexivity|]. split; [|reflexivity]. apply Forall_forall. apply forallb_forall. vm_compute. reflexivity. Qed.
Print Assumptions C06_typed_keys_valid.
(* the comparator used by the binary search is total: partial_cmp never yields None *)
Theorem C06_comparator_total : forall a b, exists c, qkey_cmp cfg a b = c.
Proof. intros a b. eexists. reflexivity. Qed.
Print Assumptions C06_comparator_total.
(* the executed operation languages (what the correspondence check runs against the crate) panic only where documented *)
Theorem C06_qualifiers_panic_only_index_of_absent_key : forall q o, QInv cfg q -> snd (qxstep cfg q o) = XoPanic ->
  (exists k, (o = QIdx k \/ exists v, o = QIdxSet k v) /\ q_get cfg q k = None) \/ (exists i v, o = QTKIns i v /\ (length (typed_keys cfg) <= i)%nat) \/ (exists k v, o = QTUIns k v /\ valid_key cfg k = false).
Proof. apply qxstep_panics_only_when_documented; try sc; vm_compute; reflexivity. Qed.
Print Assumptions C06_qualifiers_panic_only_index_of_absent_key.
Theorem C06_builder_calls_never_panic : forall (T : Type) (b : T * parts) o, xstep cfg b o = Err StopPanic -> exists k v, o = XTyped k v /\ valid_key cfg k = false.
Proof. intros T. apply xstep_never_panics; try sc; vm_compute; reflexivity. Qed.
Print Assumptions C06_builder_calls_never_panic.
Theorem C06_checksum_text_never_panics : forall m, cs_text_of cfg m <> CsPanic.
Proof. apply cs_text_never_panics. sc. Qed.
Print Assumptions C06_checksum_text_never_panics.
