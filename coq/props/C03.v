(* C03 Canonical string has exactly the documented shape and escaping *)
Load "coq/props/Hdr".
From PM Require Import C03 Quals More.
Lemma src_cfg_ok : cfg_ok cfg. Proof. sc. Qed.
Theorem C03_escape_sets : forall (p : pos) (b : byte), should_encode (set_of cfg p) b = spec_escaped p b.
Proof. apply C03_sets. vm_compute. reflexivity. Qed.
Print Assumptions C03_escape_sets.
Theorem C03_upper_hex : forall (S : bytes) (b : byte), enc_byte S b = [b] \/ enc_byte S b = [c_pct; hexU (bn b / 16); hexU (bn b mod 16)].
Proof. exact C03_hex. Qed.
Print Assumptions C03_upper_hex.
Theorem C03_shape_generic : forall t p, format cfg G t p =
  s_pkg ++ t ++ [c_slash]
  ++ (if is_empty (p_ns p) then [] else penc (set_of cfg PNs) (p_ns p) ++ [c_slash])
  ++ penc (set_of cfg PName) (p_name p)
  ++ (if is_empty (p_ver p) then [] else c_at :: penc (set_of cfg PVer) (p_ver p))
  ++ match p_quals p with [] => [] | _ => c_qm :: join c_amp (map (fun kv => penc (set_of cfg PQual) (fst kv) ++ c_eq :: penc (set_of cfg PQual) (snd kv)) (p_quals p)) end
  ++ (if is_empty (p_sub p) then [] else c_hash :: penc (set_of cfg PSub) (p_sub p)).
Proof. intros t p. rewrite (C03_shape cfg G t p). destruct (p_quals p); reflexivity. Qed.
Print Assumptions C03_shape_generic.
Theorem C03_shape_typed : forall t p, format cfg P t p =
  s_pkg ++ pt_name t ++ [c_slash]
  ++ (if is_empty (p_ns p) then [] else penc (set_of cfg PNs) (p_ns p) ++ [c_slash])
  ++ penc (set_of cfg PName) (p_name p)
  ++ (if is_empty (p_ver p) then [] else c_at :: penc (set_of cfg PVer) (p_ver p))
  ++ match p_quals p with [] => [] | _ => c_qm :: join c_amp (map (fun kv => penc (set_of cfg PQual) (fst kv) ++ c_eq :: penc (set_of cfg PQual) (snd kv)) (p_quals p)) end
  ++ (if is_empty (p_sub p) then [] else c_hash :: penc (set_of cfg PSub) (p_sub p)).
Proof. intros t p. rewrite (C03_shape cfg P t p). destruct (p_quals p); reflexivity. Qed.
Print Assumptions C03_shape_typed.
Theorem C03_component_printable : forall p x, Forall (fun b => printable b = true) (penc (set_of cfg p) x).
Proof. apply penc_printable. vm_compute. reflexivity. Qed.
Print Assumptions C03_component_printable.
(* the whole canonical string is printable ASCII, for every type parameter whose type string is valid *)
Theorem C03_whole_string_printable : forall (T E : Type) (sh : shape T E) t p, valid_type cfg (sh_type sh t) = true -> Forall (fun b => printable b = true) (format cfg sh t p).
Proof. intros T E sh t p. apply C03_printable; vm_compute; reflexivity. Qed.
Print Assumptions C03_whole_string_printable.
(* the key=value pairs are in strictly ascending key order for every collection satisfying the invariant (C04, C11) *)
Theorem C03_pairs_in_ascending_key_order : forall q, QInv cfg q -> Sorted.StronglySorted (fun a b => bcmp a b = Lt) (map fst q).
Proof. apply C03_keys_ascending. Qed.
Print Assumptions C03_pairs_in_ascending_key_order.
