(* C07 Namespace and subpath structure cannot be forged or climb upwards *)
Load "coq/props/Hdr".
From PM Require Import Segs C07.
Lemma src_cfg_ok : cfg_ok cfg. Proof. sc. Qed.
Theorem C07_generic_purl : forall s t p, parse cfg G s = Ok (t, p) ->
  exists r, WFr cfg r /\ s = asm r
   /\ p_ns p = join c_slash (map pdecode (raw_ns_pieces r)) /\ Forall good_ns_seg (map pdecode (raw_ns_pieces r))
   /\ p_sub p = join c_slash (map pdecode (raw_sub_pieces r)) /\ Forall good_sub_seg (map pdecode (raw_sub_pieces r)).
Proof. intros s t p. exact (C07 cfg G s t p (G_keeps cfg)). Qed.
Print Assumptions C07_generic_purl.
Theorem C07_typed_purl : forall s t p, parse cfg P s = Ok (t, p) ->
  exists r, WFr cfg r /\ s = asm r
   /\ p_ns p = join c_slash (map pdecode (raw_ns_pieces r)) /\ Forall good_ns_seg (map pdecode (raw_ns_pieces r))
   /\ p_sub p = join c_slash (map pdecode (raw_sub_pieces r)) /\ Forall good_sub_seg (map pdecode (raw_sub_pieces r)).
Proof. intros s t p. exact (C07 cfg P s t p (P_keeps cfg)). Qed.
Print Assumptions C07_typed_purl.
(* the joined-path reading (theories/Climb.v): resolving the reported subpath from any directory stack d pushes exactly the
   reported segments and never pops, so d is never left; None would be a climb out of the base *)
From PM Require Import Climb.
Theorem C07_no_climb_generic : forall s t p, parse cfg G s = Ok (t, p) ->
  exists segs, Forall good_sub_seg segs /\ p_sub p = join c_slash segs /\ pops segs = 0
    /\ forall d, walk d (split c_slash (p_sub p)) = Some (rev segs ++ d).
Proof. intros s t p. exact (C07_no_climb cfg G s t p (G_keeps cfg)). Qed.
Print Assumptions C07_no_climb_generic.
Theorem C07_no_climb_typed : forall s t p, parse cfg P s = Ok (t, p) ->
  exists segs, Forall good_sub_seg segs /\ p_sub p = join c_slash segs /\ pops segs = 0
    /\ forall d, walk d (split c_slash (p_sub p)) = Some (rev segs ++ d).
Proof. intros s t p. exact (C07_no_climb cfg P s t p (P_keeps cfg)). Qed.
Print Assumptions C07_no_climb_typed.
Theorem C07_ns_split_generic : forall s t p, parse cfg G s = Ok (t, p) -> p_ns p <> [] ->
  exists segs, segs <> [] /\ Forall good_ns_seg segs /\ split c_slash (p_ns p) = segs.
Proof. intros s t p. exact (C07_ns_split cfg G s t p (G_keeps cfg)). Qed.
Print Assumptions C07_ns_split_generic.
Theorem C07_ns_split_typed : forall s t p, parse cfg P s = Ok (t, p) -> p_ns p <> [] ->
  exists segs, segs <> [] /\ Forall good_ns_seg segs /\ split c_slash (p_ns p) = segs.
Proof. intros s t p. exact (C07_ns_split cfg P s t p (P_keeps cfg)). Qed.
Print Assumptions C07_ns_split_typed.
