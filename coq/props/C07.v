(* C07 Namespace and subpath structure cannot be forged or climb upwards *)
Load "coq/props/Hdr".
From PM Require Import Segs C07.
Lemma src_cfg_ok : cfg_ok cfg. Proof. sc. Qed.
Theorem C07_generic_purl : forall s t p, parse cfg G s = Ok (t, p) ->
  exists r, WFr cfg r /\ s = asm r
   /\ p_ns p = join c_slash (map pdecode (raw_ns_pieces r)) /\ Forall good_ns_seg (map pdecode (raw_ns_pieces r))
   /\ p_sub p = join c_slash (map pdecode (raw_sub_pieces r)) /\ Forall good_sub_seg (map pdecode (raw_sub_pieces r)).
Proof. intros s t p. exact (C07 cfg G s t p (G_keeps cfg)). Qed.
Print Assumptions C07_generic_purl.
Theorem C07_typed_purl : forall s t p, parse cfg P s = Ok (t, p) ->
  exists r, WFr cfg r /\ s = asm r
   /\ p_ns p = join c_slash (map pdecode (raw_ns_pieces r)) /\ Forall good_ns_seg (map pdecode (raw_ns_pieces r))
   /\ p_sub p = join c_slash (map pdecode (raw_sub_pieces r)) /\ Forall good_sub_seg (map pdecode (raw_sub_pieces r)).
Proof. intros s t p. exact (C07 cfg P s t p (P_keeps cfg)). Qed.
Print Assumptions C07_typed_purl.
