(* C07 Namespace and subpath structure cannot be forged or climb upwards *)
From Coq Require Import List NArith Bool.
From PM Require Import Base Text Model Skeleton Segs C07 Tables Consts.
Import ListNotations.
Notation cfg := src_cfg. Notation G := (string_shape src_cfg). Notation P := (ptype_shape src_cfg).
Theorem C07_generic_purl : forall s t p, parse cfg G s = Ok (t, p) ->
  exists r, WFr cfg r /\ s = asm r
   /\ p_ns p = join c_slash (map pdecode (raw_ns_pieces r)) /\ Forall good_ns_seg (map pdecode (raw_ns_pieces r))
   /\ p_sub p = join c_slash (map pdecode (raw_sub_pieces r)) /\ Forall good_sub_seg (map pdecode (raw_sub_pieces r)).
Proof. intros s t p. exact (C07 cfg G s t p (G_keeps cfg)). Qed.
Print Assumptions C07_generic_purl.
Theorem C07_typed_purl : forall s t p, parse cfg P s = Ok (t, p) ->
  exists r, WFr cfg r /\ s = asm r
   /\ p_ns p = join c_slash (map pdecode (raw_ns_pieces r)) /\ Forall good_ns_seg (map pdecode (raw_ns_pieces r))
   /\ p_sub p = join c_slash (map pdecode (raw_sub_pieces r)) /\ Forall good_sub_seg (map pdecode (raw_sub_pieces r)).
Proof. intros s t p. exact (C07 cfg P s t p (P_keeps cfg)). Qed.
Print Assumptions C07_typed_purl.
