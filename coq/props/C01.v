(* C01 Canonical round trip: parse -> format -> parse is a fixpoint (both instantiations) *)
Load "coq/props/Hdr".
From PM Require Import BuildG C01P.
Lemma src_rt : rt_ok cfg. Proof. prove_rt. Qed.
Lemma src_cfg_ok : cfg_ok cfg. Proof. sc. Qed.
Theorem C01_generic_purl : forall s t p, parse cfg G s = Ok (t, p) ->
  format_panics cfg G t = false /\ parse cfg G (format cfg G t p) = Ok (t, p).
Proof. intros s t p. apply (C01_G cfg src_rt); sc. Qed.
Print Assumptions C01_generic_purl.
Theorem C01_typed_purl : forall s t p, parse cfg P s = Ok (t, p) ->
  format_panics cfg P t = false /\ parse cfg P (format cfg P t p) = Ok (t, p).
Proof. intros s t p. apply (C01_P cfg src_rt); sc. Qed.
Print Assumptions C01_typed_purl.
(* the identical string again *)
Theorem C01_same_string_G : forall s t p t' p', parse cfg G s = Ok (t, p) -> parse cfg G (format cfg G t p) = Ok (t', p') ->
  format cfg G t' p' = format cfg G t p.
Proof. intros s t p t' p' H H'. destruct (C01_generic_purl s t p H) as [_ E]. rewrite E in H'. injection H' as <- <-. reflexivity. Qed.
Print Assumptions C01_same_string_G.
Theorem C01_same_string_P : forall s t p t' p', parse cfg P s = Ok (t, p) -> parse cfg P (format cfg P t p) = Ok (t', p') ->
  format cfg P t' p' = format cfg P t p.
Proof. intros s t p t' p' H H'. destruct (C01_typed_purl s t p H) as [_ E]. rewrite E in H'. injection H' as <- <-. reflexivity. Qed.
Print Assumptions C01_same_string_P.
(* non-vacuity: pkg:NPM/%40a/b@1?K=v&checksum=b:00,A:1F#x/./y is accepted *)
Definition ex1 : bytes := map nb [112;107;103;58;78;80;77;47;37;52;48;97;47;98;64;49;63;75;61;118;38;99;104;101;99;107;115;117;109;61;98;58;48;48;44;65;58;49;70;35;120;47;46;47;121]%N.
Definition ex1_g := Eval vm_compute in parse cfg G ex1.
Definition ex1_p := Eval vm_compute in parse cfg P ex1.
Example C01_nonvacuous : parse cfg G ex1 = ex1_g /\ parse cfg P ex1 = ex1_p /\ (match ex1_g with Ok _ => True | Err _ => False end) /\ (match ex1_p with Ok _ => True | Err _ => False end).
Proof. repeat split; vm_compute; reflexivity. Qed.
