(* C01 Canonical round trip: parse -> format -> parse is a fixpoint (both instantiations) *)
From Coq Require Import List NArith Bool.
From PM Require Import Base Text Model Roundtrip BuildG C01P Tables Consts Conds.
Import ListNotations.
Notation cfg := src_cfg. Notation G := (string_shape src_cfg). Notation P := (ptype_shape src_cfg).
Lemma src_rt : rt_ok cfg. Proof. apply conds_rt_ok. vm_compute. reflexivity. Qed.
Theorem C01_generic_purl : forall s t p, parse cfg G s = Ok (t, p) ->
  format_panics cfg G t = false /\ parse cfg G (format cfg G t p) = Ok (t, p).
Proof. intros s t p. apply (C01_G cfg src_rt); vm_compute; reflexivity. Qed.
Print Assumptions C01_generic_purl.
Theorem C01_typed_purl : forall s t p, parse cfg P s = Ok (t, p) ->
  format_panics cfg P t = false /\ parse cfg P (format cfg P t p) = Ok (t, p).
Proof. intros s t p. apply (C01_P cfg src_rt); vm_compute; reflexivity. Qed.
Print Assumptions C01_typed_purl.
(* the identical string again *)
Theorem C01_same_string_G : forall s t p t' p', parse cfg G s = Ok (t, p) -> parse cfg G (format cfg G t p) = Ok (t', p') ->
  format cfg G t' p' = format cfg G t p.
Proof. intros s t p t' p' H H'. destruct (C01_generic_purl s t p H) as [_ E]. rewrite E in H'. injection H' as <- <-. reflexivity. Qed.
Print Assumptions C01_same_string_G.
Theorem C01_same_string_P : forall s t p t' p', parse cfg P s = Ok (t, p) -> parse cfg P (format cfg P t p) = Ok (t', p') ->
  format cfg P t' p' = format cfg P t p.
Proof. intros s t p t' p' H H'. destruct (C01_typed_purl s t p H) as [_ E]. rewrite E in H'. injection H' as <- <-. reflexivity. Qed.
Print Assumptions C01_same_string_P.
(* non-vacuity: pkg:NPM/%40a/b@1?K=v&checksum=b:00,A:1F#x/./y is accepted *)
Definition ex1 : bytes := map nb [112;107;103;58;78;80;77;47;37;52;48;97;47;98;64;49;63;75;61;118;38;99;104;101;99;107;115;117;109;61;98;58;48;48;44;65;58;49;70;35;120;47;46;47;121]%N.
Example C01_nonvacuous : exists t p, parse cfg G ex1 = Ok (t, p) /\ exists t' p', parse cfg P ex1 = Ok (t', p').
Proof. vm_compute. do 2 eexists. split; [reflexivity|]. do 2 eexists. reflexivity. Qed.
