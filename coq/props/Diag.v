(* prints, for the configuration read from the source, every named side condition that is false *)
From Coq Require Import List NArith Bool String.
From PM Require Import Base Text Model Tables Consts Conds.
Import ListNotations.
Definition failing_rt := Eval vm_compute in failing (conds_rt src_cfg).
Definition failing_tbl := Eval vm_compute in failing (conds_tbl src_cfg).
Definition failing_scan := Eval vm_compute in failing (cond_scan src_cfg).
Definition failing_maven := Eval vm_compute in failing (cond_maven src_cfg).
Print failing_rt. Print failing_tbl. Print failing_scan. Print failing_maven.
Definition scan_misses := Eval vm_compute in
  map fst (filter (fun e => negb (scan_hit src_cfg (fst e)) && negb (Model.leqb (lower_c src_cfg (fst e)) [fst e])) (lower_tbl src_cfg)).
Print scan_misses.
