(* C16 Serde form is exactly the string form. Model: Serialize = collect_str(Display), Deserialize = visit_str then from_str, no other visit method. *)
Load "coq/props/Hdr".
From PM Require Import BuildG C01P C05 C16.
Lemma src_rt : rt_ok cfg. Proof. prove_rt. Qed.
Lemma src_cfg_ok : cfg_ok cfg. Proof. sc. Qed.
Theorem C16_deserialize_is_parse : forall (T E : Type) (sh : shape T E) e f s, de cfg sh e (VStr f s) = parse cfg sh s.
Proof. intros. apply C16_string_iff. Qed.
Print Assumptions C16_deserialize_is_parse.
Theorem C16_non_strings_refused : forall (T E : Type) (sh : shape T E) e, de cfg sh e VOther = Err e.
Proof. intros. apply C16_other. Qed.
Print Assumptions C16_non_strings_refused.
Theorem C16_byte_arrays_refused : forall (T E : Type) (sh : shape T E) e b, de cfg sh e (VBytes b) = Err e.
Proof. intros. apply C16_bytes. Qed.
Print Assumptions C16_byte_arrays_refused.
(* a char value reaches visit_str as a one-character string (serde's default visit_char), and is refused like every string without the scheme *)
Theorem C16_char_values_refused : forall (T E : Type) (sh : shape T E) e c, de cfg sh e (VChar c) = Err (sh_inj sh EScheme).
Proof. intros T E sh e c. rewrite C16_char. apply C05_scheme. apply strip_pkg_enc1. Qed.
Print Assumptions C16_char_values_refused.
Theorem C16_round_trip_generic : forall e s t p, parse cfg G s = Ok (t, p) -> ser cfg G (t, p) = VStr Owned (format cfg G t p) /\ de cfg G e (ser cfg G (t, p)) = Ok (t, p).
Proof.
  intros e s t p H. split; [reflexivity|]. apply C16_roundtrip. cbn [fst snd].
  refine (proj2 (C01_G cfg src_rt _ _ _ _ _ s t p H)); sc.
Qed.
Print Assumptions C16_round_trip_generic.
Theorem C16_round_trip_typed : forall e s t p, parse cfg P s = Ok (t, p) -> ser cfg P (t, p) = VStr Owned (format cfg P t p) /\ de cfg P e (ser cfg P (t, p)) = Ok (t, p).
Proof.
  intros e s t p H. split; [reflexivity|]. apply C16_roundtrip. cbn [fst snd].
  refine (proj2 (C01_P cfg src_rt _ _ _ _ _ _ _ _ s t p H)); sc.
Qed.
Print Assumptions C16_round_trip_typed.
