(* C14 User-supplied package types: call protocol and post-hook validation.  Every theorem quantifies over ALL shapes
   (any from_str, any finish hook): these are statements about all programs a user can plug in. *)
Load "coq/props/Hdr".
From PM Require Import C14 Assemble Exec More.
Lemma src_cfg_ok : cfg_ok cfg. Proof. sc. Qed.
Theorem C14_log_erases : forall (T E : Type) (sh : shape T E) s, snd (parse_w cfg sh s) = parse cfg sh s.
Proof. intros T E sh. apply C14_erase. Qed.
Print Assumptions C14_log_erases.
(* at most one conversion, with a valid type substring; the hook at most once and only after the conversion succeeded *)
Theorem C14_call_protocol : forall (T E : Type) (sh : shape T E) s,
  match fst (parse_w cfg sh s) with
  | [] => True
  | [CFromStr ty] => valid_type cfg ty = true
  | [CFromStr ty; CFinish t p] => valid_type cfg ty = true /\ sh_from_str sh ty = Ok t
  | _ => False end.
Proof. intros T E sh. apply C14_calls. Qed.
Print Assumptions C14_call_protocol.
Theorem C14_argument_as_written : forall (T E : Type) (sh : shape T E) s ty rest, fst (parse_w cfg sh s) = CFromStr ty :: rest -> exists r, s = asm r /\ r_ty r = ty.
Proof. intros T E sh. apply C14_arg. Qed.
Print Assumptions C14_argument_as_written.
Theorem C14_build_calls_hook_once : forall (T E : Type) (sh : shape T E) t p, fst (build_w cfg sh t p) = [CFinish t p].
Proof. intros T E sh. apply C14_build_once. Qed.
Print Assumptions C14_build_calls_hook_once.
Theorem C14_hook_error_unchanged : forall (T E : Type) (sh : shape T E) t p e, sh_finish sh t p = Err e -> build cfg sh t p = Err e.
Proof. intros T E sh. apply C14_finish_error. Qed.
Print Assumptions C14_hook_error_unchanged.
Theorem C14_conversion_error_unchanged : forall (T E : Type) (sh : shape T E) r e, WFr cfg r -> (exists d, oget (r_sub r) decode_subpath = Ok d) ->
  (exists d, (match r_q r with Some qs => decode_quals cfg (split c_amp qs) [] | None => Ok [] end) = Ok d) ->
  sh_from_str sh (r_ty r) = Err e -> parse cfg sh (asm r) = Err e.
Proof. intros T E sh r e. apply C14_from_str_error. exact src_cfg_ok. Qed.
Print Assumptions C14_conversion_error_unchanged.
(* the generic checks run after the hook: an emptied name is refused, whatever else the hook did *)
Theorem C14_emptied_name_refused : forall (T E : Type) (sh : shape T E) t p t1 p1, sh_finish sh t p = Ok (t1, p1) -> p_name p1 = [] ->
  build cfg sh t p = Err (sh_inj sh (EMissing FName)).
Proof. intros T E sh t p t1 p1 H Hn. unfold build. rewrite H, Hn. reflexivity. Qed.
Print Assumptions C14_emptied_name_refused.
(* whatever the hook writes into namespace, name, version and subpath is what the PURL reports *)
Theorem C14_fields_as_hook_left_them : forall (T E : Type) (sh : shape T E) t p t1 p1 t' p', sh_finish sh t p = Ok (t1, p1) -> build cfg sh t p = Ok (t', p') ->
  t' = t1 /\ p_ns p' = p_ns p1 /\ p_name p' = p_name p1 /\ p_ver p' = p_ver p1 /\ p_sub p' = p_sub p1.
Proof.
  intros T E sh t p t1 p1 t' p' H. unfold build. rewrite H. destruct (is_empty (p_name p1)); [discriminate|].
  destruct (q_get _ _ _); [|intros [= <- <-]; repeat split; reflexivity].
  destruct (cs_try_from _ _); [|discriminate]. destruct (cs_to_text _); [|discriminate]. destruct (q_insert _ _ _ _); [|discriminate].
  intros [= <- <-]. repeat split; reflexivity.
Qed.
Print Assumptions C14_fields_as_hook_left_them.
(* empty-valued qualifiers removed, checksum canonicalised, for any sane hook *)
Theorem C14_post_hook_invariant : forall (T E : Type) (sh : shape T E) t p t' p', hook_sane cfg sh -> Quals.QInv cfg (p_quals p) -> vals_utf8 (p_quals p) ->
  build cfg sh t p = Ok (t', p') -> Inv cfg p'.
Proof. intros T E sh t p t' p'. apply (C04_build cfg); sc. Qed.
Print Assumptions C14_post_hook_invariant.
(* every member of the family of user-written shapes used by the correspondence check satisfies the hypothesis of the invariant theorem *)
Theorem C14_family_members_are_sane : forall c r hks, hook_sane cfg (fam_shape cfg c r hks).
Proof. apply fam_sane; sc. Qed.
Print Assumptions C14_family_members_are_sane.
