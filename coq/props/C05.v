(* C05 Invalid input is refused, with the matching error, however it is spelled *)
Load "coq/props/Hdr".
From PM Require Import Lemmas Segs C02 Lang C05 C05b C08rel Final Alpha.
Lemma src_cfg_ok : cfg_ok cfg. Proof. sc. Qed.
(* never accepted: an accepted string is a well-formed skeleton all of whose checks succeed (every shape) *)
Theorem C05_never_accepted : forall (T E : Type) (sh : shape T E) s x, parse cfg sh s = Ok x -> exists r, WFr cfg r /\ s = asm r /\ checks cfg sh r = Ok x.
Proof. intros T E sh s x. apply parse_sound. Qed.
Print Assumptions C05_never_accepted.
(* refusal in general: a string that is not a legal spelling (C02's spelling_ok: well-formed skeleton, valid type, every piece valid UTF-8 without a
   hidden '/', no escaped dot segment, every qualifier item `valid key = value` with no key repeated after a non-empty value) is refused by every shape *)
Theorem C05_not_a_legal_spelling_is_refused : forall (T E : Type) (sh : shape T E) s,
  (forall sp, spelling_ok cfg sp -> s <> asm (raw_of sp)) -> exists e, parse cfg sh s = Err e.
Proof. intros T E sh. apply (not_a_spelling_is_refused cfg); sc. Qed.
Print Assumptions C05_not_a_legal_spelling_is_refused.
(* the first failing check, in source order, is the error returned *)
Theorem C05_error_order : forall (T E : Type) (sh : shape T E) r, WFr cfg r -> parse cfg sh (asm r) = checks cfg sh r.
Proof. intros T E sh r. apply C05_first. exact src_cfg_ok. Qed.
Print Assumptions C05_error_order.
Theorem C05_no_scheme : forall (T E : Type) (sh : shape T E) s, strip_prefix s_pkg s = None -> parse cfg sh s = Err (sh_inj sh EScheme).
Proof. intros T E sh. apply C05_scheme. Qed.
Print Assumptions C05_no_scheme.
Theorem C05_missing_type : forall (T E : Type) (sh : shape T E) lead q sub, noco c_hash sub -> (sub = None -> noco c_hash q) -> noco c_qm q -> front_ok cfg q sub ->
  parse cfg sh (asm0 lead [] q sub) = Err (sh_inj sh (EMissing FType)).
Proof. intros T E sh. apply C05_no_type; sc. Qed.
Print Assumptions C05_missing_type.
Theorem C05_missing_name : forall (T E : Type) (sh : shape T E) lead body q sub, body <> [] -> ~ In c_slash body -> noco c_hash sub ->
  (sub = None -> ~ In c_hash body /\ noco c_hash q) -> noco c_qm q -> (q = None -> ~ In c_qm body) -> front_ok cfg q sub ->
  parse cfg sh (asm0 lead body q sub) = Err (sh_inj sh (EMissing FName)).
Proof. intros T E sh. apply C05_no_name; sc. Qed.
Print Assumptions C05_missing_name.
Theorem C05_invalid_type : forall (T E : Type) (sh : shape T E) lead ty rest q sub, ty <> [] -> ~ In c_slash ty -> valid_type cfg ty = false -> noco c_hash sub ->
  (sub = None -> ~ In c_hash (ty ++ c_slash :: rest) /\ noco c_hash q) -> noco c_qm q -> (q = None -> ~ In c_qm (ty ++ c_slash :: rest)) -> front_ok cfg q sub ->
  parse cfg sh (asm0 lead (ty ++ c_slash :: rest) q sub) = Err (sh_inj sh EInvalidType).
Proof. intros T E sh. apply C05_bad_type; sc. Qed.
Print Assumptions C05_invalid_type.
Theorem C05_subpath_error : forall (T E : Type) (sh : shape T E) r e, WFr cfg r -> oget (r_sub r) decode_subpath = Err e -> parse cfg sh (asm r) = Err (sh_inj sh e).
Proof. intros T E sh r e. apply C05_only_sub. exact src_cfg_ok. Qed.
Print Assumptions C05_subpath_error.
Theorem C05_version_error : forall (T E : Type) (sh : shape T E) r e, WFr cfg r -> (exists d, oget (r_sub r) decode_subpath = Ok d) ->
  (exists d, (match r_q r with Some qs => decode_quals cfg (split c_amp qs) [] | None => Ok [] end) = Ok d) ->
  (exists t, sh_from_str sh (r_ty r) = Ok t) -> oget (r_ver r) decode = Err e -> parse cfg sh (asm r) = Err (sh_inj sh e).
Proof. intros T E sh r e. apply C05_only_version. exact src_cfg_ok. Qed.
Print Assumptions C05_version_error.
(* component decoders: each listed fault yields the listed error *)
Theorem C05_hidden_slash_or_bad_utf8_in_namespace : forall good b rest,
  Forall (fun s => utf8_valid (pdecode s) = true /\ ~ In c_slash (pdecode s)) (filter nonempty good) -> b <> [] ->
  utf8_valid (pdecode b) = false \/ In c_slash (pdecode b) ->
  rebuild_segs (good ++ b :: rest) is_empty (fun d => mem c_slash d) [] = Err EInvalidEscape.
Proof. apply ns_hidden_slash. Qed.
Print Assumptions C05_hidden_slash_or_bad_utf8_in_namespace.
Theorem C05_qualifier_without_eq : forall it rest acc, ~ In c_eq it -> decode_quals cfg (it :: rest) acc = Err EInvalidQualifier.
Proof. apply quals_item_without_eq. Qed.
Print Assumptions C05_qualifier_without_eq.
Theorem C05_qualifier_invalid_key : forall k v rest acc, ~ In c_eq k -> valid_key cfg k = false -> decode_quals cfg ((k ++ c_eq :: v) :: rest) acc = Err EInvalidQualifier.
Proof. apply quals_invalid_key. Qed.
Print Assumptions C05_qualifier_invalid_key.
Theorem C05_qualifier_repeated_key : forall k v rest acc w, QInv cfg acc -> valid_key cfg k = true -> ~ In c_eq k -> q_get cfg acc k = Some w ->
  decode_quals cfg ((k ++ c_eq :: v) :: rest) acc = Err EInvalidQualifier.
Proof. apply quals_repeated_key; sc. Qed.
Print Assumptions C05_qualifier_repeated_key.
Theorem C05_qualifier_bad_escape : forall k v rest acc, QInv cfg acc -> valid_key cfg k = true -> ~ In c_eq k -> q_get cfg acc k = None -> utf8_valid (pdecode v) = false ->
  decode_quals cfg ((k ++ c_eq :: v) :: rest) acc = Err EInvalidEscape.
Proof. apply quals_bad_escape; sc. Qed.
Print Assumptions C05_qualifier_bad_escape.
Theorem C05_checksum_bad_hex : forall m e, In e m -> hex_ok (snd e) = false -> cs_to_text m = Err EInvalidQualifier.
Proof. apply checksum_bad_hex. Qed.
Print Assumptions C05_checksum_bad_hex.
(* typed PURL: a well-formed but unknown type is refused whenever the type-agnostic parser accepts *)
Theorem C05_unsupported_type : forall s ty g, parse cfg G s = Ok (ty, g) -> (forall r, s = asm r -> pt_from_str cfg (r_ty r) = None) -> parse cfg P s = Err PUnsupportedType.
Proof. apply C08_unknown. exact src_cfg_ok. Qed.
Print Assumptions C05_unsupported_type.
Theorem C05_maven_needs_namespace : forall p, maven_ns_missing cfg (p_ns p) = true -> build cfg P Maven p = Err (PMissing FNamespace).
Proof. intros p H. unfold build. cbn [sh_finish ptype_shape pt_finish]. rewrite H. reflexivity. Qed.
Print Assumptions C05_maven_needs_namespace.
(* the remaining "when that defect is the only one" corollaries: qualifiers, namespace, name; and build() decides when everything before it is fine *)
Theorem C05_qualifiers_error : forall (T E : Type) (sh : shape T E) r e, WFr cfg r -> (exists d, oget (r_sub r) decode_subpath = Ok d) ->
  (match r_q r with Some qs => decode_quals cfg (split c_amp qs) [] | None => Ok [] end) = Err e -> parse cfg sh (asm r) = Err (sh_inj sh e).
Proof. intros T E sh r e. apply C05_only_quals. exact src_cfg_ok. Qed.
Print Assumptions C05_qualifiers_error.
Theorem C05_namespace_error : forall (T E : Type) (sh : shape T E) r e, WFr cfg r -> (exists d, oget (r_sub r) decode_subpath = Ok d) ->
  (exists d, (match r_q r with Some qs => decode_quals cfg (split c_amp qs) [] | None => Ok [] end) = Ok d) ->
  (exists t, sh_from_str sh (r_ty r) = Ok t) -> (exists d, oget (r_ver r) decode = Ok d) ->
  oget (r_ns r) decode_namespace = Err e -> parse cfg sh (asm r) = Err (sh_inj sh e).
Proof. intros T E sh r e. apply C05_only_namespace. exact src_cfg_ok. Qed.
Print Assumptions C05_namespace_error.
Theorem C05_name_error : forall (T E : Type) (sh : shape T E) r e, WFr cfg r -> (exists d, oget (r_sub r) decode_subpath = Ok d) ->
  (exists d, (match r_q r with Some qs => decode_quals cfg (split c_amp qs) [] | None => Ok [] end) = Ok d) ->
  (exists t, sh_from_str sh (r_ty r) = Ok t) -> (exists d, oget (r_ver r) decode = Ok d) -> (exists d, oget (r_ns r) decode_namespace = Ok d) ->
  decode (r_name r) = Err e -> parse cfg sh (asm r) = Err (sh_inj sh e).
Proof. intros T E sh r e. apply C05_only_name. exact src_cfg_ok. Qed.
Print Assumptions C05_name_error.
Theorem C05_then_build_decides : forall (T E : Type) (sh : shape T E) r sub q t ver ns name, WFr cfg r -> oget (r_sub r) decode_subpath = Ok sub ->
  (match r_q r with Some qs => decode_quals cfg (split c_amp qs) [] | None => Ok [] end) = Ok q ->
  sh_from_str sh (r_ty r) = Ok t -> oget (r_ver r) decode = Ok ver -> oget (r_ns r) decode_namespace = Ok ns -> decode (r_name r) = Ok name ->
  parse cfg sh (asm r) = build cfg sh t {| p_ns := ns; p_name := name; p_ver := ver; p_quals := q; p_sub := sub |}.
Proof. intros T E sh r sub q t ver ns name. apply C05_only_build. exact src_cfg_ok. Qed.
Print Assumptions C05_then_build_decides.
(* build() refuses an empty name and a malformed checksum, and nothing else, after the hook *)
Theorem C05_build_refusals : forall (T E : Type) (sh : shape T E) t p, (exists x, build cfg sh t p = Ok x) <->
  exists t1 p1, sh_finish sh t p = Ok (t1, p1) /\ p_name p1 <> [] /\ cs_well_formed cfg (p_quals p1).
Proof. intros T E sh t p. apply build_succeeds_iff. sc. Qed.
Print Assumptions C05_build_refusals.
(* the subpath loop: the first kept piece that is not valid UTF-8, hides a '/', or decodes to a dot segment (an encoded '.' or '..') is refused *)
Theorem C05_hidden_slash_encoded_dot_or_bad_utf8_in_subpath : forall good b rest,
  Forall (fun s => utf8_valid (pdecode s) = true /\ (mem c_slash (pdecode s) || is_dotseg (pdecode s)) = false) (kept (fun s => is_empty s || is_dotseg s) good) ->
  (is_empty b || is_dotseg b) = false -> (utf8_valid (pdecode b) = false \/ (mem c_slash (pdecode b) || is_dotseg (pdecode b)) = true) ->
  rebuild_segs (good ++ b :: rest) (fun s => is_empty s || is_dotseg s) (fun d => mem c_slash d || is_dotseg d) [] = Err EInvalidEscape.
Proof. intros good b rest H1 H2 H3. apply rebuild_segs_first_bad; assumption. Qed.
Print Assumptions C05_hidden_slash_encoded_dot_or_bad_utf8_in_subpath.
Theorem C05_subpath_is_that_loop : forall s, decode_subpath s = rebuild_segs (split c_slash (trim c_slash s)) (fun s => is_empty s || is_dotseg s) (fun d => mem c_slash d || is_dotseg d) [].
Proof. reflexivity. Qed.
Print Assumptions C05_subpath_is_that_loop.
(* "syntactically invalid type" and "invalid key" mean what the property says: the alphabets read from the source are the documented ones *)
Theorem C05_invalid_type_means_outside_the_documented_alphabet : forall t, valid_type cfg t = doc_valid_type t.
Proof. apply valid_type_is_documented. vm_compute. reflexivity. Qed.
Print Assumptions C05_invalid_type_means_outside_the_documented_alphabet.
Theorem C05_invalid_key_means_outside_the_documented_alphabet : forall k, valid_key cfg k = doc_valid_key k.
Proof. apply valid_key_is_documented. vm_compute. reflexivity. Qed.
Print Assumptions C05_invalid_key_means_outside_the_documented_alphabet.
