(* C12 Checksum qualifier: one canonical text, typed round trip, order independence *)
Load "coq/props/Hdr".
From Coq Require Import Permutation.
From PM Require Import Cs Cs2 Cs4 Cs5 C04 Quals Assemble More Exec CsRef.
Lemma src_cfg_ok : cfg_ok cfg. Proof. sc. Qed.
(* every hash-map iteration order gives the same text *)
Theorem C12_order_independent : forall m m', NoDup (map fst m) -> Permutation m m' -> cs_to_text m' = cs_to_text m.
Proof. apply cs_to_text_perm_invariant. Qed.
Print Assumptions C12_order_independent.
Theorem C12_text_parses_back : forall m txt, m <> [] -> NoDup (map fst m) -> Forall (fun e => Cs4.alg_ok cfg (fst e)) m -> cs_to_text m = Ok txt ->
  cs_try_from cfg txt = Ok (canon_m m) /\ cs_to_text (canon_m m) = Ok txt /\ txt <> [] /\ utf8_valid txt = true.
Proof. apply cs_text_parse. Qed.
Print Assumptions C12_text_parses_back.
Theorem C12_canonical_text_is_fixpoint : forall v m txt, utf8_valid v = true -> cs_try_from cfg v = Ok m -> cs_to_text m = Ok txt ->
  cs_try_from cfg txt = Ok (canon_m m) /\ cs_to_text (canon_m m) = Ok txt /\ txt <> [] /\ utf8_valid txt = true.
Proof. apply cs_fix; sc. Qed.
Print Assumptions C12_canonical_text_is_fixpoint.
Theorem C12_text_has_documented_form : forall v m txt, utf8_valid v = true -> cs_try_from cfg v = Ok m -> cs_to_text m = Ok txt -> checksum_canonical txt.
Proof. apply (checksum_text_canonical cfg); sc. Qed.
Print Assumptions C12_text_has_documented_form.
Theorem C12_bytes_round_trip : forall bs, hex_decode (hex_encode bs) = Some bs.
Proof. apply hex_decode_encode. Qed.
Print Assumptions C12_bytes_round_trip.
(* inserting an algorithm again in another letter case replaces the earlier entry *)
Theorem C12_case_insensitive_replace : forall m a1 v1 a2 v2, KI cfg m -> utf8_valid a1 = true -> utf8_valid a2 = true -> spec_lower cfg a1 = spec_lower cfg a2 ->
  let m2 := cs_insert_raw cfg (cs_insert_raw cfg m a1 v1) a2 v2 in
  KI cfg m2 /\ cm_get m2 (spec_lower cfg a1) = Some v2 /\ map fst m2 = map fst (cs_insert_raw cfg m a1 v1).
Proof. apply C12_case; sc. Qed.
Print Assumptions C12_case_insensitive_replace.
(* a PURL parsed or built with a checksum carries a text that reads back through the typed accessor and re-serialises to itself (any sane hook) *)
Theorem C12_stored_checksum_reads_back : forall (T E : Type) (sh : shape T E) t p t' p', hook_sane cfg sh -> QInv cfg (p_quals p) -> vals_utf8 (p_quals p) ->
  build cfg sh t p = Ok (t', p') -> forall v, q_get cfg (p_quals p') s_checksum = Some v -> exists m, cs_try_from cfg v = Ok m /\ cs_to_text m = Ok v /\ v <> [].
Proof. intros T E sh t p t' p'. apply C12_stored_checksum_round_trips; sc. Qed.
Print Assumptions C12_stored_checksum_reads_back.
(* the same set of entries in any order and hex case has one text *)
Theorem C12_one_text_for_the_same_entries : forall m1 m2, NoDup (map fst m1) -> Permutation (map norm m1) (map norm m2) -> cs_to_text m1 = cs_to_text m2.
Proof. apply C12_same_entries. Qed.
Print Assumptions C12_one_text_for_the_same_entries.
(* insert / insert_raw act on the map keyed by the lower-cased algorithm; remove on the exact key; along ANY operation sequence keys stay distinct and lower-cased *)
Theorem C12_insert_is_map_update : forall m a v, KI cfg m -> utf8_valid a = true ->
  let m' := cs_insert_raw cfg m a v in
  KI cfg m' /\ cm_get m' (lowercase_str cfg a) = Some v /\ (forall k, k <> lowercase_str cfg a -> cm_get m' k = cm_get m k).
Proof. apply cs_insert_raw_spec; sc. Qed.
Print Assumptions C12_insert_is_map_update.
Theorem C12_remove_is_map_update : forall m k k', cm_get (cm_remove m k) k = None /\ (k' <> k -> cm_get (cm_remove m k) k' = cm_get m k').
Proof. intros m k k'. split; [apply cm_remove_get|apply cm_remove_other]. Qed.
Print Assumptions C12_remove_is_map_update.
Theorem C12_any_operation_sequence_keeps_keys_canonical : forall ops, Forall cop_utf8 ops -> KI cfg (crun cfg ops).
Proof. apply crun_KI; sc. Qed.
Print Assumptions C12_any_operation_sequence_keeps_keys_canonical.
(* a PURL built with a checksum in any equivalent spelling (entry order, hex case) is the same PURL *)
Theorem C12_equivalent_spellings_one_purl : forall t p v1 v2 m1 m2, QInv cfg (p_quals p) -> q_get cfg (p_quals p) s_checksum = Some v1 -> v1 <> [] -> v2 <> [] ->
  cs_try_from cfg v1 = Ok m1 -> cs_try_from cfg v2 = Ok m2 -> NoDup (map fst m1) -> Permutation (map norm m1) (map norm m2) ->
  build cfg G t (with_quals p (q_set cfg (p_quals p) s_checksum v2)) = build cfg G t p.
Proof. apply build_checksum_spelling; sc. Qed.
Print Assumptions C12_equivalent_spellings_one_purl.
