(* C12 Checksum qualifier: one canonical text, typed round trip, order independence *)
Load "coq/props/Hdr".
From Coq Require Import Permutation.
From PM Require Import Cs Cs2 Cs4 Cs5 C04 Quals Assemble More.
Lemma src_rt : rt_ok cfg. Proof. prove_rt. Qed.
Lemma src_cfg_ok : cfg_ok cfg. Proof. sc. Qed.
(* every hash-map iteration order gives the same text *)
Theorem C12_order_independent : forall m m', NoDup (map fst m) -> Permutation m m' -> cs_to_text m' = cs_to_text m.
Proof. apply cs_to_text_perm_invariant. Qed.
Print Assumptions C12_order_independent.
Theorem C12_text_parses_back : forall m txt, m <> [] -> NoDup (map fst m) -> Forall (fun e => Cs4.alg_ok cfg (fst e)) m -> cs_to_text m = Ok txt ->
  cs_try_from cfg txt = Ok (canon_m m) /\ cs_to_text (canon_m m) = Ok txt /\ txt <> [] /\ utf8_valid txt = true.
Proof. apply cs_text_parse. Qed.
Print Assumptions C12_text_parses_back.
Theorem C12_canonical_text_is_fixpoint : forall v m txt, utf8_valid v = true -> cs_try_from cfg v = Ok m -> cs_to_text m = Ok txt ->
  cs_try_from cfg txt = Ok (canon_m m) /\ cs_to_text (canon_m m) = Ok txt /\ txt <> [] /\ utf8_valid txt = true.
Proof. apply cs_fix; sc. Qed.
Print Assumptions C12_canonical_text_is_fixpoint.
Theorem C12_text_has_documented_form : forall v m txt, utf8_valid v = true -> cs_try_from cfg v = Ok m -> cs_to_text m = Ok txt -> checksum_canonical txt.
Proof. apply (checksum_text_canonical cfg src_rt); sc. Qed.
Print Assumptions C12_text_has_documented_form.
Theorem C12_bytes_round_trip : forall bs, hex_decode (hex_encode bs) = Some bs.
Proof. apply hex_decode_encode. Qed.
Print Assumptions C12_bytes_round_trip.
(* inserting an algorithm again in another letter case replaces the earlier entry *)
Theorem C12_case_insensitive_replace : forall m a1 v1 a2 v2, KI cfg m -> utf8_valid a1 = true -> utf8_valid a2 = true -> spec_lower cfg a1 = spec_lower cfg a2 ->
  let m2 := cs_insert_raw cfg (cs_insert_raw cfg m a1 v1) a2 v2 in
  KI cfg m2 /\ cm_get m2 (spec_lower cfg a1) = Some v2 /\ map fst m2 = map fst (cs_insert_raw cfg m a1 v1).
Proof. apply C12_case; sc. Qed.
Print Assumptions C12_case_insensitive_replace.
(* a PURL parsed or built with a checksum carries a text that reads back through the typed accessor and re-serialises to itself (any sane hook) *)
Theorem C12_stored_checksum_reads_back : forall (T E : Type) (sh : shape T E) t p t' p', hook_sane cfg sh -> QInv cfg (p_quals p) -> vals_utf8 (p_quals p) ->
  build cfg sh t p = Ok (t', p') -> forall v, q_get cfg (p_quals p') s_checksum = Some v -> exists m, cs_try_from cfg v = Ok m /\ cs_to_text m = Ok v /\ v <> [].
Proof. intros T E sh t p t' p'. apply C12_stored_checksum_round_trips; sc. Qed.
Print Assumptions C12_stored_checksum_reads_back.
