(* C15 Package type names map one-to-one, case-insensitively *)
Load "coq/props/Hdr".
From PM Require Import C15 Lower2 Assemble.
Lemma src_cfg_ok : cfg_ok cfg. Proof. sc. Qed.
Theorem C15_any_case_parses : forall s t, make_ascii_lowercase s = pt_name t -> pt_from_str cfg s = Some t.
Proof. apply C15_complete. Qed.
Print Assumptions C15_any_case_parses.
(* no other string - longer, shorter, padded, non-ASCII look-alike - is ever taken for a known type *)
Theorem C15_nothing_else_parses : forall s t, utf8_valid s = true -> pt_from_str cfg s = Some t -> make_ascii_lowercase s = pt_name t.
Proof. apply C15_sound; sc. Qed.
Print Assumptions C15_nothing_else_parses.
Theorem C15_names_distinct_lowercase : NoDup (map pt_name all_ptypes) /\ forall t, make_ascii_lowercase (pt_name t) = pt_name t /\ valid_type cfg (pt_name t) = true /\ In t all_ptypes.
Proof. split; [vm_compute; repeat constructor; cbn; intuition discriminate|]. intros t. destruct t; repeat split; try reflexivity; cbn; tauto. Qed.
Print Assumptions C15_names_distinct_lowercase.
Theorem C15_name_injective : forall t1 t2, pt_name t1 = pt_name t2 -> t1 = t2.
Proof. apply pt_name_inj. Qed.
Print Assumptions C15_name_injective.
Theorem C15_fold_table_lookup_is_complete : forall c l, In (c, l) (fold_tbl cfg) -> fold_c cfg c = l.
Proof. intros c l H. unfold fold_c. rewrite (Lower2.tbl_find_complete cfg (fold_tbl cfg) c l); [reflexivity|vm_compute; reflexivity|exact H]. Qed.
Print Assumptions C15_fold_table_lookup_is_complete.
