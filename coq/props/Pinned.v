(* The four genuine defects of the pinned tree (DESIGN.md section 6), as refutations of the property statements at the PINNED
   configuration: the current configuration with the four repaired constants / variation points put back.  Each witness is the input that
   was replayed on the real crate before the fix: commits.  This file is informational (compiled by ./vcheck setup); it is not the obligation
   of any check. *)
Load "coq/props/Hdr".
Local Open Scope N_scope.
Definition pinned_cfg : config :=
  {| set_path := set_path cfg; set_seg := set_seg cfg; set_query := filter (fun b => negb (beq b c_amp)) (set_query cfg); set_frag := set_frag cfg;
     type_special := type_special cfg; key_special := key_special cfg; dash_chars := dash_chars cfg;
     lower_tbl := lower_tbl cfg; upper_rng := upper_rng cfg; fold_tbl := fold_tbl cfg;
     scan_lower_ne := false; cap_saturating := false; maven_ns_segments := false;
     dir_sub := dir_sub cfg; dir_qual := dir_qual cfg; dir_ver := dir_ver cfg; typed_keys := typed_keys cfg |}.
Notation GP := (string_shape pinned_cfg). Notation PP := (ptype_shape pinned_cfg).
Definition bs (l : list N) : bytes := map nb l.
(* D1: pkg:t/n?k=a%26b is accepted, its canonical string pkg:t/n?k=a&b is not (C01, C03, C09, C19) *)
Definition w_amp : bytes := Eval vm_compute in bs [112;107;103;58;116;47;110;63;107;61;97;37;50;54;98].
Definition w_amp_res := Eval vm_compute in parse pinned_cfg GP w_amp.
Theorem C01_pinned_refuted : exists t p, parse pinned_cfg GP w_amp = Ok (t, p) /\ parse pinned_cfg GP (format pinned_cfg GP t p) = Err EInvalidQualifier.
Proof. exists (bs [116]). exists {| p_ns := []; p_name := bs [110]; p_ver := []; p_quals := [(bs [107], bs [97; 38; 98])]; p_sub := [] |}. split; vm_compute; reflexivity. Qed.
Print Assumptions C01_pinned_refuted.
(* D2: serialising the empty checksum underflows the capacity computation (C06) *)
Theorem C06_pinned_refuted : cs_cap_panics pinned_cfg [] = true.
Proof. vm_compute. reflexivity. Qed.
Print Assumptions C06_pinned_refuted.
(* D3: U+01C5 is not lower-cased by the is_uppercase scan (C08, C12) *)
Definition w_titlecase : bytes := Eval vm_compute in utf8_enc [453].
Theorem C08_pinned_refuted : utf8_valid w_titlecase = true /\ lowercase_str pinned_cfg w_titlecase <> spec_lower pinned_cfg w_titlecase.
Proof. split; [vm_compute; reflexivity|vm_compute; discriminate]. Qed.
Print Assumptions C08_pinned_refuted.
(* D4: Maven with namespace "/" builds, and its string form pkg:maven///n is refused by the parser (C09) *)
Definition p_d4 : parts := {| p_ns := bs [47]; p_name := bs [110]; p_ver := []; p_quals := []; p_sub := [] |}.
Theorem C09_pinned_refuted : build pinned_cfg PP Maven p_d4 = Ok (Maven, p_d4)
  /\ parse pinned_cfg PP (format pinned_cfg PP Maven p_d4) = Err (PMissing FNamespace).
Proof. split; vm_compute; reflexivity. Qed.
Print Assumptions C09_pinned_refuted.
(* and at the current configuration the same witnesses behave *)
Example current_tree_ok : (exists t p, parse cfg G w_amp = Ok (t, p) /\ parse cfg G (format cfg G t p) = Ok (t, p))
  /\ cs_cap_panics cfg [] = false /\ lowercase_str cfg w_titlecase = spec_lower cfg w_titlecase /\ build cfg P Maven p_d4 = Err (PMissing FNamespace).
Proof. split; [exists (bs [116]); exists {| p_ns := []; p_name := bs [110]; p_ver := []; p_quals := [(bs [107], bs [97; 38; 98])]; p_sub := [] |}; split; vm_compute; reflexivity|]. repeat split; vm_compute; reflexivity. Qed.
