From Coq Require Import List NArith Bool.
From Coq.Strings Require Import Byte.
Import ListNotations.
Local Open Scope N_scope.

Definition bytes := list byte.
Definition bn (b : byte) : N := Byte.to_N b.
Definition nb (n : N) : byte := match Byte.of_N n with Some b => b | None => x00 end.
Definition beq (a b : byte) : bool := Byte.eqb a b.
Definition inr (lo hi n : N) : bool := (lo <=? n) && (n <=? hi).

Inductive result (E A : Type) := Ok (a : A) | Err (e : E).
Arguments Ok {E A} a. Arguments Err {E A} e.
Definition bind {E A B} (r : result E A) (f : A -> result E B) : result E B :=
  match r with Ok a => f a | Err e => Err e end.
Notation "x <- r ;; k" := (bind r (fun x => k)) (at level 61, r at next level, right associativity).

Fixpoint beqs (a b : bytes) : bool :=
  match a, b with
  | [], [] => true
  | x :: a', y :: b' => beq x y && beqs a' b'
  | _, _ => false
  end.
Definition is_empty (l : bytes) : bool := match l with [] => true | _ => false end.
Fixpoint mem (c : byte) (l : bytes) : bool := match l with [] => false | x :: t => beq x c || mem c t end.

(* lexicographic comparison of byte strings = Rust str Ord *)
Fixpoint bcmp (a b : bytes) : comparison :=
  match a, b with
  | [], [] => Eq | [], _ => Lt | _, [] => Gt
  | x :: a', y :: b' => match N.compare (bn x) (bn y) with Eq => bcmp a' b' | c => c end
  end.

(* str::strip_prefix *)
Fixpoint strip_prefix (p s : bytes) : option bytes :=
  match p, s with
  | [], _ => Some s
  | x :: p', y :: s' => if beq x y then strip_prefix p' s' else None
  | _, [] => None
  end.
(* str::trim_start_matches(c) *)
Fixpoint trim_start (c : byte) (s : bytes) : bytes :=
  match s with x :: t => if beq x c then trim_start c t else s | [] => [] end.
Fixpoint trim_end (c : byte) (s : bytes) : bytes :=
  match s with
  | [] => []
  | x :: t => match trim_end c t with
              | [] => if beq x c then [] else [x]
              | t' => x :: t'
              end
  end.
Definition trim (c : byte) (s : bytes) : bytes := trim_end c (trim_start c s).
(* str::split_once(c): first occurrence *)
Fixpoint split_once (c : byte) (s : bytes) : option (bytes * bytes) :=
  match s with
  | [] => None
  | x :: t => if beq x c then Some ([], t)
              else match split_once c t with Some (a, b) => Some (x :: a, b) | None => None end
  end.
(* str::rsplit_once(c): last occurrence *)
Fixpoint rsplit_once (c : byte) (s : bytes) : option (bytes * bytes) :=
  match s with
  | [] => None
  | x :: t => match rsplit_once c t with
              | Some (a, b) => Some (x :: a, b)
              | None => if beq x c then Some ([], t) else None
              end
  end.
(* str::split(c): always at least one piece *)
Fixpoint split (c : byte) (s : bytes) : list bytes :=
  match s with
  | [] => [[]]
  | x :: t => if beq x c then [] :: split c t
              else match split c t with p :: ps => (x :: p) :: ps | [] => [[x]] end
  end.
Fixpoint join (c : byte) (l : list bytes) : bytes :=
  match l with [] => [] | [p] => p | p :: ps => p ++ c :: join c ps end.
