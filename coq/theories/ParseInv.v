From Coq Require Import List NArith ZArith Bool Lia Sorted.
From Coq.Strings Require Import Byte.
From PM Require Import Base Lemmas Text TextLemmas Model Skeleton Segs Quals Quals2 Canon Canon2 DecQual Roundtrip.
Import ListNotations.

Section PI. Variable cfg : config.
Hypothesis Hasc : tbl_ascii_ok cfg = true.
Hypothesis Hksp : key_special_ascii cfg = true.

(* the qualifier loop keeps the collection invariant and only stores non-empty valid values *)
Lemma decode_quals_inv items : forall acc q, QInv cfg acc -> vals_ok acc -> decode_quals cfg items acc = Ok q -> QInv cfg q /\ vals_ok q.
Proof.
  induction items as [|it items IH]; intros acc q HQ HV; cbn [decode_quals]; [intros [= <-]; auto|].
  destruct (split_once c_eq it) as [[k v]|]; [|discriminate].
  destruct (check_key cfg k) as [m|e] eqn:Ec; [|discriminate]. cbn [bind].
  destruct (into_key_lk cfg m k Ec) as (Hik & Hms & Hvk). unfold search. rewrite Hms.
  pose proof (search_from_spec cfg Hasc Hksp acc HQ k 0%nat Hvk) as S. destruct (search_from cfg acc k 0) as [j|j]; [discriminate|].
  destruct S as (pre & post & -> & -> & H1 & H2).
  destruct (decode v) as [d|e] eqn:Ed; [|discriminate]. cbn [bind]. apply decode_ok in Ed. destruct Ed as [-> Hdv].
  destruct (is_empty (pdecode v)) eqn:Ee; [apply IH; assumption|].
  apply IH.
  - rewrite insert_at_app, Hik. apply QInv_insert; try assumption. split; [apply valid_key_lk; exact Hvk|apply lk_idem].
  - rewrite insert_at_app. unfold vals_ok in *. apply Forall_app in HV. destruct HV as [V1 V2]. apply Forall_app. split; [exact V1|].
    constructor; [|exact V2]. cbn. split; [apply is_empty_false; exact Ee|exact Hdv].
Qed.

Lemma forallb_filter_id {A} (f : A -> bool) l : forallb f l = true -> filter f l = l.
Proof. induction l as [|x l IH]; cbn; [reflexivity|]. rewrite andb_true_iff. intros [-> H]. rewrite IH by exact H. reflexivity. Qed.
(* joins of good segments are fixed by the segment normalisation *)
Lemma ns_pieces_join ds : Forall (fun d => d <> [] /\ ~ In c_slash d) ds -> ns_pieces (join c_slash ds) = ds.
Proof.
  intros H. destruct ds as [|d ds]; [reflexivity|]. unfold ns_pieces. rewrite split_join; [|discriminate|eapply Forall_impl; [|exact H]; cbn; tauto].
  apply forallb_filter_id. apply forallb_forall. intros x Hx. rewrite Forall_forall in H. destruct (H x Hx) as [Hne _].
  unfold nonempty. apply negb_true_iff, is_empty_false. exact Hne.
Qed.
Lemma sub_pieces_join ds : Forall (fun d => d <> [] /\ ~ In c_slash d /\ is_dotseg d = false) ds -> sub_pieces (join c_slash ds) = ds.
Proof.
  intros H. destruct ds as [|d ds]; [reflexivity|]. unfold sub_pieces. rewrite split_join; [|discriminate|eapply Forall_impl; [|exact H]; cbn; tauto].
  apply forallb_filter_id. apply forallb_forall. intros x Hx. rewrite Forall_forall in H. destruct (H x Hx) as (Hne & _ & Hd).
  unfold sub_skip. rewrite Hd, orb_false_r. apply negb_true_iff, is_empty_false. exact Hne.
Qed.

Definition seg_inv (p : parts) : Prop :=
  join c_slash (ns_pieces (p_ns p)) = p_ns p /\ join c_slash (sub_pieces (p_sub p)) = p_sub p.

(* what the checks hand to build *)
Theorem checks_fields (r : raw) sub q ver ns name :
  oget (r_sub r) decode_subpath = @Ok parse_error _ sub ->
  (match r_q r with Some qs => decode_quals cfg (split c_amp qs) [] | None => Ok [] end) = @Ok parse_error _ q ->
  oget (r_ver r) decode = @Ok parse_error _ ver -> oget (r_ns r) decode_namespace = @Ok parse_error _ ns ->
  decode (r_name r) = Ok name ->
  fields_valid cfg {| p_ns := ns; p_name := name; p_ver := ver; p_quals := q; p_sub := sub |}
  /\ seg_inv {| p_ns := ns; p_name := name; p_ver := ver; p_quals := q; p_sub := sub |}.
Proof.
  intros Hs Hq Hv Hn Hnm. unfold fields_valid, seg_inv. cbn [p_ns p_name p_ver p_quals p_sub].
  assert (Asub : utf8_valid sub = true /\ join c_slash (sub_pieces sub) = sub).
  { destruct (r_sub r) as [s|]; cbn in Hs; [|injection Hs as <-; auto]. apply decode_subpath_sound in Hs. destruct Hs as [-> Hall]. split.
    - apply utf8_valid_join; [apply slash_ascii|]. eapply Forall_impl; [|exact Hall]. cbn. tauto.
    - rewrite sub_pieces_join; [reflexivity|]. eapply Forall_impl; [|exact Hall]. cbn. tauto. }
  assert (Ans : utf8_valid ns = true /\ join c_slash (ns_pieces ns) = ns).
  { destruct (r_ns r) as [s|]; cbn in Hn; [|injection Hn as <-; auto]. apply decode_namespace_sound in Hn. destruct Hn as [-> Hall]. split.
    - apply utf8_valid_join; [apply slash_ascii|]. eapply Forall_impl; [|exact Hall]. cbn. tauto.
    - rewrite ns_pieces_join; [reflexivity|]. eapply Forall_impl; [|exact Hall]. cbn. tauto. }
  assert (Aver : utf8_valid ver = true).
  { destruct (r_ver r) as [s|]; cbn in Hv; [|injection Hv as <-; reflexivity]. apply decode_ok in Hv. tauto. }
  assert (Aq : QInv cfg q /\ vals_ok q).
  { destruct (r_q r) as [s|]; [|injection Hq as <-; split; [apply QInv_nil|constructor]].
    eapply decode_quals_inv; [apply QInv_nil|constructor|exact Hq]. }
  apply decode_ok in Hnm. tauto.
Qed.
End PI.
Print Assumptions checks_fields.
