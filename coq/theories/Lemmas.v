From Coq Require Import List NArith ZArith Bool Lia.
From Coq.Strings Require Import Byte.
From PM Require Import Base.
Import ListNotations.

(* ---------- byte equality / membership ---------- *)
Lemma beq_true a b : beq a b = true <-> a = b.
Proof. unfold beq. split. - apply Byte.byte_dec_bl. - apply Byte.byte_dec_lb. Qed.
Lemma beq_refl b : beq b b = true. Proof. apply beq_true. reflexivity. Qed.
Lemma beq_false a b : a <> b -> beq a b = false.
Proof. intros H. destruct (beq a b) eqn:E; [apply beq_true in E; congruence|reflexivity]. Qed.
Lemma beq_false_iff a b : beq a b = false <-> a <> b.
Proof. split; [|apply beq_false]. intros H ->. rewrite beq_refl in H. discriminate. Qed.
Lemma beq_sym a b : beq a b = beq b a.
Proof. destruct (beq b a) eqn:E. - apply beq_true in E. subst. apply beq_refl. - apply beq_false. apply beq_false_iff in E. congruence. Qed.
Lemma mem_In c l : mem c l = true <-> In c l.
Proof. induction l as [|x l IH]; cbn; [split; [discriminate|tauto]|]. rewrite orb_true_iff, beq_true, IH. tauto. Qed.
Lemma mem_false c l : mem c l = false <-> ~ In c l.
Proof. rewrite <- mem_In. destruct (mem c l); split; congruence. Qed.
Lemma beqs_true a b : beqs a b = true <-> a = b.
Proof.
  revert b. induction a as [|x a IH]; intros [|y b]; cbn; try (split; [discriminate|congruence]); [tauto|].
  rewrite andb_true_iff, beq_true, IH. split; [intros [-> ->]; reflexivity|intros [= -> ->]; auto].
Qed.
Lemma is_empty_true (s : bytes) : is_empty s = true <-> s = [].
Proof. destruct s; cbn; split; congruence. Qed.
Lemma is_empty_false (s : bytes) : is_empty s = false <-> s <> [].
Proof. destruct s; cbn; split; congruence. Qed.

(* ---------- strip_prefix / trim_start ---------- *)
Lemma strip_prefix_app p s : strip_prefix p (p ++ s) = Some s.
Proof. induction p as [|x p IH]; cbn; [destruct s; reflexivity|]. rewrite beq_refl. exact IH. Qed.
Lemma strip_prefix_some p s r : strip_prefix p s = Some r -> s = p ++ r.
Proof.
  revert s. induction p as [|x p IH]; intros s; cbn.
  - destruct s; intros [= <-]; reflexivity.
  - destruct s as [|y s]; [discriminate|]. destruct (beq x y) eqn:E; [|discriminate]. apply beq_true in E. subst y.
    intros H. apply IH in H. subst s. reflexivity.
Qed.
Lemma trim_start_repeat c n s : (forall t, s <> c :: t) -> trim_start c (repeat c n ++ s) = s.
Proof.
  intros H. induction n as [|n IH]; cbn.
  - destruct s as [|x t]; [reflexivity|]. cbn. rewrite beq_false; [reflexivity|]. intros ->. eapply H. reflexivity.
  - rewrite beq_refl. exact IH.
Qed.
Lemma trim_start_spec c s : exists n, s = repeat c n ++ trim_start c s /\ (forall t, trim_start c s <> c :: t).
Proof.
  induction s as [|x s IH]; cbn.
  - exists 0%nat. split; [reflexivity|discriminate].
  - destruct (beq x c) eqn:E.
    + apply beq_true in E. subst x. destruct IH as (n & H1 & H2). exists (S n). cbn. split; [f_equal; exact H1|exact H2].
    + exists 0%nat. split; [reflexivity|]. intros t [= -> _]. rewrite beq_refl in E. discriminate.
Qed.

(* ---------- split_once / rsplit_once ---------- *)
Lemma rsplit_once_none c s : ~ In c s -> rsplit_once c s = None.
Proof.
  induction s as [|x t IH]; cbn; [reflexivity|]. intros H.
  rewrite IH by tauto. rewrite beq_false by (intros ->; tauto). reflexivity.
Qed.
Lemma rsplit_once_app c a b : ~ In c b -> rsplit_once c (a ++ c :: b) = Some (a, b).
Proof.
  intros Hb. induction a as [|x a IH]; cbn [app rsplit_once].
  - rewrite rsplit_once_none by assumption. rewrite beq_refl. reflexivity.
  - rewrite IH. reflexivity.
Qed.
Lemma rsplit_once_some c s a b : rsplit_once c s = Some (a, b) -> s = a ++ c :: b /\ ~ In c b.
Proof.
  revert a b. induction s as [|x t IH]; intros a b; cbn; [discriminate|].
  destruct (rsplit_once c t) as [[a' b']|] eqn:E.
  - intros [= <- <-]. destruct (IH _ _ eq_refl) as [-> H]. split; [reflexivity|exact H].
  - destruct (beq x c) eqn:Ex; [|discriminate]. intros [= <- <-]. apply beq_true in Ex. subst x. split; [reflexivity|].
    intros Hin. revert E. clear IH. induction t as [|y t IHt]; [destruct Hin|]. cbn.
    destruct (rsplit_once c t) as [[? ?]|] eqn:E2; [discriminate|].
    destruct (beq y c) eqn:Ey; [discriminate|]. intros _. destruct Hin as [->|Hin]; [rewrite beq_refl in Ey; discriminate|].
    apply IHt; [exact Hin|reflexivity].
Qed.
Lemma rsplit_once_none_inv c s : rsplit_once c s = None -> ~ In c s.
Proof.
  induction s as [|x t IH]; cbn; [tauto|].
  destruct (rsplit_once c t) as [[? ?]|]; [discriminate|]. destruct (beq x c) eqn:E; [discriminate|].
  intros _ [->|H]; [rewrite beq_refl in E; discriminate|]. apply IH; [reflexivity|exact H].
Qed.
Lemma split_once_none c s : ~ In c s -> split_once c s = None.
Proof.
  induction s as [|x t IH]; cbn; [reflexivity|]. intros H.
  rewrite beq_false by (intros ->; tauto). rewrite IH by tauto. reflexivity.
Qed.
Lemma split_once_app c a b : ~ In c a -> split_once c (a ++ c :: b) = Some (a, b).
Proof.
  induction a as [|x a IH]; cbn [app split_once]; intros H.
  - rewrite beq_refl. reflexivity.
  - rewrite beq_false by (intros ->; apply H; left; reflexivity). rewrite IH by (intros ?; apply H; right; assumption). reflexivity.
Qed.
Lemma split_once_some c s a b : split_once c s = Some (a, b) -> s = a ++ c :: b /\ ~ In c a.
Proof.
  revert a b. induction s as [|x t IH]; intros a b; cbn; [discriminate|].
  destruct (beq x c) eqn:E.
  - intros [= <- <-]. apply beq_true in E. subst. split; [reflexivity|tauto].
  - destruct (split_once c t) as [[a' b']|]; [|discriminate]. intros [= <- <-].
    destruct (IH _ _ eq_refl) as [-> H]. split; [reflexivity|]. intros [->|Hin]; [rewrite beq_refl in E; discriminate|tauto].
Qed.
Lemma split_once_none_inv c s : split_once c s = None -> ~ In c s.
Proof.
  induction s as [|x t IH]; cbn; [tauto|]. destruct (beq x c) eqn:E; [discriminate|].
  destruct (split_once c t) as [[? ?]|]; [discriminate|]. intros _ [->|H]; [rewrite beq_refl in E; discriminate|]. apply IH; [reflexivity|exact H].
Qed.

(* ---------- split / join ---------- *)
Lemma split_nonnil c s : split c s <> [].
Proof. induction s as [|x t IH]; cbn; [discriminate|]. destruct (beq x c); [discriminate|]. destruct (split c t); discriminate. Qed.
Lemma split_nosep c s : ~ In c s -> split c s = [s].
Proof.
  induction s as [|x t IH]; cbn; [reflexivity|]. intros H. rewrite beq_false by (intros ->; tauto). rewrite IH by tauto. reflexivity.
Qed.
Lemma split_app c a b : ~ In c a -> split c (a ++ c :: b) = a :: split c b.
Proof.
  induction a as [|x a IH]; cbn [app split]; intros H.
  - rewrite beq_refl. reflexivity.
  - rewrite beq_false by (intros ->; apply H; left; reflexivity). rewrite IH by (intros ?; apply H; right; assumption). reflexivity.
Qed.
Lemma split_pieces c s : Forall (fun p => ~ In c p) (split c s).
Proof.
  induction s as [|x t IH]; cbn; [repeat constructor; tauto|].
  destruct (beq x c) eqn:E; [constructor; [tauto|exact IH]|].
  destruct (split c t) as [|p ps]; [repeat constructor; intros [->|[]]; rewrite beq_refl in E; discriminate|].
  inversion IH; subst. constructor; [|assumption]. intros [->|H]; [rewrite beq_refl in E; discriminate|tauto].
Qed.
Lemma join_split c s : join c (split c s) = s.
Proof.
  induction s as [|x t IH]; cbn; [reflexivity|].
  destruct (beq x c) eqn:E.
  - apply beq_true in E. subst x. destruct (split c t) as [|p ps] eqn:Es; [exfalso; eapply split_nonnil; eassumption|].
    cbn [join app]. f_equal. exact IH.
  - destruct (split c t) as [|p ps] eqn:Es; [exfalso; eapply split_nonnil; eassumption|].
    cbn [join] in *. destruct ps; cbn in *; rewrite <- IH; reflexivity.
Qed.
Lemma split_join c ps : ps <> [] -> Forall (fun p => ~ In c p) ps -> split c (join c ps) = ps.
Proof.
  intros Hne H. induction H as [|p ps Hp Hps IH]; [congruence|]. destruct ps as [|q ps].
  - cbn. apply split_nosep. exact Hp.
  - change (join c (p :: q :: ps)) with (p ++ c :: join c (q :: ps)). rewrite split_app by exact Hp. f_equal. apply IH. discriminate.
Qed.
Lemma join_cons c p ps : ps <> [] -> join c (p :: ps) = p ++ c :: join c ps.
Proof. destruct ps; [congruence|reflexivity]. Qed.
Lemma in_join c d ps : In d (join c ps) -> d = c \/ exists p, In p ps /\ In d p.
Proof.
  induction ps as [|p ps IH]; cbn; [tauto|]. destruct ps as [|q ps].
  - intros H. right. exists p. split; [left; reflexivity|exact H].
  - intros H. apply in_app_or in H. destruct H as [H|[<-|H]]; [right; exists p; split; [left; reflexivity|exact H]|left; reflexivity|].
    destruct (IH H) as [->|(p' & H1 & H2)]; [left; reflexivity|right; exists p'; split; [right; exact H1|exact H2]].
Qed.

(* trimming only removes empty pieces *)
Definition nonempty (p : bytes) : bool := negb (is_empty p).
Lemma filter_split_trim_start c s : filter nonempty (split c (trim_start c s)) = filter nonempty (split c s).
Proof.
  induction s as [|x t IH]; cbn [trim_start]; [reflexivity|].
  destruct (beq x c) eqn:E; [|reflexivity]. cbn [split]. rewrite E. cbn. exact IH.
Qed.
Lemma trim_end_nil_iff c s : trim_end c s = [] <-> Forall (fun x => x = c) s.
Proof.
  induction s as [|x t IH]; cbn; [split; constructor|].
  destruct (trim_end c t) eqn:Et.
  - destruct (beq x c) eqn:E.
    + apply beq_true in E. split; [intros _; constructor; [exact E|apply IH; reflexivity]|reflexivity].
    + split; [discriminate|]. intros H. inversion H; subst. rewrite beq_refl in E. discriminate.
  - split; [discriminate|]. intros H. inversion H; subst. apply IH in H3. discriminate.
Qed.
Lemma split_all_sep c s : Forall (fun x => x = c) s -> filter nonempty (split c s) = [].
Proof. induction 1 as [|x t -> Ht IH]; cbn; [reflexivity|]. rewrite beq_refl. cbn. exact IH. Qed.
Lemma split_app_gen c a b : split c (a ++ c :: b) = split c a ++ split c b.
Proof.
  induction a as [|x a IH]; cbn [app split].
  - rewrite beq_refl. reflexivity.
  - destruct (beq x c) eqn:E; [rewrite IH; reflexivity|]. rewrite IH.
    destruct (split c a) as [|p ps] eqn:Es; [exfalso; eapply split_nonnil; eassumption|]. reflexivity.
Qed.
Lemma trim_end_spec c s : exists n, s = trim_end c s ++ repeat c n.
Proof.
  induction s as [|x t IH]; [exists 0%nat; reflexivity|]. cbn [trim_end]. destruct IH as (n & IH).
  destruct (trim_end c t) as [|y t'] eqn:Et.
  - destruct (beq x c) eqn:E.
    + apply beq_true in E. subst x. exists (S n). cbn in *. rewrite IH at 1. reflexivity.
    + exists n. cbn in *. rewrite IH at 1. reflexivity.
  - exists n. cbn in *. rewrite IH at 1. reflexivity.
Qed.
Lemma repeat_all c n : Forall (fun x : byte => x = c) (repeat c n).
Proof. induction n; cbn; constructor; auto. Qed.
Lemma filter_split_repeat c u n : filter nonempty (split c (u ++ repeat c n)) = filter nonempty (split c u).
Proof.
  destruct n as [|n]; [rewrite app_nil_r; reflexivity|]. cbn [repeat]. rewrite split_app_gen, filter_app.
  rewrite (split_all_sep c (repeat c n)) by apply repeat_all. apply app_nil_r.
Qed.
Lemma filter_split_trim_end c s : filter nonempty (split c (trim_end c s)) = filter nonempty (split c s).
Proof. destruct (trim_end_spec c s) as (n & H). rewrite H at 2. symmetry. apply filter_split_repeat. Qed.
Lemma filter_split_trim c s : filter nonempty (split c (trim c s)) = filter nonempty (split c s).
Proof. unfold trim. rewrite filter_split_trim_end, filter_split_trim_start. reflexivity. Qed.
