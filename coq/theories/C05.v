From Coq Require Import List NArith ZArith Bool Lia.
From Coq.Strings Require Import Byte.
From PM Require Import Base Lemmas Text TextLemmas Model Skeleton Segs Inj.
Import ListNotations.
Local Open Scope N_scope.

Section C5. Variable cfg : config.
Context {T E : Type} (sh : shape T E).
Hypothesis Hds : dir_sub cfg = true.
Hypothesis Hdq : dir_qual cfg = true.

(* ---- faults that break the skeleton itself: the string is pkg: /* body [?q] [#sub] with an arbitrary body ---- *)
Definition asm0 (lead : nat) (body : bytes) (q sub : option bytes) : bytes :=
  s_pkg ++ repeat c_slash lead ++ body ++ opt c_qm q ++ opt c_hash sub.
Definition front (body : bytes) (q sub : option bytes) (k : bytes -> quals -> bytes -> result E (T * parts)) : result E (T * parts) :=
  dsub <- lift sh (oget sub decode_subpath) ;;
  dq <- lift sh (match q with Some qs => decode_quals cfg (split c_amp qs) [] | None => Ok [] end) ;;
  k body dq dsub.
Lemma parse_front lead body q sub :
  (forall u, body <> c_slash :: u) ->
  noco c_hash sub -> (sub = None -> ~ In c_hash body /\ noco c_hash q) ->
  noco c_qm q -> (q = None -> ~ In c_qm body) ->
  parse cfg sh (asm0 lead body q sub) =
  front body q sub (fun b dq dsub =>
    if is_empty b then Err (sh_inj sh (EMissing FType)) else
    match split_once c_slash b with None => Err (sh_inj sh (EMissing FName)) | Some (ty, s5) =>
    if negb (valid_type cfg ty) then Err (sh_inj sh EInvalidType) else
    t <- sh_from_str sh ty ;; x6 <- lift sh (take_ver cfg s5) ;; x7 <- lift sh (take_ns (fst x6)) ;;
    name <- lift sh (decode (fst x7)) ;;
    build cfg sh t {| p_ns := snd x7; p_name := name; p_ver := snd x6; p_quals := dq; p_sub := dsub |} end).
Proof.
  intros Hb Hs1 Hs2 Hq1 Hq2. unfold parse, asm0, front. rewrite strip_prefix_app.
  (* leading slashes: body may be empty, then the next character is '?' or '#' or nothing, never '/' *)
  rewrite trim_start_repeat.
  2:{ intros u. destruct body as [|x b']; [|cbn; intros [= -> _]; eapply Hb; reflexivity].
      cbn [app]. destruct q as [qs|]; cbn [opt app]; [discriminate|]. destruct sub as [sp|]; cbn [opt]; discriminate. }
  set (b3 := body ++ opt c_qm q).
  replace (body ++ opt c_qm q ++ opt c_hash sub) with (b3 ++ opt c_hash sub) by (unfold b3; rewrite <- app_assoc; reflexivity).
  rewrite take_sub_opt, xsplit_opt_opt.
  2:{ rewrite Hds. destruct sub as [sp|]; [exact Hs1|]. destruct (Hs2 eq_refl) as [H1 H2]. unfold b3. intros Hin. apply in_app_or in Hin. destruct Hin as [Hin|Hin]; [tauto|].
      apply in_opt in Hin. destruct Hin as [Hin|Hin]; [discriminate Hin|]. destruct q; [exact (H2 Hin)|exact Hin]. }
  rewrite lift_bind. destruct (oget sub decode_subpath) as [dsub|e]; [|reflexivity]. cbn [lift bind fst snd].
  unfold b3. rewrite take_quals_opt, xsplit_opt_opt by (rewrite Hdq; destruct q; [exact Hq1|apply Hq2; reflexivity]).
  rewrite lift_bind. destruct (match q with Some qs => _ | None => _ end) as [dq|e]; [|reflexivity]. cbn [lift bind fst snd]. reflexivity.
Qed.

Definition front_ok (q sub : option bytes) : Prop :=
  (exists d, oget sub decode_subpath = @Ok parse_error _ d) /\
  (exists d, (match q with Some qs => decode_quals cfg (split c_amp qs) [] | None => Ok [] end) = @Ok parse_error _ d).

(* C05: the scheme *)
Theorem C05_scheme s : strip_prefix s_pkg s = None -> parse cfg sh s = Err (sh_inj sh EScheme).
Proof. intros H. unfold parse. rewrite H. reflexivity. Qed.
(* C05: nothing between the leading slashes and the first '?' / '#' *)
Theorem C05_no_type lead q sub : noco c_hash sub -> (sub = None -> noco c_hash q) -> noco c_qm q -> front_ok q sub ->
  parse cfg sh (asm0 lead [] q sub) = Err (sh_inj sh (EMissing FType)).
Proof.
  intros H1 H2 H3 [[d1 E1] [d2 E2]]. rewrite parse_front; try assumption; try discriminate.
  - unfold front. rewrite E1. cbn [lift bind]. rewrite E2. reflexivity.
  - intros ->. split; [tauto|apply H2; reflexivity].
  - intros _. tauto.
Qed.
(* C05: a type but no '/' after it *)
Theorem C05_no_name lead body q sub : body <> [] -> ~ In c_slash body ->
  noco c_hash sub -> (sub = None -> ~ In c_hash body /\ noco c_hash q) -> noco c_qm q -> (q = None -> ~ In c_qm body) -> front_ok q sub ->
  parse cfg sh (asm0 lead body q sub) = Err (sh_inj sh (EMissing FName)).
Proof.
  intros Hne Hns H1 H2 H3 H4 [[d1 E1] [d2 E2]]. rewrite parse_front; try assumption.
  - unfold front. rewrite E1. cbn [lift bind]. rewrite E2. cbn [lift bind]. replace (is_empty body) with false by (destruct body; [congruence|reflexivity]).
    rewrite split_once_none by exact Hns. reflexivity.
  - intros u ->. apply Hns. left. reflexivity.
Qed.
(* C05: a type part with an invalid (for instance percent-encoded) character *)
Theorem C05_bad_type lead ty rest q sub : ty <> [] -> ~ In c_slash ty -> valid_type cfg ty = false ->
  noco c_hash sub -> (sub = None -> ~ In c_hash (ty ++ c_slash :: rest) /\ noco c_hash q) -> noco c_qm q -> (q = None -> ~ In c_qm (ty ++ c_slash :: rest)) -> front_ok q sub ->
  parse cfg sh (asm0 lead (ty ++ c_slash :: rest) q sub) = Err (sh_inj sh EInvalidType).
Proof.
  intros Hne Hns Hv H1 H2 H3 H4 [[d1 E1] [d2 E2]]. rewrite parse_front; try assumption.
  - unfold front. rewrite E1. cbn [lift bind]. rewrite E2. cbn [lift bind]. replace (is_empty (ty ++ c_slash :: rest)) with false by (destruct ty; reflexivity).
    rewrite split_once_app by exact Hns. rewrite Hv. reflexivity.
  - intros u. destruct ty as [|x ty']; [congruence|]. cbn. intros [= -> _]. apply Hns. left. reflexivity.
Qed.

(* C05: with the skeleton intact, the error is that of the first failing check, in source order *)
Theorem C05_first r : cfg_ok cfg -> WFr cfg r -> parse cfg sh (asm r) = checks cfg sh r.
Proof. apply parse_skeleton. Qed.
Corollary C05_only_sub r e : cfg_ok cfg -> WFr cfg r -> oget (r_sub r) decode_subpath = Err e -> parse cfg sh (asm r) = Err (sh_inj sh e).
Proof. intros C W H. rewrite parse_skeleton by assumption. unfold checks. rewrite H. reflexivity. Qed.
Corollary C05_only_version r e : cfg_ok cfg -> WFr cfg r ->
  (exists d, oget (r_sub r) decode_subpath = @Ok parse_error _ d) ->
  (exists d, (match r_q r with Some qs => decode_quals cfg (split c_amp qs) [] | None => Ok [] end) = @Ok parse_error _ d) ->
  (exists t, sh_from_str sh (r_ty r) = Ok t) ->
  oget (r_ver r) decode = Err e -> parse cfg sh (asm r) = Err (sh_inj sh e).
Proof.
  intros C W [d1 E1] [d2 E2] [t Et] H. rewrite parse_skeleton by assumption. unfold checks. rewrite E1. cbn [lift bind]. rewrite E2. cbn [lift bind].
  rewrite Et. cbn [bind]. rewrite H. reflexivity.
Qed.
End C5.
Print Assumptions C05_bad_type. Print Assumptions C05_only_version.
