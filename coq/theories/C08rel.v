From Coq Require Import List NArith ZArith Bool Lia.
From Coq.Strings Require Import Byte.
From PM Require Import Base Lemmas Text TextLemmas Model Skeleton Quals Lower Lower2 C15.
Import ListNotations.
Local Open Scope N_scope.

Section REL. Variable cfg : config.
Hypothesis Hcfg : cfg_ok cfg.
Hypothesis Hfb : fold_blocks cfg = true.
Hypothesis Hfa : fold_ascii cfg = true.
Hypothesis Htsp : forallb (fun b => bn b <? 128) (type_special cfg) = true.
Let G := string_shape cfg.
Let P := ptype_shape cfg.

Definition rule (t : ptype) (n : bytes) : bytes :=
  match t with NuGet => lowercase_str cfg n | PyPI => fix_pypi_name cfg n | _ => n end.
Lemma rule_nil t : rule t [] = [].
Proof. destruct t; try reflexivity. Qed.
Lemma pt_finish_rule t p t1 p1 : pt_finish cfg t p = Ok (t1, p1) -> t1 = t /\ p1 = with_name p (rule t (p_name p)).
Proof. unfold pt_finish. destruct t; try (intros [= <- <-]; split; [reflexivity|destruct p; reflexivity]).
  destruct (maven_ns_missing cfg (p_ns p)); [discriminate|]. intros [= <- <-]. split; [reflexivity|destruct p; reflexivity]. Qed.

(* C08: the typed parser is the generic parser followed by the type's name rule *)
Theorem C08_rel s t p : utf8_valid s = true -> parse cfg P s = Ok (t, p) ->
  exists g, parse cfg G s = Ok (pt_name t, g) /\ p = with_name g (rule t (p_name g)).
Proof.
  intros Hvs H. apply parse_sound in H. destruct H as (r & W & -> & H). rewrite (parse_skeleton cfg G r Hcfg W). unfold checks in *.
  apply bind_ok in H. destruct H as (sub & H3 & H). apply lift_ok in H3. rewrite H3. cbn [lift bind].
  apply bind_ok in H. destruct H as (q & H4 & H). apply lift_ok in H4. rewrite H4. cbn [lift bind].
  apply bind_ok in H. destruct H as (t0 & Ht & H). cbn [sh_from_str P ptype_shape G string_shape bind] in *.
  destruct (pt_from_str cfg (r_ty r)) as [t0'|] eqn:Ept; [|discriminate]. injection Ht as ->.
  apply bind_ok in H. destruct H as (ver & H6 & H). apply lift_ok in H6. rewrite H6. cbn [lift bind].
  apply bind_ok in H. destruct H as (ns & H7 & H). apply lift_ok in H7. rewrite H7. cbn [lift bind].
  apply bind_ok in H. destruct H as (name & Hn & H). apply lift_ok in Hn. rewrite Hn. cbn [lift bind].
  assert (Hty : valid_type cfg (r_ty r) = true) by (destruct W; assumption).
  assert (Haty : is_ascii_str (r_ty r) = true).
  { unfold valid_type in Hty. apply andb_true_iff in Hty. destruct Hty as [_ Hty]. unfold is_ascii_str. rewrite forallb_forall in *. intros b Hb.
    specialize (Hty b Hb). apply orb_true_iff in Hty. destruct Hty as [Ha|Hm]; [apply (alnum_ascii cfg) in Ha; lia|].
    apply Htsp. apply mem_In. exact Hm. }
  assert (Hvty : utf8_valid (r_ty r) = true) by (unfold utf8_valid; rewrite (utf8_dec_ascii cfg _ Haty); reflexivity).
  pose proof (C15_sound cfg Hfb Hfa _ _ Hvty Ept) as Hname.
  (* both builds *)
  unfold build in H |- *. cbn [sh_finish sh_inj P ptype_shape G string_shape] in *. unfold str_finish. rewrite Hty.
  destruct (pt_finish cfg t0 _) as [[t1 p1]|e] eqn:Ef; [|discriminate]. apply pt_finish_rule in Ef. destruct Ef as [-> ->].
  cbn [p_name p_quals with_name with_quals] in *.
  destruct (is_empty (rule t0 name)) eqn:Er; [discriminate|].
  replace (is_empty name) with false by (destruct name; [rewrite rule_nil in Er; discriminate|reflexivity]).
  set (q1 := q_retain (fun _ v => negb (is_empty v)) q) in *.
  destruct (q_get cfg q1 s_checksum) as [v|].
  - destruct (cs_try_from cfg v) as [m|]; [|discriminate]. destruct (cs_to_text m) as [txt|]; [|discriminate].
    destruct (q_insert cfg q1 s_checksum txt) as [q2|]; [|discriminate]. injection H as <- <-. rewrite Hname. eexists. split; reflexivity.
  - injection H as <- <-. rewrite Hname. eexists. split; reflexivity.
Qed.
(* a well-formed but unknown type: the generic parser accepts, the typed one answers UnsupportedType *)
Theorem C08_unknown s ty g : parse cfg G s = Ok (ty, g) -> (forall r, s = asm r -> pt_from_str cfg (r_ty r) = None) ->
  parse cfg P s = Err PUnsupportedType.
Proof.
  intros H Hun. apply parse_sound in H. destruct H as (r & W & -> & H). rewrite (parse_skeleton cfg P r Hcfg W). unfold checks in *.
  apply bind_ok in H. destruct H as (sub & H3 & H). apply lift_ok in H3. rewrite H3. cbn [lift bind].
  apply bind_ok in H. destruct H as (q & H4 & H). apply lift_ok in H4. rewrite H4. cbn [lift bind].
  cbn [sh_from_str P ptype_shape]. rewrite (Hun r eq_refl). reflexivity.
Qed.
End REL.
Print Assumptions C08_rel. Print Assumptions C08_unknown.
