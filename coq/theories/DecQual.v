From Coq Require Import List NArith ZArith Bool Lia Sorted.
From Coq.Strings Require Import Byte.
From PM Require Import Base Lemmas Text TextLemmas Model Quals Canon.
Import ListNotations.
Local Open Scope N_scope.

Definition all_bytes : list byte := map nb (map N.of_nat (seq 0 256)).
Lemma all_bytes_in b : In b all_bytes.
Proof. unfold all_bytes. rewrite <- (nb_bn b). apply in_map. apply in_map_iff. exists (N.to_nat (bn b)). pose proof (bn_bound b). split; [lia|]. apply in_seq. lia. Qed.

Section DQ. Variable cfg : config.
Hypothesis Hasc : tbl_ascii_ok cfg = true.
Hypothesis Hksp : key_special_ascii cfg = true.
(* key characters are never percent-encoded in the query position, and '=' / '&' are not key characters *)
Definition keychars_plain : bool :=
  forallb (fun b => negb (is_alnum b || mem b (key_special cfg)) || negb (should_encode (set_query cfg) b)) all_bytes.
Hypothesis Hkp : keychars_plain = true.
Hypothesis Hk_eq : mem c_eq (key_special cfg) = false.
Hypothesis Hq_amp : mem c_amp (set_query cfg) = true.
Hypothesis Hq_pct : mem c_pct (set_query cfg) = true.

Lemma penc_key k : valid_key cfg k = true -> penc (set_query cfg) k = k.
Proof.
  unfold valid_key. rewrite andb_true_iff. intros [_ H]. rewrite forallb_forall in H.
  induction k as [|b k IH]; [reflexivity|]. cbn [penc flat_map]. unfold enc_byte.
  unfold keychars_plain in Hkp. rewrite forallb_forall in Hkp. specialize (Hkp b (all_bytes_in b)).
  rewrite (H b (or_introl eq_refl)) in Hkp. cbn in Hkp. apply negb_true_iff in Hkp. rewrite Hkp. cbn [app]. f_equal.
  apply IH. intros x Hx. apply H. right. exact Hx.
Qed.
Lemma key_no_eq k : valid_key cfg k = true -> ~ In c_eq k.
Proof.
  unfold valid_key. rewrite andb_true_iff, forallb_forall. intros [_ H] Hin. specialize (H _ Hin). rewrite Hk_eq in H. discriminate H.
Qed.

Definition vals_ok (q : quals) : Prop := Forall (fun kv => snd kv <> [] /\ utf8_valid (snd kv) = true) q.

Lemma QInv_app_l a b : QInv cfg (a ++ b) -> QInv cfg a.
Proof.
  unfold QInv. rewrite map_app. intros [Hs Hc]. split.
  - clear Hc. induction (map fst a) as [|x l IH]; [constructor|]. cbn in Hs. inversion Hs; subst. constructor; [apply IH; assumption|].
    apply Forall_app in H2. tauto.
  - apply Forall_app in Hc. tauto.
Qed.
Lemma QInv_mid_lt a k v b : QInv cfg (a ++ (k, v) :: b) -> Forall (fun kv => klt (fst kv) k) a.
Proof.
  unfold QInv. rewrite map_app. cbn [map fst]. intros [Hs _]. induction a as [|[ak av] a IH]; [constructor|].
  cbn in Hs. inversion Hs; subst. constructor; [|apply IH; assumption]. apply Forall_app in H2. destruct H2 as [_ H2]. inversion H2; subst. assumption.
Qed.
Lemma QInv_mid_key a k v b : QInv cfg (a ++ (k, v) :: b) -> canon_key cfg k.
Proof. unfold QInv. rewrite map_app. cbn [map fst]. intros [_ Hc]. apply Forall_app in Hc. destruct Hc as [_ Hc]. inversion Hc; subst. assumption. Qed.
Lemma insert_at_end (q : quals) x : insert_at q (length q) x = q ++ [x].
Proof. induction q as [|y q IH]; [reflexivity|]. cbn. rewrite IH. reflexivity. Qed.

Lemma decode_quals_canon rest : forall pre, QInv cfg (pre ++ rest) -> vals_ok rest ->
  decode_quals cfg (map (item cfg) rest) pre = Ok (pre ++ rest).
Proof.
  induction rest as [|[k v] rest IH]; intros pre HQ Hv; cbn [map decode_quals].
  - rewrite app_nil_r. reflexivity.
  - pose proof (QInv_mid_key _ _ _ _ HQ) as [Hk Hlk]. inversion Hv as [|? ? [Hvne Hvv] Hv']; subst. cbn [fst snd] in *.
    unfold item. cbn [fst snd]. rewrite penc_key by exact Hk.
    rewrite split_once_app by (apply key_no_eq; exact Hk).
    destruct (check_key cfg k) as [m|e] eqn:Ec; [|unfold check_key in Ec; rewrite Hk in Ec; destruct (forallb is_lower_ascii k); discriminate Ec].
    cbn [bind]. destruct (into_key_lk cfg m k Ec) as (Hik & Hms & _). unfold search. rewrite Hms.
    rewrite (search_append cfg Hasc Hksp pre k); [|eapply QInv_app_l; exact HQ|exact Hk|rewrite Hlk; eapply QInv_mid_lt; exact HQ].
    rewrite decode_penc by assumption. cbn [bind].
    replace (is_empty v) with false by (destruct v; [congruence|reflexivity]).
    rewrite insert_at_end, Hik, Hlk.
    rewrite IH; [rewrite <- app_assoc; reflexivity|rewrite <- app_assoc; exact HQ|exact Hv'].
Qed.

Theorem decode_quals_items q : q <> [] -> QInv cfg q -> vals_ok q ->
  decode_quals cfg (split c_amp (join c_amp (map (item cfg) q))) [] = Ok q.
Proof.
  intros Hne HQ Hv. rewrite split_join.
  - apply (decode_quals_canon q [] HQ Hv).
  - destruct q; [congruence|discriminate].
  - apply Forall_forall. intros it Hit. apply in_map_iff in Hit. destruct Hit as ([k v] & <- & Hkv). unfold item. cbn [fst snd]. intros Hin.
    apply in_app_or in Hin. destruct Hin as [Hin|[Hin|Hin]]; [|discriminate Hin|];
      revert Hin; apply penc_nosep; cbn; tauto || exact Hq_amp.
Qed.
End DQ.
Print Assumptions decode_quals_items.
