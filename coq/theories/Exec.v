(* Executable interpreters for the case language of the correspondence check: builder call sequences,
   Qualifiers / Entry operation sequences with every returned value, Checksum operation sequences,
   comparisons, and the parameterised family of user-written shapes.  Everything here is a total
   function over the model of Model.v; the OCaml driver only parses case lines and prints results. *)
From Coq Require Import List NArith Bool.
From Coq.Strings Require Import Byte.
From PM Require Import Base Text Model Order C14.
Import ListNotations.
Local Open Scope N_scope.

Section Exec. Variable cfg : config.

(* ---------------- Checksum operation sequences ---------------- *)
Inductive cop := CInsert (alg bs : bytes) | CInsertRaw (alg raw : bytes) | CRemove (alg : bytes).
Definition cstep (m : cmap) (o : cop) : cmap :=
  match o with
  | CInsert a bs => cs_insert_raw cfg m a (hex_encode bs)
  | CInsertRaw a r => cs_insert_raw cfg m a r
  | CRemove a => cm_remove m a
  end.
Definition crun (ops : list cop) : cmap := fold_left cstep ops [].
Inductive cs_text_res := CsPanic | CsErr | CsText (t : bytes) (back : option cmap).
Definition cs_text_of (m : cmap) : cs_text_res :=
  if cs_cap_panics cfg m then CsPanic else
  match cs_to_text m with
  | Err _ => CsErr
  | Ok t => CsText t (match cs_try_from cfg t with Ok m' => Some (cs_sort m') | Err _ => None end)
  end.
Definition cs_show (m : cmap) := (cs_sort m, cs_text_of m).
Definition cs_parse_show (v : bytes) : option ((cmap * cs_text_res) * list (option bytes)) :=
  match cs_try_from cfg v with
  | Err _ => None
  | Ok m => Some (cs_show m, map (fun e => hex_decode (snd e)) (cs_sort m))
  end.

(* ---------------- builder ---------------- *)
Definition s_repo : bytes := ["r";"e";"p";"o";"s";"i";"t";"o";"r";"y";"_";"u";"r";"l"]%byte.
Section Bld. Context {T : Type}.
Inductive xbop :=
| XName (s : bytes) | XNs (s : bytes) | XNoNs | XVer (s : bytes) | XNoVer | XSub (s : bytes) | XNoSub | XType (t : T)
| XQual (k v : bytes) | XUnqual (k : bytes) | XClearQ
| XCs (ops : list cop) | XNoCs | XRepo (s : bytes) | XNoRepo
| XDirectIns (k v : bytes) | XDirectRem (k : bytes)
| XTyped (k v : bytes) | XUntyped (k : bytes).   (* with_typed_qualifier(Some(v)) / (None) for a user-written KnownQualifierKey with KEY = k *)
Inductive bstop := StopQE | StopCE | StopPanic.
Definition set_q (p : parts) (q : quals) := with_quals p q.
Definition xstep (b : T * parts) (o : xbop) : result bstop (T * parts) :=
  let '(t, p) := b in
  match o with
  | XName s => Ok (t, with_name p s)
  | XNs s => Ok (t, {| p_ns := s; p_name := p_name p; p_ver := p_ver p; p_quals := p_quals p; p_sub := p_sub p |})
  | XNoNs => Ok (t, {| p_ns := []; p_name := p_name p; p_ver := p_ver p; p_quals := p_quals p; p_sub := p_sub p |})
  | XVer s => Ok (t, {| p_ns := p_ns p; p_name := p_name p; p_ver := s; p_quals := p_quals p; p_sub := p_sub p |})
  | XNoVer => Ok (t, {| p_ns := p_ns p; p_name := p_name p; p_ver := []; p_quals := p_quals p; p_sub := p_sub p |})
  | XSub s => Ok (t, {| p_ns := p_ns p; p_name := p_name p; p_ver := p_ver p; p_quals := p_quals p; p_sub := s |})
  | XNoSub => Ok (t, {| p_ns := p_ns p; p_name := p_name p; p_ver := p_ver p; p_quals := p_quals p; p_sub := [] |})
  | XType t' => Ok (t', p)
  | XQual k v => match q_insert cfg (p_quals p) k v with Ok q => Ok (t, set_q p q) | Err _ => Err StopQE end
  | XUnqual k | XDirectRem k | XUntyped k => Ok (t, set_q p (fst (q_remove cfg (p_quals p) k)))
  | XClearQ => Ok (t, set_q p [])
  | XCs ops =>
      let m := crun ops in
      if cs_cap_panics cfg m then Err StopPanic else
      match cs_to_text m with
      | Err _ => Err StopCE
      | Ok txt => match q_insert cfg (p_quals p) s_checksum txt with Ok q => Ok (t, set_q p q) | Err _ => Err StopPanic end
      end
  | XNoCs => Ok (t, set_q p (fst (q_remove cfg (p_quals p) s_checksum)))
  | XRepo s => match q_insert cfg (p_quals p) s_repo s with Ok q => Ok (t, set_q p q) | Err _ => Err StopPanic end
  | XNoRepo => Ok (t, set_q p (fst (q_remove cfg (p_quals p) s_repo)))
  | XDirectIns k v => match q_insert cfg (p_quals p) k v with Ok q => Ok (t, set_q p q) | Err _ => Ok (t, p) end
  | XTyped k v => match q_insert cfg (p_quals p) k v with Ok q => Ok (t, set_q p q) | Err _ => Err StopPanic end     (* insert_typed unwraps *)
  end.
Fixpoint xrun (b : T * parts) (ops : list xbop) : result bstop (T * parts) :=
  match ops with [] => Ok b | o :: r => match xstep b o with Ok b' => xrun b' r | Err e => Err e end end.
End Bld.

(* a PURL-producing case: value or terminal outcome *)
Inductive made (T E : Type) := MPurl (t : T) (p : parts) | MErr (e : E) | MStop (s : bstop).
Arguments MPurl {T E}. Arguments MErr {T E}. Arguments MStop {T E}.
Definition of_res {T E} (r : result E (T * parts)) : made T E :=
  match r with Ok (t, p) => MPurl t p | Err e => MErr e end.
Definition make_parse {T E} (sh : shape T E) (s : bytes) : made T E := of_res (parse cfg sh s).
Definition make_build {T E} (sh : shape T E) (t : T) (name0 : bytes) (ops : list xbop) : made T E :=
  match xrun (t, with_name parts0 name0) ops with
  | Err s => MStop s
  | Ok (t', p) => of_res (build cfg sh t' p)
  end.
(* main ## reparse ## rebuild; the canonical string is None when Display panics *)
Definition canon_of {T E} (sh : shape T E) (t : T) (p : parts) : option bytes :=
  if format_panics cfg sh t then None else Some (format cfg sh t p).
Definition triple {T E} (sh shp : shape T E) (m : made T E) :=
  match m with
  | MPurl t p =>
      let c := canon_of sh t p in
      (m, Some (c, option_map (fun s => of_res (parse cfg shp s)) c, of_res (build cfg sh t p)))
  | _ => (m, None)
  end.

Definition cow_shape : shape bytes parse_error :=
  {| sh_from_str := fun s => Ok s; sh_finish := cow_borrowed_finish cfg; sh_type := fun t => t; sh_inj := fun e => e |}.

(* ---------------- comparison (derived Eq / Ord on GenericPurl) ---------------- *)
Definition pt_index (t : ptype) : N :=
  match t with Cargo => 0 | Gem => 1 | Golang => 2 | Maven => 3 | Npm => 4 | NuGet => 5 | PyPI => 6 end.
Definition cmp_parts (p q : parts) : comparison :=
  lex (bcmp (p_ns p) (p_ns q)) (lex (bcmp (p_name p) (p_name q)) (lex (bcmp (p_ver p) (p_ver q))
      (lex (cmp_quals (p_quals p) (p_quals q)) (bcmp (p_sub p) (p_sub q))))).
Definition cmp_g (x y : bytes * parts) : comparison := lex (bcmp (fst x) (fst y)) (cmp_parts (snd x) (snd y)).
Definition cmp_t (x y : ptype * parts) : comparison := lex (N.compare (pt_index (fst x)) (pt_index (fst y))) (cmp_parts (snd x) (snd y)).
Definition cmp_made {T E} (c : T * parts -> T * parts -> comparison) (x y : made T E) : option comparison :=
  match x, y with MPurl t p, MPurl u q => Some (c (t, p) (u, q)) | _, _ => None end.

(* ---------------- Qualifiers operation sequences ---------------- *)
Inductive qxop :=
| QIns (k v : bytes) | QRem (k : bytes) | QGet (k : bytes) | QGetMut (k v : bytes) | QHas (k : bytes)
| QIdx (k : bytes) | QIdxSet (k v : bytes) | QClear | QRetNE | QRetKeyNe (k : bytes) | QRetMut (suf : bytes)
| QIterMut (suf : bytes)
| QEOrIns (k v : bytes) | QEOrInsWith (k v : bytes) | QEAndMod (k suf v : bytes) | QEInsert (k v : bytes)
| QERemove (k : bytes) | QERemoveEntry (k : bytes) | QEGetMut (k suf : bytes)
| QLen | QTRepo (u : bytes) | QTGet | QTHas | QTDel | QTCs (ops : list cop) | QTCsGet | QKeyCmp (s : bytes)
| QTKIns (i : nat) (v : bytes) | QTKGet (i : nat) | QTKDel (i : nat)
| QTUIns (k v : bytes) | QTUDel (k : bytes)      (* insert_typed / remove_typed of a user-written KnownQualifierKey with KEY = k *)
| QEAndClr (k v : bytes).                        (* entry(k).and_modify(|v| v.clear()).or_insert(v): the callback empties the value, the entry stays *)
Inductive qxout :=
| XoU | XoUV (v : bytes) | XoE | XoOpt (o : option bytes) | XoB (b : bool) | XoPanic
| XoVC (v : bytes) (called : bool) | XoOcc2 (g old : bytes) | XoVac | XoVacV (v : bytes) | XoOcc (v : bytes) | XoOccKV (k v : bytes)
| XoLen (n : N) (e : bool) | XoCs (m : cmap) | XoKe (l : list (bool * comparison)).
Definition map_vals (g : bytes -> bytes) (q : quals) : quals := map (fun kv => (fst kv, g (snd kv))) q.
Definition even_len (v : bytes) : bool := N.of_nat (length v) mod 2 =? 0.
Definition q_set (q : quals) (k v : bytes) : quals := match q_insert cfg q k v with Ok q' => q' | Err _ => q end.
Definition cmp_is_eq (c : comparison) : bool := match c with Eq => true | _ => false end.
Definition qxstep (q : quals) (o : qxop) : quals * qxout :=
  match o with
  | QIns k v => match q_insert cfg q k v with Ok q' => (q', XoUV v) | Err _ => (q, XoE) end
  | QRem k => let '(q', r) := q_remove cfg q k in (q', XoOpt r)
  | QGet k => (q, XoOpt (q_get cfg q k))
  | QGetMut k v => match q_get cfg q k with Some old => (q_set q k v, XoOpt (Some old)) | None => (q, XoOpt None) end
  | QHas k => (q, XoB (match q_get cfg q k with Some _ => true | None => false end))
  | QIdx k => (q, match q_get cfg q k with Some v => XoOpt (Some v) | None => XoPanic end)
  | QIdxSet k v => match q_get cfg q k with Some _ => (q_set q k v, XoU) | None => (q, XoPanic) end
  | QClear => ([], XoU)
  | QRetNE => (q_retain (fun _ v => negb (is_empty v)) q, XoU)
  | QRetKeyNe k => (q_retain (fun qk _ => negb (cmp_is_eq (qkey_cmp cfg qk k))) q, XoU)
  | QRetMut suf => (filter (fun kv => even_len (snd kv)) (map_vals (fun v => v ++ suf) q), XoU)
  | QIterMut suf => (map_vals (fun v => v ++ suf) q, XoU)
  | QEOrIns k v =>
      match check_key cfg k with Err _ => (q, XoE) | Ok m =>
        match search cfg q m with
        | Found i => (q, match nth_error q i with Some kv => XoOpt (Some (snd kv)) | None => XoPanic end)
        | NotFound i => (insert_at q i (into_key m, v), XoOpt (Some v)) end end
  | QEOrInsWith k v =>
      match check_key cfg k with Err _ => (q, XoE) | Ok m =>
        match search cfg q m with
        | Found i => (q, match nth_error q i with Some kv => XoVC (snd kv) false | None => XoPanic end)
        | NotFound i => (insert_at q i (into_key m, v), XoVC v true) end end
  | QEAndMod k suf v =>
      match check_key cfg k with Err _ => (q, XoE) | Ok m =>
        match search cfg q m with
        | Found i => match nth_error q i with Some kv => (set_nth q i (snd kv ++ suf), XoVC (snd kv ++ suf) true) | None => (q, XoPanic) end
        | NotFound i => (insert_at q i (into_key m, v), XoVC v false) end end
  | QEInsert k v =>
      match check_key cfg k with Err _ => (q, XoE) | Ok m =>
        match search cfg q m with
        | Found i => match nth_error q i with Some kv => (set_nth q i v, XoOcc2 (snd kv) (snd kv)) | None => (q, XoPanic) end
        | NotFound i => (insert_at q i (into_key m, v), XoVacV v) end end
  | QERemove k =>
      match check_key cfg k with Err _ => (q, XoE) | Ok m =>
        match search cfg q m with
        | Found i => match nth_error q i with Some kv => (remove_at q i, XoOcc (snd kv)) | None => (q, XoPanic) end
        | NotFound _ => (q, XoVac) end end
  | QERemoveEntry k =>
      match check_key cfg k with Err _ => (q, XoE) | Ok m =>
        match search cfg q m with
        | Found i => match nth_error q i with Some kv => (remove_at q i, XoOccKV (fst kv) (snd kv)) | None => (q, XoPanic) end
        | NotFound _ => (q, XoVac) end end
  | QEGetMut k suf =>
      match check_key cfg k with Err _ => (q, XoE) | Ok m =>
        match search cfg q m with
        | Found i => match nth_error q i with Some kv => (set_nth q i (snd kv ++ suf), XoOcc (snd kv ++ suf)) | None => (q, XoPanic) end
        | NotFound _ => (q, XoVac) end end
  | QLen => (q, XoLen (N.of_nat (length q)) (match q with [] => true | _ => false end))
  | QTRepo u => match q_insert cfg q s_repo u with Ok q' => (q', XoU) | Err _ => (q, XoPanic) end
  | QTGet => (q, XoOpt (q_get cfg q s_repo))
  | QTHas => (q, XoB (match q_get cfg q s_repo with Some _ => true | None => false end))
  | QTDel => (fst (q_remove cfg q s_repo), XoU)
  | QTCs ops =>
      let m := crun ops in
      if cs_cap_panics cfg m then (q, XoPanic) else
      match cs_to_text m with
      | Err _ => (q, XoE)
      | Ok txt => match q_insert cfg q s_checksum txt with Ok q' => (q', XoU) | Err _ => (q, XoPanic) end
      end
  | QTCsGet => (q, match q_get cfg q s_checksum with
                   | None => XoOpt None
                   | Some v => match cs_try_from cfg v with Ok m => XoCs (cs_sort m) | Err _ => XoE end end)
  | QKeyCmp s => (q, XoKe (map (fun kv => (cmp_is_eq (qkey_cmp cfg (fst kv) s), qkey_cmp cfg (fst kv) s)) q))
  | QTKIns i v => match q_insert cfg q (nth i (typed_keys cfg) []) v with Ok q' => (q', XoU) | Err _ => (q, XoPanic) end
  | QTKGet i => (q, XoOpt (q_get cfg q (nth i (typed_keys cfg) [])))
  | QTKDel i => (fst (q_remove cfg q (nth i (typed_keys cfg) [])), XoU)
  | QTUIns k v => match q_insert cfg q k v with Ok q' => (q', XoU) | Err _ => (q, XoPanic) end
  | QTUDel k => (fst (q_remove cfg q k), XoU)
  | QEAndClr k v =>
      match check_key cfg k with Err _ => (q, XoE) | Ok m =>
        match search cfg q m with
        | Found i => match nth_error q i with Some kv => (set_nth q i [], XoVC [] true) | None => (q, XoPanic) end
        | NotFound i => (insert_at q i (into_key m, v), XoVC v false) end end
  end.
Fixpoint qxrun (q : quals) (ops : list qxop) : quals * list qxout :=
  match ops with
  | [] => (q, [])
  | o :: r => let '(q1, out) := qxstep q o in let '(q2, outs) := qxrun q1 r in (q2, out :: outs)
  end.

(* ---------------- combined names ---------------- *)
Definition comb_case (t : ptype) (s : bytes) :=
  let '(ns, name) := combined_split t s in
  let p := {| p_ns := match ns with Some n => n | None => [] end; p_name := name; p_ver := []; p_quals := []; p_sub := [] |} in
  (p, match build cfg (ptype_shape cfg) t p with
      | Ok (t', p') =>
          let cn := combined_name t' p' in
          let '(ns2, name2) := combined_split t' cn in
          Ok (p', cn, (match ns2 with Some n => n | None => [] end, name2))
      | Err e => Err e end).

Definition comb_purl (s : bytes) :=
  match parse cfg (ptype_shape cfg) s with
  | Err e => Err e
  | Ok (t, p) => let cn := combined_name t p in
                 let '(ns2, name2) := combined_split t cn in
                 Ok (t, p, cn, (match ns2 with Some n => n | None => [] end, name2))
  end.

(* ---------------- the family of user-written shapes (C14) ---------------- *)
Inductive fconv := ConvAlways | ConvFail | ConvCustom.
Inductive ftyrep := TyLower | TyRaw | TyInvalid.
Inductive fhook := HkNothing | HkFail | HkClearName | HkNs | HkNoVer | HkVer | HkSub | HkEmptyQ | HkQual | HkBadCs | HkCs | HkNameX | HkType2 | HkBlankCs | HkClearQ | HkNsSlashes | HkSubDots | HkOddCs.
Inductive ferr := FParse (e : parse_error) | FConv | FHook.
Definition s_custom : bytes := ["c";"u";"s";"t";"o";"m"]%byte.
Definition B1 (b : byte) : bytes := [b].
Definition fam_hook1 (tp : bytes * parts) (hk : fhook) : result ferr (bytes * parts) :=
  let '(t, p) := tp in
  let setq k v := (t, with_quals p (q_set (p_quals p) k v)) in
  match hk with
  | HkNothing => Ok tp
  | HkFail => Err FHook
  | HkClearName => Ok (t, with_name p [])
  | HkNs => Ok (t, {| p_ns := ["H";"o";"o";"k";"/";"/";"N";"s";"/"]%byte; p_name := p_name p; p_ver := p_ver p; p_quals := p_quals p; p_sub := p_sub p |})
  | HkNoVer => Ok (t, {| p_ns := p_ns p; p_name := p_name p; p_ver := []; p_quals := p_quals p; p_sub := p_sub p |})
  | HkVer => Ok (t, {| p_ns := p_ns p; p_name := p_name p; p_ver := ["9";"%"]%byte; p_quals := p_quals p; p_sub := p_sub p |})
  | HkSub => Ok (t, {| p_ns := p_ns p; p_name := p_name p; p_ver := p_ver p; p_quals := p_quals p; p_sub := ["a";"/";".";".";"/";"b"]%byte |})
  | HkEmptyQ => Ok (setq ["z";"z"]%byte [])
  | HkQual => Ok (setq ["H";"k"]%byte ["V";"a";"l"]%byte)
  | HkBadCs => Ok (setq s_checksum ["s";"h";"a";"1";":";"z";"z"]%byte)
  | HkCs => Ok (setq s_checksum ["B";":";"0";"0";",";"a";":";"F";"F"]%byte)
  | HkNameX => Ok (t, with_name p (p_name p ++ ["X"]%byte))
  | HkType2 => Ok (t ++ ["2"]%byte, p)
  | HkBlankCs => Ok (setq s_checksum [])
  | HkClearQ => Ok (t, with_quals p [])
  | HkNsSlashes => Ok (t, {| p_ns := ["/";"/"]%byte; p_name := p_name p; p_ver := p_ver p; p_quals := p_quals p; p_sub := p_sub p |})
  | HkSubDots => Ok (t, {| p_ns := p_ns p; p_name := p_name p; p_ver := p_ver p; p_quals := p_quals p; p_sub := [".";"/";"c";"/";"/";".";"."]%byte |})
  | HkOddCs => Ok (setq s_checksum ["s";"h";"a";"1";":";"a";"b";"c"]%byte)      (* one lower-case entry with an odd number of hex digits *)
  end.
Fixpoint fam_hook (hks : list fhook) (tp : bytes * parts) : result ferr (bytes * parts) :=
  match hks with [] => Ok tp | hk :: r => match fam_hook1 tp hk with Ok tp' => fam_hook r tp' | Err e => Err e end end.
Definition fam_shape (c : fconv) (r : ftyrep) (hks : list fhook) : shape bytes ferr :=
  {| sh_from_str := fun s => match c with
                             | ConvAlways => Ok s
                             | ConvFail => Err FConv
                             | ConvCustom => if beqs (make_ascii_lowercase s) s_custom then Ok s else Err FConv end;
     sh_finish := fun t p => fam_hook hks (t, p);
     sh_type := fun t => match r with TyLower => make_ascii_lowercase t | TyRaw => t
                                  | TyInvalid => ["i";"n";" ";"v";"a";"l";"i";"d"]%byte end;
     sh_inj := FParse |}.
Definition fam_parse c r hks (s : bytes) := parse_w cfg (fam_shape c r hks) s.
Definition fam_build c r hks (t : bytes) (name0 : bytes) (ops : list (@xbop bytes)) :=
  match xrun (t, with_name parts0 name0) ops with
  | Err s => None
  | Ok (t', p) => Some (build_w cfg (fam_shape c r hks) t' p)
  end.
End Exec.
