From Coq Require Import List NArith ZArith Bool Lia.
From Coq.Strings Require Import Byte.
From PM Require Import Base Lemmas Text TextLemmas Model Quals.
Import ListNotations.
Local Open Scope N_scope.

(* ---------------- C13: the built-in string shapes compute the same function ---------------- *)
Section C13. Variable cfg : config.
Lemma mal_lower_id t : forallb is_lower_ascii t = true -> make_ascii_lowercase t = t.
Proof.
  intros H. rewrite forallb_forall in H. induction t as [|b t IH]; [reflexivity|]. cbn [make_ascii_lowercase map].
  fold (make_ascii_lowercase t). rewrite IH by (intros x Hx; apply H; right; exact Hx). f_equal.
  specialize (H b (or_introl eq_refl)). unfold lower_ascii_b, is_upper_ascii, is_lower_ascii, inr in *.
  replace ((65 <=? bn b) && (bn b <=? 90)) with false by lia. reflexivity.
Qed.
Theorem C13_finish t p : cow_borrowed_finish cfg t p = str_finish cfg t p.
Proof.
  unfold cow_borrowed_finish, str_finish. destruct (valid_type cfg t); [|reflexivity].
  destruct (forallb is_lower_ascii t) eqn:E; [|reflexivity]. rewrite (mal_lower_id t E). reflexivity.
Qed.
End C13.

(* ---------------- C18: combined names ---------------- *)
Definition ns_opt (p : parts) : option bytes := if is_empty (p_ns p) then None else Some (p_ns p).
Theorem C18_split_spec t s :
  combined_split t s =
  match t with
  | Cargo | Gem | NuGet | PyPI => (None, s)
  | Golang | Npm => match rsplit_once c_slash s with Some (a, b) => (Some a, b) | None => (None, s) end
  | Maven => match split_once c_colon s with Some (a, b) => (Some a, b) | None => (None, s) end
  end.
Proof. destruct t; reflexivity. Qed.
Definition side (t : ptype) (p : parts) : Prop :=
  match t with
  | Golang | Npm => ~ In c_slash (p_name p)
  | Maven => p_ns p <> [] /\ ~ In c_colon (p_ns p)      (* a built Maven PURL always has a namespace *)
  | _ => p_ns p = []
  end.
Theorem C18_round t p : side t p -> combined_split t (combined_name t p) = (ns_opt p, p_name p).
Proof.
  unfold side, combined_split, combined_name, ns_opt. destruct t; intros H; try (rewrite H; reflexivity).
  - destruct (is_empty (p_ns p)) eqn:E; [rewrite rsplit_once_none by exact H; reflexivity|rewrite rsplit_once_app by exact H; reflexivity].
  - destruct H as [Hne H]. replace (is_empty (p_ns p)) with false by (symmetry; apply is_empty_false; exact Hne).
    rewrite split_once_app by exact H. reflexivity.
  - destruct (is_empty (p_ns p)) eqn:E; [rewrite rsplit_once_none by exact H; reflexivity|rewrite rsplit_once_app by exact H; reflexivity].
Qed.
Print Assumptions C18_round. Print Assumptions C13_finish.

(* ---------------- C18: what build() does with the pieces of a combined name ---------------- *)
Section C18b. Variable cfg : config.
(* what build() does for a PURL without qualifiers - the PURLs builder_with_combined_name starts from: the type's finish, then the name check, nothing else *)
Theorem build_no_quals t p : p_quals p = [] ->
  build cfg (ptype_shape cfg) t p =
  match pt_finish cfg t p with
  | Err e => Err e
  | Ok (t1, p1) => if is_empty (p_name p1) then Err (PParse (EMissing FName)) else Ok (t1, p1)
  end.
Proof.
  intros Hq. unfold build. cbn [sh_finish ptype_shape sh_inj].
  assert (Hk : forall t1 p1, pt_finish cfg t p = Ok (t1, p1) -> p_quals p1 = []).
  { unfold pt_finish. intros t1 p1 H. destruct t; try (inversion H; subst; exact Hq).
    destruct (maven_ns_missing cfg (p_ns p)); inversion H; subst; exact Hq. }
  destruct (pt_finish cfg t p) as [[t1 p1]|e] eqn:E; [|reflexivity].
  specialize (Hk t1 p1 eq_refl). destruct (is_empty (p_name p1)); [reflexivity|].
  rewrite Hk. cbn [q_retain filter]. unfold q_get.
  assert (Hw : with_quals p1 [] = p1) by (destruct p1; cbn in *; subst; reflexivity).
  destruct (check_key cfg s_checksum); cbn; rewrite Hw; reflexivity.
Qed.
Definition comb_parts (t : ptype) (s : bytes) : parts :=
  let '(ns, name) := combined_split t s in
  {| p_ns := match ns with Some n => n | None => [] end; p_name := name; p_ver := []; p_quals := []; p_sub := [] |}.
(* builder_with_combined_name(t, s).build(): succeeds exactly when the split pieces satisfy the type's rule, and then yields those pieces
   (name under the type's name rule); the refusals are the missing namespace (Maven) and the missing name, in that order *)
Theorem C18_combined_build_spec t s :
  let p := comb_parts t s in
  build cfg (ptype_shape cfg) t p =
  match t with
  | Maven => if maven_ns_missing cfg (p_ns p) then Err (PMissing FNamespace)
             else if is_empty (p_name p) then Err (PParse (EMissing FName)) else Ok (t, p)
  | NuGet => if is_empty (lowercase_str cfg (p_name p)) then Err (PParse (EMissing FName)) else Ok (t, with_name p (lowercase_str cfg (p_name p)))
  | PyPI => if is_empty (fix_pypi_name cfg (p_name p)) then Err (PParse (EMissing FName)) else Ok (t, with_name p (fix_pypi_name cfg (p_name p)))
  | _ => if is_empty (p_name p) then Err (PParse (EMissing FName)) else Ok (t, p)
  end.
Proof.
  intros p. rewrite build_no_quals by (unfold p, comb_parts; destruct (combined_split t s); reflexivity).
  unfold pt_finish. destruct t; try reflexivity. destruct (maven_ns_missing cfg (p_ns p)); reflexivity.
Qed.
End C18b.
