From Coq Require Import List NArith ZArith Bool Lia.
From Coq.Strings Require Import Byte.
From PM Require Import Base Lemmas Text TextLemmas Model Quals.
Import ListNotations.
Local Open Scope N_scope.

(* ---------------- C13: the built-in string shapes compute the same function ---------------- *)
Section C13. Variable cfg : config.
Lemma mal_lower_id t : forallb is_lower_ascii t = true -> make_ascii_lowercase t = t.
Proof.
  intros H. rewrite forallb_forall in H. induction t as [|b t IH]; [reflexivity|]. cbn [make_ascii_lowercase map].
  fold (make_ascii_lowercase t). rewrite IH by (intros x Hx; apply H; right; exact Hx). f_equal.
  specialize (H b (or_introl eq_refl)). unfold lower_ascii_b, is_upper_ascii, is_lower_ascii, inr in *.
  replace ((65 <=? bn b) && (bn b <=? 90)) with false by lia. reflexivity.
Qed.
Theorem C13_finish t p : cow_borrowed_finish cfg t p = str_finish cfg t p.
Proof.
  unfold cow_borrowed_finish, str_finish. destruct (valid_type cfg t); [|reflexivity].
  destruct (forallb is_lower_ascii t) eqn:E; [|reflexivity]. rewrite (mal_lower_id t E). reflexivity.
Qed.
End C13.

(* ---------------- C18: combined names ---------------- *)
Definition ns_opt (p : parts) : option bytes := if is_empty (p_ns p) then None else Some (p_ns p).
Theorem C18_split_spec t s :
  combined_split t s =
  match t with
  | Cargo | Gem | NuGet | PyPI => (None, s)
  | Golang | Npm => match rsplit_once c_slash s with Some (a, b) => (Some a, b) | None => (None, s) end
  | Maven => match split_once c_colon s with Some (a, b) => (Some a, b) | None => (None, s) end
  end.
Proof. destruct t; reflexivity. Qed.
Definition side (t : ptype) (p : parts) : Prop :=
  match t with
  | Golang | Npm => ~ In c_slash (p_name p)
  | Maven => p_ns p <> [] /\ ~ In c_colon (p_ns p)      (* a built Maven PURL always has a namespace *)
  | _ => p_ns p = []
  end.
Theorem C18_round t p : side t p -> combined_split t (combined_name t p) = (ns_opt p, p_name p).
Proof.
  unfold side, combined_split, combined_name, ns_opt. destruct t; intros H; try (rewrite H; reflexivity).
  - destruct (is_empty (p_ns p)) eqn:E; [rewrite rsplit_once_none by exact H; reflexivity|rewrite rsplit_once_app by exact H; reflexivity].
  - destruct H as [Hne H]. replace (is_empty (p_ns p)) with false by (symmetry; apply is_empty_false; exact Hne).
    rewrite split_once_app by exact H. reflexivity.
  - destruct (is_empty (p_ns p)) eqn:E; [rewrite rsplit_once_none by exact H; reflexivity|rewrite rsplit_once_app by exact H; reflexivity].
Qed.
Print Assumptions C18_round. Print Assumptions C13_finish.
