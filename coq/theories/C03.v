From Coq Require Import List NArith ZArith Bool Lia ZifyBool ZifyN.
From Coq.Strings Require Import Byte.
From PM Require Import Base Lemmas Text TextLemmas Model Skeleton Canon DecQual.
Import ListNotations.
Local Open Scope N_scope.

(* ---------------- C03: exactly the documented escaping ---------------- *)
Inductive pos := PNs | PName | PVer | PQual | PSub.
Definition in_str (b : byte) (l : list N) : bool := existsb (N.eqb (bn b)) l.
(* the sentence of the property, as a predicate on (position, byte) *)
Definition spec_escaped (p : pos) (b : byte) : bool :=
  let n := bn b in
  (n <? 32) || (n =? 127) || (n =? 32) || (128 <=? n) || in_str b [34; 60; 62; 37; 64; 63; 35]      (* controls, DEL, space, non-ASCII, dquote < > % @ ? # *)
  || match p with
     | PNs | PVer => in_str b [96; 123; 125]                (* backtick { } *)
     | PName => in_str b [96; 123; 125; 47]                 (* backtick { } / *)
     | PQual => in_str b [43; 38]                           (* + & *)
     | PSub => in_str b [96]                                (* backtick *)
     end.
Definition set_of (cfg : config) (p : pos) : bytes :=
  match p with PNs | PVer => set_path cfg | PName => set_seg cfg | PQual => set_query cfg | PSub => set_frag cfg end.
Definition all_pos := [PNs; PName; PVer; PQual; PSub].
Definition sets_exact (cfg : config) : bool :=
  forallb (fun p => forallb (fun b => Bool.eqb (should_encode (set_of cfg p) b) (spec_escaped p b)) all_bytes) all_pos.
(* the (position, byte) pairs on which source and specification differ: the witness when sets_exact is false *)
Definition sets_diff (cfg : config) : list (pos * N) :=
  flat_map (fun p => map (fun b => (p, bn b)) (filter (fun b => negb (Bool.eqb (should_encode (set_of cfg p) b) (spec_escaped p b))) all_bytes)) all_pos.

Section C3. Variable cfg : config.
Hypothesis Hex : sets_exact cfg = true.
Theorem C03_sets p b : should_encode (set_of cfg p) b = spec_escaped p b.
Proof.
  unfold sets_exact in Hex. rewrite forallb_forall in Hex. assert (Hp : In p all_pos) by (destruct p; cbn; tauto).
  specialize (Hex p Hp). rewrite forallb_forall in Hex. apply Bool.eqb_prop. apply Hex. apply all_bytes_in.
Qed.
Theorem C03_hex S b : enc_byte S b = [b] \/ enc_byte S b = [c_pct; hexU (bn b / 16); hexU (bn b mod 16)].
Proof. unfold enc_byte. destruct (should_encode S b); auto. Qed.
(* the shape: components in order, absent ones omitted, qualifiers in stored order *)
Theorem C03_shape {T E} (sh : shape T E) t p :
  format cfg sh t p = s_pkg ++ sh_type sh t ++ [c_slash]
    ++ (if is_empty (p_ns p) then [] else penc (set_of cfg PNs) (p_ns p) ++ [c_slash])
    ++ penc (set_of cfg PName) (p_name p)
    ++ (if is_empty (p_ver p) then [] else c_at :: penc (set_of cfg PVer) (p_ver p))
    ++ match p_quals p with [] => [] | q => c_qm :: join c_amp (map (fun kv => penc (set_of cfg PQual) (fst kv) ++ c_eq :: penc (set_of cfg PQual) (snd kv)) q) end
    ++ (if is_empty (p_sub p) then [] else c_hash :: penc (set_of cfg PSub) (p_sub p)).
Proof. unfold format, fmt_quals. cbn [set_of]. destruct (p_quals p); reflexivity. Qed.
(* every byte of an encoded component is printable ASCII *)
Definition printable (b : byte) : bool := (33 <=? bn b) && (bn b <=? 126).
Lemma penc_printable p x : Forall (fun b => printable b = true) (penc (set_of cfg p) x).
Proof.
  apply Forall_forall. intros c Hc. apply in_penc in Hc. destruct Hc as [->|[Hh|[Hin Hne]]]; [reflexivity| |].
  - unfold is_hexU_byte, printable, inr in *. lia.
  - rewrite C03_sets in Hne. unfold spec_escaped in Hne. unfold printable. pose proof (bn_bound c). repeat (apply orb_false_iff in Hne; destruct Hne as [Hne ?]). lia.
Qed.
End C3.
Print Assumptions C03_sets. Print Assumptions penc_printable.
