From Coq Require Import List NArith ZArith Bool Lia ZifyBool ZifyN.
From Coq.Strings Require Import Byte.
From PM Require Import Base Lemmas Text TextLemmas Model Quals Lower Lower2 Lower3 Cs2 Pypi Pypi2 LowerAny.
Import ListNotations.
Local Open Scope N_scope.

(* validity and idempotence of the pypi rule for EITHER form of the scan condition *)
Section PA. Variable cfg : config.
Hypothesis Hasc : tbl_ascii_ok cfg = true.
Hypothesis Hfix : tbl_img_fixed cfg = true.
Hypothesis Hsc : tbl_img_scalar cfg = true.
Hypothesis Hsa : scan_ascii_ok cfg = true.
Hypothesis Hhy : dash_has_hyphen cfg = true.
Hypothesis Hnd : tbl_no_dash cfg = true.
Definition dash_not_letter : bool := forallb (fun b => negb (inr 65 90 (bn b) || inr 97 122 (bn b))) (dash_chars cfg).
Hypothesis Hdl : dash_not_letter = true.

Lemma is_dash_not_letter c : is_dash cfg c = true -> inr 65 90 c = false /\ inr 97 122 c = false.
Proof.
  unfold is_dash. intros H. apply existsb_exists in H. destruct H as (b & Hb & E). apply N.eqb_eq in E. subst c.
  unfold dash_not_letter in Hdl. rewrite forallb_forall in Hdl. specialize (Hdl b Hb). apply negb_true_iff, orb_false_iff in Hdl. exact Hdl.
Qed.
Lemma alow_dash c : is_dash cfg (alow c) = true -> is_dash cfg c = true.
Proof.
  intros H. destruct (is_dash_not_letter _ H) as [H1 H2]. unfold alow, ascii_lower_n in *. destruct (c <? 128) eqn:Ec; [|exact H].
  destruct (inr 65 90 c) eqn:Eu; [|exact H]. exfalso. unfold inr in *. lia.
Qed.
Lemma no_dash_after_lowercase n : utf8_valid n = true -> existsb (is_dash cfg) (chars n) = false -> existsb (is_dash cfg) (chars (lowercase_str cfg n)) = false.
Proof.
  intros Hv Hn. destruct (lowercase_str_cases cfg n) as [->|[->| ->]]; [exact Hn| |].
  - rewrite chars_lowercase by exact Hv. destruct (existsb (is_dash cfg) (map alow (chars n))) eqn:E; [|reflexivity].
    apply existsb_exists in E. destruct E as (d & Hd & Hdash). apply in_map_iff in Hd. destruct Hd as (c & <- & Hc). apply alow_dash in Hdash.
    assert (existsb (is_dash cfg) (chars n) = true) by (apply existsb_exists; exists c; auto). congruence.
  - rewrite (chars_spec_lower cfg Hsc n Hv). destruct (existsb (is_dash cfg) (flat_map (lower_c cfg) (chars n))) eqn:E; [|reflexivity].
    apply existsb_exists in E. destruct E as (d & Hd & Hdash). apply in_flat_map in Hd. destruct Hd as (c & Hc & Hd).
    destruct (is_dash cfg c) eqn:Ec; [assert (existsb (is_dash cfg) (chars n) = true) by (apply existsb_exists; exists c; auto); congruence|].
    destruct (lower_nondash cfg Hnd c Ec) as [_ Hall]. rewrite Forall_forall in Hall. rewrite (Hall d Hd) in Hdash. discriminate.
Qed.
Lemma spec_has_dash cs : existsb (is_dash cfg) cs = true -> existsb (is_dash cfg) (spec_pypi_chars cfg cs) = true.
Proof.
  induction cs as [|c t IH]; [discriminate|]. cbn [existsb]. rewrite spec_cons. unfold step. destruct (is_dash cfg c) eqn:Ec; cbn [orb].
  - intros _. destruct (spec_pypi_chars cfg t) as [|d r] eqn:Es; [cbn; rewrite (is_dash_45 cfg Hhy); reflexivity|].
    destruct (d =? 45) eqn:Ed; [apply N.eqb_eq in Ed; subst d; cbn; rewrite (is_dash_45 cfg Hhy); reflexivity|cbn; rewrite (is_dash_45 cfg Hhy); reflexivity].
  - intros H. rewrite existsb_app. rewrite (IH H). apply orb_true_r.
Qed.
Theorem utf8_valid_fix_pypi_any n : utf8_valid n = true -> utf8_valid (fix_pypi_name cfg n) = true.
Proof.
  intros Hv. unfold fix_pypi_name. destruct (existsb (is_dash cfg) (chars n)); [|apply utf8_valid_lowercase_any; assumption].
  rewrite (proj1 (pypi_go_spec cfg Hhy Hnd _)). unfold utf8_valid. rewrite utf8_dec_enc; [reflexivity|]. apply (spec_scalar cfg Hsc). apply chars_scalar. exact Hv.
Qed.
Theorem fix_pypi_idem_any n : utf8_valid n = true -> fix_pypi_name cfg (fix_pypi_name cfg n) = fix_pypi_name cfg n.
Proof.
  intros Hv. unfold fix_pypi_name at 2 3. destruct (existsb (is_dash cfg) (chars n)) eqn:Ed.
  - rewrite (proj1 (pypi_go_spec cfg Hhy Hnd _)). set (L := spec_pypi_chars cfg (chars n)).
    assert (HL : chars (utf8_enc L) = L) by (unfold chars; rewrite utf8_dec_enc; [reflexivity|apply (spec_scalar cfg Hsc); apply chars_scalar; exact Hv]).
    unfold fix_pypi_name. rewrite HL. unfold L at 1. rewrite (spec_has_dash _ Ed). rewrite (proj1 (pypi_go_spec cfg Hhy Hnd _)).
    unfold L. rewrite (spec_pypi_chars_idem cfg Hfix Hhy Hnd). reflexivity.
  - unfold fix_pypi_name. rewrite (no_dash_after_lowercase n Hv Ed). apply lowercase_str_idem_any; assumption.
Qed.
End PA.
Print Assumptions fix_pypi_idem_any. Print Assumptions utf8_valid_fix_pypi_any.
