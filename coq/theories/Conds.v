From Coq Require Import List NArith Bool String.
From Coq.Strings Require Import Byte.
From PM Require Import Base Lemmas Text TextLemmas Model Skeleton Quals Canon DecQual Roundtrip Lower2 Lower3 Cs2 Pypi PypiAny.
Import ListNotations.
Local Open Scope string_scope.

(* named, decidable side conditions: what each property needs from the constants read out of the source *)
Definition conds_rt (cfg : config) : list (string * bool) :=
  [ ("type chars exclude '/'", negb (mem c_slash (type_special cfg)));
    ("type chars exclude '#'", negb (mem c_hash (type_special cfg)));
    ("type chars exclude '?'", negb (mem c_qm (type_special cfg)));
    ("'/' escaped in name", mem c_slash (set_seg cfg));
    ("'@' escaped in namespace/version", mem c_at (set_path cfg)); ("'@' escaped in name", mem c_at (set_seg cfg));
    ("'?' escaped in namespace/version", mem c_qm (set_path cfg)); ("'?' escaped in name", mem c_qm (set_seg cfg)); ("'?' escaped in qualifiers", mem c_qm (set_query cfg));
    ("'#' escaped in namespace/version", mem c_hash (set_path cfg)); ("'#' escaped in name", mem c_hash (set_seg cfg));
    ("'#' escaped in qualifiers", mem c_hash (set_query cfg)); ("'#' escaped in subpath", mem c_hash (set_frag cfg));
    ("lower-casing table agrees with ASCII", tbl_ascii_ok cfg); ("key chars ASCII", key_special_ascii cfg);
    ("key chars never escaped", keychars_plain cfg); ("'=' not a key char", negb (mem c_eq (key_special cfg)));
    ("'&' escaped in qualifier values", mem c_amp (set_query cfg));
    ("'%' escaped in namespace/version", mem c_pct (set_path cfg)); ("'%' escaped in name", mem c_pct (set_seg cfg));
    ("'%' escaped in qualifiers", mem c_pct (set_query cfg)); ("'%' escaped in subpath", mem c_pct (set_frag cfg));
    ("'/' raw in namespace/version", negb (should_encode (set_path cfg) c_slash)); ("'/' raw in subpath", negb (should_encode (set_frag cfg) c_slash));
    ("'.' raw in subpath", negb (should_encode (set_frag cfg) c_dot)) ].
Definition conds_tbl (cfg : config) : list (string * bool) :=
  [ ("lower-casing images are fixed points", tbl_img_fixed cfg); ("lower-casing images are scalar values", tbl_img_scalar cfg);
    ("lower-casing creates no ','", tbl_no_comma cfg); ("'-' is a dash char", dash_has_hyphen cfg);
    ("lower-casing creates no dash char", tbl_no_dash cfg); ("scan agrees with ASCII upper-case", scan_ascii_ok cfg);
    ("'checksum' is a valid key", valid_key cfg s_checksum); ("no dash char is a letter", dash_not_letter cfg) ].
Definition cond_scan (cfg : config) : list (string * bool) := [ ("lower-casing scan catches every changing character", scan_lower_ne cfg) ].
Definition cond_maven (cfg : config) : list (string * bool) := [ ("maven namespace test ignores empty segments", maven_ns_segments cfg) ].
Definition all_true (l : list (string * bool)) : bool := forallb snd l.
Definition failing (l : list (string * bool)) : list string := map fst (filter (fun x => negb (snd x)) l).

Lemma conds_rt_ok cfg : all_true (conds_rt cfg) = true -> rt_ok cfg.
Proof.
  unfold all_true, conds_rt. cbn [forallb snd]. rewrite !andb_true_iff, !negb_true_iff. intros H.
  repeat match type of H with _ /\ _ => let H1 := fresh in destruct H as [H1 H] end.
  constructor; try assumption; constructor; assumption.
Qed.

(* the table facts as one record, obtained from the named list by computation *)
Record tbl_ok (cfg : config) : Prop := {
  t_fix : tbl_img_fixed cfg = true; t_sc : tbl_img_scalar cfg = true; t_nc : tbl_no_comma cfg = true; t_hy : dash_has_hyphen cfg = true;
  t_nd : tbl_no_dash cfg = true; t_sa : scan_ascii_ok cfg = true; t_ck : valid_key cfg s_checksum = true; t_dl : dash_not_letter cfg = true }.
Lemma conds_tbl_ok cfg : all_true (conds_tbl cfg) = true -> tbl_ok cfg.
Proof.
  unfold all_true, conds_tbl. cbn [forallb snd]. rewrite !andb_true_iff. intros H.
  repeat match type of H with _ /\ _ => let H1 := fresh in destruct H as [H1 H] end.
  constructor; assumption.
Qed.
