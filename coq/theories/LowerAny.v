From Coq Require Import List NArith ZArith Bool Lia ZifyBool ZifyN.
From Coq.Strings Require Import Byte.
From PM Require Import Base Lemmas Text TextLemmas Model Quals Lower Lower2 Lower3 Cs2 Pypi Pypi2.
Import ListNotations.
Local Open Scope N_scope.

(* facts about lowercase_str and fix_pypi_name that hold for EITHER form of the scan condition *)
Section LA. Variable cfg : config.
Hypothesis Hasc : tbl_ascii_ok cfg = true.
Hypothesis Hfix : tbl_img_fixed cfg = true.
Hypothesis Hsc : tbl_img_scalar cfg = true.
Hypothesis Hsa : scan_ascii_ok cfg = true.
Hypothesis Hnc : tbl_no_comma cfg = true.

(* the three possible results *)
Lemma lowercase_str_cases s : lowercase_str cfg s = s \/ lowercase_str cfg s = make_ascii_lowercase s \/ lowercase_str cfg s = spec_lower cfg s.
Proof. unfold lowercase_str, spec_lower. destruct (scan cfg (chars s) SLower); auto. Qed.
Theorem utf8_valid_lowercase_any s : utf8_valid s = true -> utf8_valid (lowercase_str cfg s) = true.
Proof.
  intros Hv. destruct (lowercase_str_cases s) as [->|[->| ->]]; [exact Hv|apply utf8_valid_lowercase; exact Hv|apply utf8_valid_spec_lower; assumption].
Qed.
Lemma mal_no_new c s : bn c < 128 -> is_upper_ascii c = false -> is_lower_ascii c = false -> In c (make_ascii_lowercase s) -> In c s.
Proof.
  intros Hc Hu Hl Hin. apply in_map_iff in Hin. destruct Hin as (b & Hb & Hin). unfold lower_ascii_b in Hb. destruct (is_upper_ascii b) eqn:E; [|subst; exact Hin].
  exfalso. subst c. unfold is_upper_ascii, is_lower_ascii, inr in *. rewrite bn_nb in Hl by lia. lia.
Qed.
Theorem lowercase_no_comma_any a : utf8_valid a = true -> ~ In c_comma a -> ~ In c_comma (lowercase_str cfg a).
Proof.
  intros Hv Hn. destruct (lowercase_str_cases a) as [->|[->| E]]; [exact Hn| |].
  - intros Hin. apply Hn. eapply mal_no_new; [| | |exact Hin]; vm_compute; reflexivity.
  - rewrite E. intros Hin.
    apply (in_bytes_chars _ c_comma (utf8_valid_spec_lower cfg Hsc a Hv) comma_ascii) in Hin.
    rewrite (chars_spec_lower cfg Hsc a Hv) in Hin. apply in_flat_map in Hin. destruct Hin as (c & Hc & Hd).
    change (bn c_comma) with 44 in Hd. apply (lower_c_comma cfg Hnc) in Hd. subst c. apply Hn. apply (in_bytes_chars a c_comma Hv comma_ascii). exact Hc.
Qed.
End LA.
Print Assumptions lowercase_no_comma_any. Print Assumptions utf8_valid_lowercase_any.
