From Coq Require Import List NArith ZArith Bool Lia.
From Coq.Strings Require Import Byte.
From PM Require Import Base Lemmas Text TextLemmas Model Quals Lower Lower2.
Import ListNotations.
Local Open Scope N_scope.

Section PY. Variable cfg : config.
Hypothesis Hasc : tbl_ascii_ok cfg = true.
Hypothesis Hscan : scan_lower_ne cfg = true.
Hypothesis Hfix : tbl_img_fixed cfg = true.
Hypothesis Hsc : tbl_img_scalar cfg = true.
(* '-' is one of the dash characters; lower-casing a non-dash character yields no dash character and something non-empty *)
Definition dash_has_hyphen : bool := existsb (fun b => bn b =? 45) (dash_chars cfg).
Definition tbl_no_dash : bool :=
  forallb (fun e => is_dash cfg (fst e) || (negb (leqb (snd e) []) && negb (existsb (is_dash cfg) (snd e)))) (lower_tbl cfg).
Hypothesis Hhy : dash_has_hyphen = true.
Hypothesis Hnd : tbl_no_dash = true.

Lemma is_dash_45 : is_dash cfg 45 = true.
Proof. unfold is_dash. exact Hhy. Qed.
Lemma lower_nondash c : is_dash cfg c = false -> lower_c cfg c <> [] /\ Forall (fun d => is_dash cfg d = false) (lower_c cfg c).
Proof.
  intros Hc. unfold lower_c. destruct (tbl_find (lower_tbl cfg) c) as [l|] eqn:E.
  - apply tbl_find_in in E. unfold tbl_no_dash in Hnd. rewrite forallb_forall in Hnd. specialize (Hnd _ E). cbn [fst snd] in Hnd.
    rewrite Hc in Hnd. cbn in Hnd. apply andb_true_iff in Hnd. destruct Hnd as [H1 H2]. split.
    + intros ->. discriminate H1.
    + apply Forall_forall. intros d Hd. destruct (is_dash cfg d) eqn:Ed; [|reflexivity]. apply negb_true_iff in H2.
      assert (existsb (is_dash cfg) l = true) by (apply existsb_exists; exists d; auto). congruence.
  - split; [discriminate|]. constructor; [exact Hc|constructor].
Qed.

(* the specification, written right-to-left and without a state flag *)
Definition step (c : N) (acc : list N) : list N :=
  if is_dash cfg c then match acc with d :: _ => if d =? 45 then acc else 45 :: acc | [] => [45] end
  else lower_c cfg c ++ acc.
Definition spec_pypi_chars (cs : list N) : list N := fold_right step [] cs.
Definition spec_pypi (n : bytes) : bytes := utf8_enc (spec_pypi_chars (chars n)).

Definition starts_dash (cs : list N) : bool := match cs with c :: _ => is_dash cfg c | [] => false end.
Definition starts_45 (l : list N) : bool := match l with d :: _ => d =? 45 | [] => false end.
Lemma spec_cons c t : spec_pypi_chars (c :: t) = step c (spec_pypi_chars t). Proof. reflexivity. Qed.
Lemma spec_starts cs : starts_45 (spec_pypi_chars cs) = starts_dash cs.
Proof.
  destruct cs as [|c t]; [reflexivity|]. rewrite spec_cons. cbn [starts_dash]. unfold step. destruct (is_dash cfg c) eqn:Ec.
  - destruct (spec_pypi_chars t) as [|d r]; [reflexivity|]. destruct (d =? 45) eqn:Ed; cbn; [exact Ed|reflexivity].
  - destruct (lower_nondash c Ec) as [Hne Hall]. destruct (lower_c cfg c) as [|d l]; [congruence|]. cbn. inversion Hall; subst.
    destruct (d =? 45) eqn:Ed; [|reflexivity]. apply N.eqb_eq in Ed. subst d. rewrite is_dash_45 in H1. discriminate.
Qed.
Lemma pypi_go_spec cs : pypi_go cfg cs false = spec_pypi_chars cs
                        /\ pypi_go cfg cs true = (if starts_dash cs then tl (spec_pypi_chars cs) else spec_pypi_chars cs).
Proof.
  induction cs as [|c t [IH1 IH2]]; [split; reflexivity|]. cbn [pypi_go starts_dash]. destruct (is_dash cfg c) eqn:Ec.
  - assert (Hs : spec_pypi_chars (c :: t) = if starts_dash t then spec_pypi_chars t else 45 :: spec_pypi_chars t).
    { rewrite spec_cons. unfold step. rewrite Ec. pose proof (spec_starts t) as S.
      destruct (spec_pypi_chars t) as [|d r]; [cbn [starts_45] in S; rewrite <- S; reflexivity|]. cbn [starts_45] in S. rewrite S. reflexivity. }
    rewrite Hs, IH2. split.
    + destruct (starts_dash t) eqn:Et; [|reflexivity]. pose proof (spec_starts t) as S. rewrite Et in S.
      destruct (spec_pypi_chars t) as [|d r]; [discriminate S|]. cbn in S. apply N.eqb_eq in S. subst d. reflexivity.
    + destruct (starts_dash t) eqn:Et; reflexivity.
  - rewrite IH1. rewrite spec_cons. unfold step. rewrite Ec. split; reflexivity.
Qed.
Theorem C08_pypi n : utf8_valid n = true -> fix_pypi_name cfg n = spec_pypi n.
Proof.
  intros Hv. unfold fix_pypi_name, spec_pypi. destruct (existsb (is_dash cfg) (chars n)) eqn:E.
  - rewrite (proj1 (pypi_go_spec _)). reflexivity.
  - rewrite (lowercase_str_spec cfg Hasc Hscan n Hv). unfold spec_lower. f_equal.
    assert (H : forall cs, existsb (is_dash cfg) cs = false -> flat_map (lower_c cfg) cs = spec_pypi_chars cs).
    { induction cs as [|c t IH]; [reflexivity|]. cbn [existsb]. rewrite orb_false_iff. intros [H1 H2]. cbn [flat_map]. rewrite spec_cons.
      unfold step. rewrite H1. f_equal. apply IH. exact H2. }
    apply H. exact E.
Qed.
End PY.
Print Assumptions C08_pypi.
