From Coq Require Import List NArith ZArith Bool Lia.
From Coq.Strings Require Import Byte.
From PM Require Import Base Lemmas Text TextLemmas Model Quals.
Import ListNotations.
Local Open Scope N_scope.

(* ---------- generic lexicographic machinery: a comparison that is a strict total order ---------- *)
Record total_cmp {A} (c : A -> A -> comparison) : Prop := {
  tc_eq : forall a b, c a b = Eq <-> a = b;
  tc_anti : forall a b, c b a = CompOpp (c a b);
  tc_trans : forall a b d, c a b = Lt -> c b d = Lt -> c a d = Lt;
}.
Definition lex (x y : comparison) : comparison := match x with Eq => y | _ => x end.
Lemma bcmp_total : total_cmp bcmp.
Proof. constructor; [apply bcmp_eq|apply bcmp_antisym|apply bcmp_lt_trans]. Qed.

Definition cmp_pair {A B} (ca : A -> A -> comparison) (cb : B -> B -> comparison) (x y : A * B) : comparison :=
  lex (ca (fst x) (fst y)) (cb (snd x) (snd y)).
Lemma cmp_pair_total {A B} ca cb : @total_cmp A ca -> @total_cmp B cb -> total_cmp (cmp_pair ca cb).
Proof.
  intros [Ea Aa Ta] [Eb Ab Tb]. constructor.
  - intros [a b] [a' b']. unfold cmp_pair, lex. cbn. destruct (ca a a') eqn:E; try (split; [discriminate|intros [= -> ->]; rewrite (proj2 (Ea a' a') eq_refl) in E; discriminate]).
    apply Ea in E. subst a'. rewrite Eb. split; [intros ->; reflexivity|intros [= ->]; reflexivity].
  - intros [a b] [a' b']. unfold cmp_pair, lex. cbn. rewrite (Aa a a'). destruct (ca a a'); cbn; [apply Ab|reflexivity|reflexivity].
  - intros [a b] [a' b'] [a'' b'']. unfold cmp_pair, lex. cbn.
    destruct (ca a a') eqn:E1; try discriminate; destruct (ca a' a'') eqn:E2; try discriminate; intros H1 H2.
    + apply Ea in E1, E2. subst. rewrite (proj2 (Ea a'' a'') eq_refl). eapply Tb; eassumption.
    + apply Ea in E1. subst. rewrite E2. reflexivity.
    + apply Ea in E2. subst. rewrite E1. reflexivity.
    + rewrite (Ta _ _ _ E1 E2). reflexivity.
Qed.
(* derived Ord on Vec: lexicographic, a proper prefix is smaller *)
Fixpoint cmp_list {A} (c : A -> A -> comparison) (x y : list A) : comparison :=
  match x, y with [], [] => Eq | [], _ => Lt | _, [] => Gt | a :: x', b :: y' => lex (c a b) (cmp_list c x' y') end.
Lemma cmp_list_total {A} c : @total_cmp A c -> total_cmp (cmp_list c).
Proof.
  intros [Ec Ac Tc]. constructor.
  - induction a as [|x a IH]; intros [|y b]; cbn; try (split; [discriminate|discriminate]); [tauto|].
    unfold lex. destruct (c x y) eqn:E; try (split; [discriminate|intros [= -> ->]; rewrite (proj2 (Ec y y) eq_refl) in E; discriminate]).
    apply Ec in E. subst y. rewrite IH. split; [intros ->; reflexivity|intros [= ->]; reflexivity].
  - induction a as [|x a IH]; intros [|y b]; cbn; try reflexivity. unfold lex. rewrite (Ac x y). destruct (c x y); cbn; [apply IH|reflexivity|reflexivity].
  - induction a as [|x a IH]; intros [|y b] [|z d]; cbn; try discriminate; try reflexivity. unfold lex.
    destruct (c x y) eqn:E1; try discriminate; destruct (c y z) eqn:E2; try discriminate; intros H1 H2.
    + apply Ec in E1, E2. subst. rewrite (proj2 (Ec z z) eq_refl). eapply IH; eassumption.
    + apply Ec in E1. subst. rewrite E2. reflexivity.
    + apply Ec in E2. subst. rewrite E1. reflexivity.
    + rewrite (Tc _ _ _ E1 E2). reflexivity.
Qed.

(* ---------- derived Ord on GenericPurl<String>: type, then namespace, name, version, qualifiers, subpath ---------- *)
Definition cmp_quals : quals -> quals -> comparison := cmp_list (cmp_pair bcmp bcmp).
Definition tuple_of (x : bytes * parts) := (fst x, (p_ns (snd x), (p_name (snd x), (p_ver (snd x), (p_quals (snd x), p_sub (snd x)))))).
Definition cmp_tuple := cmp_pair bcmp (cmp_pair bcmp (cmp_pair bcmp (cmp_pair bcmp (cmp_pair cmp_quals bcmp)))).
Definition cmp_purl (x y : bytes * parts) : comparison := cmp_tuple (tuple_of x) (tuple_of y).
Lemma tuple_of_inj x y : tuple_of x = tuple_of y -> x = y.
Proof. destruct x as [t [a b c d e]], y as [t' [a' b' c' d' e']]. unfold tuple_of. cbn. intros [= -> -> -> -> -> ->]. reflexivity. Qed.
Theorem C19_ord : total_cmp cmp_purl.
Proof.
  assert (Ht : total_cmp cmp_tuple) by (repeat apply cmp_pair_total; try apply bcmp_total; apply cmp_list_total; apply cmp_pair_total; apply bcmp_total).
  destruct Ht as [E A T]. constructor; unfold cmp_purl.
  - intros a b. rewrite E. split; [apply tuple_of_inj|intros ->; reflexivity].
  - intros a b. apply A.
  - intros a b d. apply T.
Qed.
Print Assumptions C19_ord.
