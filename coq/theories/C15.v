From Coq Require Import List NArith ZArith Bool Lia.
From Coq.Strings Require Import Byte.
From PM Require Import Base Lemmas Text TextLemmas Model Quals Lower Lower2.
Import ListNotations.
Local Open Scope N_scope.

Section C15S. Variable cfg : config.
(* facts about the unicase fold table, each a finite check on the dumped data *)
Definition name_letters : list N := flat_map (fun t => map bn (pt_name t)) all_ptypes.
Definition fold_blocks : bool :=
  forallb (fun e => (fst e <? 128) || existsb (fun d => (128 <=? d) || negb (existsb (N.eqb d) name_letters)) (snd e)) (fold_tbl cfg).
Hypothesis Hfb : fold_blocks = true.
Definition fold_ascii : bool := forallb (fun c => leqb (fold_c cfg c) [ascii_lower_n c]) (map N.of_nat (seq 0 128)).
Hypothesis Hfa : fold_ascii = true.
Lemma fold_c_ascii c : c < 128 -> fold_c cfg c = [ascii_lower_n c].
Proof.
  intros H. unfold fold_ascii in Hfa. rewrite forallb_forall in Hfa. apply leqb_eq. apply Hfa.
  apply in_map_iff. exists (N.to_nat c). split; [lia|]. apply in_seq. lia.
Qed.
Lemma ascii_chars_ascii_bytes s : utf8_valid s = true -> Forall (fun c => c < 128) (chars s) -> is_ascii_str s = true.
Proof.
  intros Hv H. rewrite <- (utf8_enc_chars s Hv). unfold is_ascii_str, utf8_enc. apply forallb_forall. intros b Hb. apply in_flat_map in Hb.
  destruct Hb as (c & Hc & Hb). rewrite Forall_forall in H. specialize (H c Hc). unfold enc1 in Hb. replace (c <? 128) with true in Hb by lia.
  destruct Hb as [<-|[]]. rewrite bn_nb by lia. lia.
Qed.

Lemma names_distinct : NoDup (map pt_name all_ptypes). Proof. vm_compute. repeat constructor; cbn; intuition discriminate. Qed.
Lemma names_lower t : make_ascii_lowercase (pt_name t) = pt_name t /\ is_ascii_str (pt_name t) = true.
Proof. destruct t; split; reflexivity. Qed.

(* completeness: every case variant of a name is found *)
Theorem C15_complete s t : make_ascii_lowercase s = pt_name t -> pt_from_str cfg s = Some t.
Proof.
  intros H. assert (Ha : is_ascii_str s = true).
  { destruct (names_lower t) as [_ Hn]. rewrite <- H in Hn. unfold is_ascii_str, make_ascii_lowercase in *. rewrite forallb_forall in *. intros b Hb.
    specialize (Hn (lower_ascii_b b) (in_map _ _ _ Hb)). unfold lower_ascii_b, is_upper_ascii, inr in Hn. destruct ((65 <=? bn b) && (bn b <=? 90)) eqn:E; [lia|exact Hn]. }
  unfold pt_from_str, unicase_eq. rewrite Ha.
  assert (F : forall t', beqs (make_ascii_lowercase (pt_name t')) (make_ascii_lowercase s) = true <-> t' = t).
  { intros t'. rewrite H, beqs_true. destruct (names_lower t') as [-> _]. split; [|intros ->; reflexivity]. destruct t', t; intros E; try reflexivity; discriminate E. }
  unfold all_ptypes. cbn [find].
  repeat match goal with |- context [beqs (make_ascii_lowercase (pt_name ?x)) _] =>
    let E := fresh in destruct (beqs (make_ascii_lowercase (pt_name x)) (make_ascii_lowercase s)) eqn:E; [apply F in E; subst; reflexivity|] end.
  exfalso. assert (Ht : beqs (make_ascii_lowercase (pt_name t)) (make_ascii_lowercase s) = true) by (apply F; reflexivity). destruct t; congruence.
Qed.

(* soundness: whatever parses to a type is that type's name up to ASCII case *)
Lemma find_some_ptype f t : find f all_ptypes = Some t -> f t = true.
Proof. intros H. apply find_some in H. tauto. Qed.
Lemma fold_nonascii_blocks c : 128 <= c -> exists d, In d (fold_c cfg c) /\ (128 <= d \/ ~ In d name_letters).
Proof.
  intros Hc. unfold fold_c. destruct (tbl_find (fold_tbl cfg) c) as [l|] eqn:E.
  - apply tbl_find_in in E. unfold fold_blocks in Hfb. rewrite forallb_forall in Hfb. specialize (Hfb _ E). cbn [fst snd] in Hfb.
    replace (c <? 128) with false in Hfb by lia. cbn [orb] in Hfb. apply existsb_exists in Hfb. destruct Hfb as (d & Hd & Hp). exists d. split; [exact Hd|].
    apply orb_true_iff in Hp. destruct Hp as [Hp|Hp]; [left; lia|right]. apply negb_true_iff in Hp. intros Hin.
    assert (existsb (N.eqb d) name_letters = true) by (apply existsb_exists; exists d; split; [exact Hin|apply N.eqb_refl]). congruence.
  - exists c. split; [left; reflexivity|left; exact Hc].
Qed.
Theorem C15_sound s t : utf8_valid s = true -> pt_from_str cfg s = Some t -> make_ascii_lowercase s = pt_name t.
Proof.
  intros Hv H. unfold pt_from_str in H. apply find_some_ptype in H. unfold unicase_eq in H. destruct (is_ascii_str s) eqn:Ea.
  - apply beqs_true in H. destruct (names_lower t) as [Hn _]. rewrite Hn in H. symmetry. exact H.
  - exfalso. apply leqb_eq in H.
    (* s has a non-ASCII character; its fold contains something that no name's fold contains *)
    assert (Hex : exists c, In c (chars s) /\ 128 <= c).
    { assert (Hdec : forall c : N, {c < 128} + {~ c < 128}) by (intros c0; destruct (c0 <? 128) eqn:E0; [left|right]; lia).
      destruct (Forall_Exists_dec (fun c => c < 128) Hdec (chars s)) as [Hall|Hex].
      - rewrite (ascii_chars_ascii_bytes s Hv Hall) in Ea. discriminate.
      - apply Exists_exists in Hex. destruct Hex as (c & Hc & Hn). exists c. split; [exact Hc|lia]. }
    destruct Hex as (c & Hc & Hhi). destruct (fold_nonascii_blocks c Hhi) as (d & Hd & Hbad).
    assert (Hin : In d (flat_map (fold_c cfg) (chars s))) by (apply in_flat_map; exists c; auto).
    rewrite <- H in Hin. destruct (names_lower t) as [Hnl Hna]. rewrite (chars_ascii cfg _ Hna) in Hin.
    apply in_flat_map in Hin. destruct Hin as (x & Hx & Hdx). apply in_map_iff in Hx. destruct Hx as (b & <- & Hb).
    assert (Hblt : bn b < 128) by (unfold is_ascii_str in Hna; rewrite forallb_forall in Hna; specialize (Hna b Hb); lia).
    rewrite (fold_c_ascii _ Hblt) in Hdx. destruct Hdx as [<-|[]].
    (* the names are lower case already, so the folded character is the name's own letter *)
    assert (Hlow : ascii_lower_n (bn b) = bn b).
    { rewrite <- Hnl in Hb. unfold make_ascii_lowercase in Hb. apply in_map_iff in Hb. destruct Hb as (b0 & <- & _).
      destruct b0; reflexivity. }
    rewrite Hlow in Hbad. destruct Hbad as [Hbad|Hbad]; [lia|]. apply Hbad. unfold name_letters. apply in_flat_map. exists t. split; [destruct t; cbn; tauto|apply in_map; exact Hb].
Qed.
End C15S.
Print Assumptions C15_sound. Print Assumptions C15_complete.
