From Coq Require Import List NArith Bool.
From Coq.Strings Require Import Byte.
From PM Require Import Base Lemmas Text Model.
Import ListNotations.
Local Open Scope N_scope.
(* ---------------- the documented alphabets ----------------
   The generic theorems need only a few exclusions from the character lists read from the source (no separator among them, ASCII only).
   The properties, however, name the alphabets outright: a type is made of letters, digits, '.', '+', '-' (C04, C05); a qualifier key of letters,
   digits, '.', '-', '_' (C05, C11); a pypi separator is one of '-', '_', '.' (C08).  That the lists read from the source ARE these sets is one
   decidable condition each; under it, validity in the model is validity as the properties word it. *)
Definition same_set (a b : bytes) : bool := forallb (fun x => mem x b) a && forallb (fun x => mem x a) b.
Lemma mem_in c l : mem c l = true <-> In c l.
Proof.
  induction l as [|x l IH]; cbn [mem In]; [split; [discriminate|tauto]|].
  rewrite orb_true_iff, IH, beq_true. tauto.
Qed.
Lemma same_set_mem a b : same_set a b = true -> forall x, mem x a = mem x b.
Proof.
  unfold same_set. rewrite andb_true_iff, !forallb_forall. intros [H1 H2] x.
  destruct (mem x a) eqn:Ea.
  - symmetry. apply H1. apply mem_in. exact Ea.
  - destruct (mem x b) eqn:Eb; [|reflexivity]. apply mem_in in Eb. apply H2 in Eb. congruence.
Qed.
Lemma forallb_ext' {A} (f g : A -> bool) l : (forall x, f x = g x) -> forallb f l = forallb g l.
Proof. intros H. induction l as [|x l IH]; [reflexivity|]. cbn. rewrite H, IH. reflexivity. Qed.
Definition doc_type_special : bytes := ["."; "+"; "-"]%byte.
Definition doc_key_special : bytes := ["."; "-"; "_"]%byte.
Definition doc_dash_chars : bytes := ["-"; "_"; "."]%byte.
Definition doc_valid_type (t : bytes) : bool := negb (is_empty t) && forallb (fun b => is_alnum b || mem b doc_type_special) t.
Definition doc_valid_key (k : bytes) : bool := negb (is_empty k) && forallb (fun b => is_alnum b || mem b doc_key_special) k.
Section ALPHA. Variable cfg : config.
Theorem valid_type_is_documented : same_set (type_special cfg) doc_type_special = true -> forall t, valid_type cfg t = doc_valid_type t.
Proof.
  intros H t. unfold valid_type, doc_valid_type. f_equal. apply forallb_ext'. intros b. rewrite (same_set_mem _ _ H). reflexivity.
Qed.
Theorem valid_key_is_documented : same_set (key_special cfg) doc_key_special = true -> forall k, valid_key cfg k = doc_valid_key k.
Proof.
  intros H k. unfold valid_key, doc_valid_key. f_equal. apply forallb_ext'. intros b. rewrite (same_set_mem _ _ H). reflexivity.
Qed.
Theorem is_dash_is_documented : same_set (dash_chars cfg) doc_dash_chars = true -> forall c, is_dash cfg c = existsb (fun b => bn b =? c) doc_dash_chars.
Proof.
  intros H c. unfold is_dash. apply eq_true_iff_eq. rewrite !existsb_exists. split; intros (b & Hb & E); exists b; split; try exact E.
  - apply mem_in. rewrite <- (same_set_mem _ _ H). apply mem_in. exact Hb.
  - apply mem_in. rewrite (same_set_mem _ _ H). apply mem_in. exact Hb.
Qed.
End ALPHA.
Print Assumptions valid_key_is_documented.
