(* C07, the joined-path reading: resolving the reported subpath against any directory never leaves that directory.
   `walk` is the usual path resolution over a stack of directory names (innermost first): an empty or `.` component stays,
   `..` pops (and fails, None, when there is nothing left to pop: that is climbing out of the base), anything else pushes.
   For every value the parser accepts, walking the '/'-split of the subpath pushes exactly the reported segments, in order,
   and never pops - for every starting stack, the empty one included. *)
From Coq Require Import List NArith Bool.
From Coq.Strings Require Import Byte.
From PM Require Import Base Lemmas Text TextLemmas Model Skeleton Segs C07.
Import ListNotations.

Fixpoint walk (d : list bytes) (segs : list bytes) : option (list bytes) :=
  match segs with
  | [] => Some d
  | s :: r => if is_empty s || beqs s s_dot then walk d r
              else if beqs s s_dotdot then match d with [] => None | _ :: d' => walk d' r end
              else walk (s :: d) r
  end.

(* the number of components a walk is below its base at its lowest point; 0 = never below *)
Fixpoint pops (segs : list bytes) : nat :=
  match segs with [] => 0 | s :: r => if beqs s s_dotdot then S (pops r) else pops r end.

Lemma good_pushes s : good_sub_seg s -> is_empty s || beqs s s_dot = false /\ beqs s s_dotdot = false.
Proof.
  intros (Hne & _ & Hd & _). unfold is_dotseg in Hd. apply orb_false_iff in Hd. destruct Hd as [H1 H2].
  rewrite H1, H2. destruct s; [contradiction Hne; reflexivity|]. split; reflexivity.
Qed.

Lemma walk_good ps : Forall good_sub_seg ps -> forall d, walk d ps = Some (rev ps ++ d).
Proof.
  induction 1 as [|s ps Hs _ IH]; intros d; cbn [walk rev app]; [reflexivity|].
  destruct (good_pushes s Hs) as [-> ->]. rewrite IH, <- app_assoc. reflexivity.
Qed.

Lemma pops_good ps : Forall good_sub_seg ps -> pops ps = 0.
Proof. induction 1 as [|s ps Hs _ IH]; cbn [pops]; [reflexivity|]. destruct (good_pushes s Hs) as [_ ->]. exact IH. Qed.

Lemma walk_empty_sub d : walk d (split c_slash []) = Some d.
Proof. reflexivity. Qed.

(* splitting the reported subpath at '/' gives back the segments (or the one empty piece of an absent subpath) *)
Lemma split_reported ps : Forall good_sub_seg ps -> ps <> [] -> split c_slash (join c_slash ps) = ps.
Proof. intros H Hne. apply split_join; [exact Hne|]. eapply Forall_impl; [|exact H]. intros a (_ & Hs & _). exact Hs. Qed.

Lemma walk_reported ps : Forall good_sub_seg ps -> forall d, walk d (split c_slash (join c_slash ps)) = Some (rev ps ++ d).
Proof.
  intros H d. destruct ps as [|p ps']; [reflexivity|]. rewrite split_reported by (exact H || discriminate). apply walk_good. exact H.
Qed.

Section Climb. Variable cfg : config.
Context {T E : Type} (sh : shape T E).

(* No accepted subpath climbs: from any base stack d the walk succeeds, ends at (segments reversed) ++ d - so d is never popped -
   and the segments are exactly the decoded non-skipped raw pieces of the input. *)
Theorem C07_no_climb s t p : finish_keeps_segs sh -> parse cfg sh s = Ok (t, p) ->
  exists segs, Forall good_sub_seg segs /\ p_sub p = join c_slash segs /\ pops segs = 0
    /\ forall d, walk d (split c_slash (p_sub p)) = Some (rev segs ++ d).
Proof.
  intros FK Hp. destruct (C07 cfg sh s t p FK Hp) as (r & _ & _ & _ & _ & Hs & Hg).
  exists (map pdecode (raw_sub_pieces r)). split; [exact Hg|]. split; [exact Hs|]. split; [apply pops_good; exact Hg|].
  intros d. rewrite Hs. apply walk_reported. exact Hg.
Qed.

(* the same for the namespace read as a path: no empty component, so no piece is lost or invented by a split at '/' *)
Theorem C07_ns_split s t p : finish_keeps_segs sh -> parse cfg sh s = Ok (t, p) -> p_ns p <> [] ->
  exists segs, segs <> [] /\ Forall good_ns_seg segs /\ split c_slash (p_ns p) = segs.
Proof.
  intros FK Hp Hne. destruct (C07 cfg sh s t p FK Hp) as (r & _ & _ & Hn & Hg & _ & _).
  exists (map pdecode (raw_ns_pieces r)). rewrite Hn in Hne |- *.
  assert (Hnn : map pdecode (raw_ns_pieces r) <> []) by (intros Enil; rewrite Enil in Hne; apply Hne; reflexivity).
  split; [exact Hnn|]. split; [exact Hg|]. apply split_join; [exact Hnn|].
  eapply Forall_impl; [|exact Hg]. intros a (_ & Hsl & _). exact Hsl.
Qed.
End Climb.

(* the walk does fail on what the parser refuses to report: a witness that the statement is not vacuous *)
Example walk_climbs : walk [] (split c_slash [c_dot; c_dot; c_slash; "x"%byte]) = None.
Proof. reflexivity. Qed.
Example walk_stays : walk [["b"%byte]] (split c_slash ["x"%byte; c_slash; "y"%byte]) = Some [["y"%byte]; ["x"%byte]; ["b"%byte]].
Proof. reflexivity. Qed.
