(* slice::binary_search_by, both as std wrote it up to Rust 1.81 (a loop over left/right with mid = left + (right-left)/2; bs) and as it has written it
   since 1.82 (size halves, base moves unless the probe says Greater, one final comparison; bs2loop, below), against the linear scan the
   model uses: on a list that is monotone for the probe they return the same result, for lists of any length. *)
From Coq Require Import List Arith NArith Bool Lia Sorted.
From Coq.Strings Require Import Byte.
From PM Require Import Base Lemmas Text Model Quals.
Import ListNotations.

Section BS. Context {A : Type} (c : A -> comparison) (d : A).

Fixpoint lin (l : list A) (i : nat) : sres :=
  match l with [] => NotFound i
  | x :: t => match c x with Lt => lin t (S i) | Eq => Found i | Gt => NotFound i end end.

Fixpoint bs (fuel : nat) (l : list A) (left right : nat) : sres :=
  match fuel with O => NotFound left
  | S f => if left <? right then
             let mid := left + (right - left) / 2 in
             match c (nth mid l d) with Lt => bs f l (mid + 1) right | Gt => bs f l left mid | Eq => Found mid end
           else NotFound left end.
Definition binary_search_by (l : list A) : sres := bs (length l) l 0 (length l).

(* monotone for the probe: once an element is not below the key, every later one is above it *)
Definition Mono (l : list A) : Prop := forall i j, i < j -> j < length l -> c (nth i l d) <> Lt -> c (nth j l d) = Gt.
Definition Res (l : list A) (r : sres) : Prop :=
  match r with
  | Found i => i < length l /\ c (nth i l d) = Eq
  | NotFound i => i <= length l /\ (forall j, j < i -> c (nth j l d) = Lt) /\ (forall j, i <= j -> j < length l -> c (nth j l d) = Gt)
  end.

Lemma Res_unique l r1 r2 : Mono l -> Res l r1 -> Res l r2 -> r1 = r2.
Proof.
  intros M H1 H2. destruct r1 as [i|i], r2 as [j|j]; cbn [Res] in *.
  - destruct H1 as [Hi Ei], H2 as [Hj Ej]. destruct (Nat.lt_trichotomy i j) as [L|[->|L]]; [|reflexivity|].
    + assert (G := M i j L Hj). rewrite Ei in G. rewrite G in Ej; [discriminate|discriminate].
    + assert (G := M j i L Hi). rewrite Ej in G. rewrite G in Ei; [discriminate|discriminate].
  - destruct H1 as [Hi Ei], H2 as (Hj & Hlo & Hhi). destruct (Nat.lt_ge_cases i j) as [L|L].
    + rewrite (Hlo i L) in Ei. discriminate.
    + rewrite (Hhi i L Hi) in Ei. discriminate.
  - destruct H2 as [Hi Ei], H1 as (Hj & Hlo & Hhi). destruct (Nat.lt_ge_cases j i) as [L|L].
    + rewrite (Hlo j L) in Ei. discriminate.
    + rewrite (Hhi j L Hi) in Ei. discriminate.
  - destruct H1 as (Hi & Li & Gi), H2 as (Hj & Lj & Gj). destruct (Nat.lt_trichotomy i j) as [L|[->|L]]; [|reflexivity|].
    + assert (X := Lj i L). rewrite (Gi i (le_n _)) in X by lia. discriminate.
    + assert (X := Li j L). rewrite (Gj j (le_n _)) in X by lia. discriminate.
Qed.

Lemma lin_res_gen pre l : (forall j, j < length pre -> c (nth j (pre ++ l) d) = Lt) -> Mono (pre ++ l) -> Res (pre ++ l) (lin l (length pre)).
Proof.
  revert pre. induction l as [|x t IH]; intros pre Hpre M; cbn [lin].
  - rewrite app_nil_r in *. cbn [Res]. split; [lia|]. split; [exact Hpre|]. intros j H1 H2. lia.
  - assert (Ex : nth (length pre) (pre ++ x :: t) d = x) by (rewrite app_nth2 by lia; rewrite Nat.sub_diag; reflexivity).
    assert (Hlen : length (pre ++ x :: t) = length pre + S (length t)) by (rewrite app_length; reflexivity).
    destruct (c x) eqn:Ec.
    + cbn [Res]. rewrite Ex. split; [lia|exact Ec].
    + replace (pre ++ x :: t) with ((pre ++ [x]) ++ t) in * by (rewrite <- app_assoc; reflexivity).
      replace (S (length pre)) with (length (pre ++ [x])) by (rewrite app_length; cbn; lia).
      apply IH; [|exact M]. intros j Hj. rewrite app_length in Hj. cbn in Hj.
      destruct (Nat.eq_dec j (length pre)) as [->|N]; [rewrite Ex; exact Ec|apply Hpre; lia].
    + cbn [Res]. split; [lia|]. split; [exact Hpre|]. intros j H1 H2.
      destruct (Nat.eq_dec j (length pre)) as [->|N]; [rewrite Ex; exact Ec|].
      apply (M (length pre) j); [lia|exact H2|rewrite Ex, Ec; discriminate].
Qed.
Lemma lin_res l : Mono l -> Res l (lin l 0).
Proof. intros M. apply (lin_res_gen [] l); [intros j Hj; cbn in Hj; lia|exact M]. Qed.

Lemma bs_res l : Mono l -> forall fuel left right, right <= length l -> left <= right -> right - left <= fuel ->
  (forall j, j < left -> c (nth j l d) = Lt) -> (forall j, right <= j -> j < length l -> c (nth j l d) = Gt) -> Res l (bs fuel l left right).
Proof.
  intros M. induction fuel as [|f IH]; intros left right Hr Hlr Hf Hlo Hhi; cbn [bs].
  - assert (left = right) by lia. subst. cbn [Res]. split; [lia|]. split; assumption.
  - destruct (left <? right) eqn:El.
    + apply Nat.ltb_lt in El. set (mid := left + (right - left) / 2).
      assert (Hm : left <= mid /\ mid < right).
      { unfold mid. assert (X := Nat.div_lt (right - left) 2). assert (Y := Nat.div_le_upper_bound (right - left) 2 (right - left)). 
        assert ((right - left) / 2 < right - left) by (apply Nat.div_lt; lia). lia. }
      destruct (c (nth mid l d)) eqn:Ec.
      * cbn [Res]. split; [lia|exact Ec].
      * apply IH; try lia; [|exact Hhi]. intros j Hj. destruct (Nat.eq_dec j mid) as [->|N]; [exact Ec|].
        destruct (Nat.lt_ge_cases j left) as [L|L]; [apply Hlo; exact L|].
        destruct (c (nth j l d)) eqn:Ej; [| reflexivity |].
        -- assert (G := M j mid ltac:(lia) ltac:(lia)). rewrite Ej in G. rewrite G in Ec; [discriminate|discriminate].
        -- assert (G := M j mid ltac:(lia) ltac:(lia)). rewrite Ej in G. rewrite G in Ec; [discriminate|discriminate].
      * apply IH; try lia; [exact Hlo|]. intros j H1 H2. destruct (Nat.eq_dec j mid) as [->|N]; [exact Ec|].
        destruct (Nat.lt_ge_cases j right) as [L|L]; [|apply Hhi; assumption].
        apply (M mid j); [lia|exact H2|rewrite Ec; discriminate].
    + apply Nat.ltb_ge in El. assert (left = right) by lia. subst. cbn [Res]. split; [lia|]. split; assumption.
Qed.

Theorem binary_search_is_linear l : Mono l -> binary_search_by l = lin l 0.
Proof.
  intros M. apply (Res_unique l); [exact M| |apply lin_res; exact M].
  unfold binary_search_by. apply bs_res; [exact M|lia|lia|lia|intros j H1; lia|intros j H1 H2; lia].
Qed.
End BS.

Lemma SS_nth {A} (R : A -> A -> Prop) (d : A) l : StronglySorted R l -> forall i j, i < j -> j < length l -> R (nth i l d) (nth j l d).
Proof.
  induction 1 as [|x t _ IH Hx]; intros i j Hij Hj; [cbn in Hj; lia|].
  destruct j as [|j]; [lia|]. cbn [length] in Hj. destruct i as [|i]; cbn [nth].
  - rewrite Forall_forall in Hx. apply Hx. apply nth_In. lia.
  - apply IH; lia.
Qed.

(* the instance the crate uses: Qualifiers::search = qualifiers.binary_search_by(|(qk, _)| qk.partial_cmp(&key).unwrap()) *)
Section QS. Variable cfg : config.
Definition probe (k : bytes) (kv : bytes * bytes) : comparison := qkey_cmp cfg (fst kv) k.
Definition dkv : bytes * bytes := ([], []).
Lemma lin_search_from k q i : lin (probe k) q i = search_from cfg q k i.
Proof.
  revert i. induction q as [|[qk v] t IH]; intros i; cbn [lin search_from]; [reflexivity|].
  unfold probe at 1. cbn [fst]. destruct (qkey_cmp cfg qk k); [reflexivity|apply IH|reflexivity].
Qed.
Lemma QInv_Mono q k : tbl_ascii_ok cfg = true -> key_special_ascii cfg = true -> QInv cfg q -> valid_key cfg k = true -> Mono (probe k) dkv q.
Proof.
  intros T1 T2 [Hs Hc] Hk i j Hij Hj Hi.
  assert (Hn : forall n, n < length q -> probe k (nth n q dkv) = bcmp (fst (nth n q dkv)) (lk k)).
  { intros n Hn. unfold probe. apply qkey_cmp_valid; [exact T1|exact T2| |exact Hk].
    rewrite Forall_forall in Hc. destruct (Hc (fst (nth n q dkv))) as [Hv _]; [apply in_map, nth_In; exact Hn|].
    apply (valid_key_ascii cfg); [exact T2|exact Hv]. }
  rewrite Hn in Hi by lia. rewrite Hn by exact Hj.
  assert (L : bcmp (fst (nth i q dkv)) (fst (nth j q dkv)) = Lt).
  { assert (X := SS_nth klt [] (map fst q) Hs i j Hij). rewrite map_length in X. specialize (X Hj).
    change ([] : bytes) with (fst dkv) in X. rewrite !map_nth in X. exact X. }
  destruct (bcmp (fst (nth j q dkv)) (lk k)) eqn:Ej; [| |reflexivity]; exfalso; apply Hi.
  - apply bcmp_eq in Ej. rewrite <- Ej. exact L.
  - eapply bcmp_lt_trans; eassumption.
Qed.

(* Qualifiers::search computed by binary search is the linear scan of the model, for every sorted qualifier list and valid key *)
Theorem search_is_binary_search q m k : tbl_ascii_ok cfg = true -> key_special_ascii cfg = true -> QInv cfg q -> check_key cfg k = Ok m ->
  search cfg q m = binary_search_by (probe k) dkv q.
Proof.
  intros T1 T2 HQ Hm. destruct (into_key_lk cfg m k Hm) as (_ & Hmx & Hv). unfold search. rewrite Hmx.
  rewrite binary_search_is_linear by (apply QInv_Mono; assumption). symmetry. apply lin_search_from.
Qed.
End QS.

(* the loop std has used since Rust 1.82 (the toolchain here is 1.95): size halves, base moves unless the probe says Greater, one final comparison *)
Section BS2. Context {A : Type} (c : A -> comparison) (d : A).
Fixpoint bs2loop (fuel : nat) (l : list A) (size base : nat) : nat :=
  match fuel with O => base
  | S f => if 1 <? size then
             let half := size / 2 in let mid := base + half in
             bs2loop f l (size - half) (match c (nth mid l d) with Gt => base | _ => mid end)
           else base end.
Definition binary_search_by2 (l : list A) : sres :=
  match l with [] => NotFound 0
  | _ => let b := bs2loop (length l) l (length l) 0 in
         match c (nth b l d) with Eq => Found b | Lt => NotFound (b + 1) | Gt => NotFound b end end.

Lemma bs2loop_inv l : Mono c d l -> forall fuel size base, 1 <= size -> size <= fuel + 1 -> base + size <= length l ->
  (forall j, j < base -> c (nth j l d) = Lt) -> (forall j, base + size <= j -> j < length l -> c (nth j l d) = Gt) ->
  let b := bs2loop fuel l size base in
  b < length l /\ (forall j, j < b -> c (nth j l d) = Lt) /\ (forall j, b + 1 <= j -> j < length l -> c (nth j l d) = Gt).
Proof.
  intros M. induction fuel as [|f IH]; intros size base H1 Hf Hb Hlo Hhi; cbn [bs2loop].
  - assert (size = 1) by lia. subst. cbv zeta. split; [lia|]. split; [exact Hlo|]. intros j Hj1 Hj2. apply Hhi; lia.
  - destruct (1 <? size) eqn:E1.
    + apply Nat.ltb_lt in E1. cbv zeta.
      assert (Hh : 1 <= size / 2 /\ size / 2 + size / 2 <= size).
      { assert (X := Nat.div_mod size 2 ltac:(lia)). assert (Y := Nat.mod_upper_bound size 2 ltac:(lia)). lia. }
      destruct (c (nth (base + size / 2) l d)) eqn:Ec.
      * apply IH; try lia.
        -- intros j Hj. destruct (c (nth j l d)) eqn:Ej; [|reflexivity|];
           (destruct (Nat.lt_ge_cases j base) as [L|L]; [rewrite (Hlo j L) in Ej; discriminate|]);
           assert (G := M j (base + size / 2) ltac:(lia) ltac:(lia)); rewrite Ej in G; rewrite G in Ec; discriminate.
        -- intros j Hj1 Hj2. apply Hhi; lia.
      * apply IH; try lia.
        -- intros j Hj. destruct (c (nth j l d)) eqn:Ej; [|reflexivity|];
           (destruct (Nat.lt_ge_cases j base) as [L|L]; [rewrite (Hlo j L) in Ej; discriminate|]);
           assert (G := M j (base + size / 2) ltac:(lia) ltac:(lia)); rewrite Ej in G; rewrite G in Ec; discriminate.
        -- intros j Hj1 Hj2. apply Hhi; lia.
      * apply IH; try lia; [exact Hlo|]. intros j Hj1 Hj2.
        destruct (Nat.eq_dec j (base + size / 2)) as [->|N]; [exact Ec|].
        apply (M (base + size / 2) j); [lia|exact Hj2|rewrite Ec; discriminate].
    + apply Nat.ltb_ge in E1. assert (size = 1) by lia. subst. cbv zeta. split; [lia|]. split; [exact Hlo|]. intros j Hj1 Hj2. apply Hhi; lia.
Qed.

Theorem binary_search2_is_linear l : Mono c d l -> binary_search_by2 l = lin c l 0.
Proof.
  intros M. apply (Res_unique c d l); [exact M| |apply lin_res; exact M].
  unfold binary_search_by2. destruct l as [|x t] eqn:El; [cbn; split; [lia|]; split; intros j H; [lia|intros H2; cbn in H2; lia]|].
  rewrite <- El in *. assert (Hlen : 1 <= length l) by (rewrite El; cbn; lia).
  destruct (bs2loop_inv l M (length l) (length l) 0) as (Hb & Hlo & Hhi); [lia|lia|lia|intros j Hj; lia|intros j H1 H2; lia|].
  cbv zeta. destruct (c (nth (bs2loop (length l) l (length l) 0) l d)) eqn:Ec; cbn [Res].
  - split; [exact Hb|exact Ec].
  - split; [lia|]. split; [|exact Hhi]. intros j Hj.
    destruct (Nat.eq_dec j (bs2loop (length l) l (length l) 0)) as [->|N]; [exact Ec|apply Hlo; lia].
  - split; [lia|]. split; [exact Hlo|]. intros j H1 H2.
    destruct (Nat.eq_dec j (bs2loop (length l) l (length l) 0)) as [->|N]; [exact Ec|apply Hhi; lia].
Qed.
End BS2.

Section QS2. Variable cfg : config.
Theorem search_is_binary_search2 q m k : tbl_ascii_ok cfg = true -> key_special_ascii cfg = true -> QInv cfg q -> check_key cfg k = Ok m ->
  search cfg q m = binary_search_by2 (probe cfg k) dkv q.
Proof.
  intros T1 T2 HQ Hm. destruct (into_key_lk cfg m k Hm) as (_ & Hmx & Hv). unfold search. rewrite Hmx.
  rewrite binary_search2_is_linear by (apply QInv_Mono; assumption). symmetry. apply lin_search_from.
Qed.
End QS2.
