From Coq Require Import List NArith ZArith Bool Lia.
From Coq.Strings Require Import Byte.
From PM Require Import Base Lemmas Text TextLemmas Model Quals Lower Lower2 Cs Cs2 Cs3.
Import ListNotations.

Section CS5. Variable cfg : config.
Hypothesis Hasc : tbl_ascii_ok cfg = true.
Hypothesis Hscan : scan_lower_ne cfg = true.
Hypothesis Hfix : tbl_img_fixed cfg = true.
Hypothesis Hsc : tbl_img_scalar cfg = true.

(* the typed Checksum value: keys are lower-cased algorithm names, unique *)
Definition KI (m : cmap) : Prop := NoDup (map fst m) /\ Forall (fun e => lowercase_str cfg (fst e) = fst e) m.

Lemma cm_get_set_same m k v : cm_get (cm_set m k v) k = Some v.
Proof. induction m as [|[a w] m IH]; cbn; [rewrite (proj2 (beqs_true k k) eq_refl); reflexivity|]. destruct (beqs a k) eqn:E; cbn; rewrite E; [reflexivity|exact IH]. Qed.
Lemma cm_get_set_other m k v k' : k' <> k -> cm_get (cm_set m k v) k' = cm_get m k'.
Proof.
  intros Hne. induction m as [|[a w] m IH]; cbn.
  - destruct (beqs k k') eqn:E; [apply beqs_true in E; congruence|reflexivity].
  - destruct (beqs a k) eqn:E; cbn.
    + apply beqs_true in E. subst a. destruct (beqs k k') eqn:E2; [apply beqs_true in E2; congruence|reflexivity].
    + destruct (beqs a k'); [reflexivity|exact IH].
Qed.
Lemma cm_set_keys m k v : (In k (map fst m) -> map fst (cm_set m k v) = map fst m) /\ (~ In k (map fst m) -> map fst (cm_set m k v) = map fst m ++ [k]).
Proof.
  induction m as [|[a w] m [IH1 IH2]]; cbn; [split; [intros []|reflexivity]|]. destruct (beqs a k) eqn:E.
  - apply beqs_true in E. subst a. split; [reflexivity|intros H; exfalso; apply H; left; reflexivity].
  - assert (a <> k) by (intros ->; rewrite (proj2 (beqs_true k k) eq_refl) in E; discriminate). split; cbn; intros H'.
    + f_equal. apply IH1. destruct H' as [?|?]; [congruence|assumption].
    + f_equal. apply IH2. tauto.
Qed.
Lemma KI_set m k v : KI m -> lowercase_str cfg k = k -> KI (cm_set m k v).
Proof.
  intros [Hnd Hall] Hk. destruct (in_dec (list_eq_dec Byte.byte_eq_dec) k (map fst m)) as [Hin|Hnin]; split.
  - rewrite (proj1 (cm_set_keys m k v) Hin). exact Hnd.
  - clear Hnd Hin. induction m as [|[a w] m IH]; cbn; [repeat constructor; exact Hk|]. inversion Hall; subst. destruct (beqs a k) eqn:E; constructor; auto.
  - rewrite (proj2 (cm_set_keys m k v) Hnin). apply NoDup_snoc; assumption.
  - clear Hnd Hnin. induction m as [|[a w] m IH]; cbn; [repeat constructor; exact Hk|]. inversion Hall; subst. destruct (beqs a k) eqn:E; constructor; auto.
Qed.
(* insert_raw always lands on the lower-cased key *)
Lemma insert_raw_is_set m a v : KI m -> utf8_valid a = true -> cs_insert_raw cfg m a v = cm_set m (lowercase_str cfg a) v.
Proof.
  intros [_ Hall] Hv. unfold cs_insert_raw. destruct (cm_get m a) eqn:E; [|reflexivity]. apply cm_get_some_in in E.
  apply in_map_iff in E. destruct E as ([k w] & Hk & Hin). cbn in Hk. subst k. rewrite Forall_forall in Hall. specialize (Hall _ Hin). cbn in Hall. rewrite Hall. reflexivity.
Qed.
(* C12: inserting the same algorithm in another letter case replaces the earlier entry *)
Theorem C12_case m a1 v1 a2 v2 : KI m -> utf8_valid a1 = true -> utf8_valid a2 = true -> spec_lower cfg a1 = spec_lower cfg a2 ->
  let m2 := cs_insert_raw cfg (cs_insert_raw cfg m a1 v1) a2 v2 in
  KI m2 /\ cm_get m2 (spec_lower cfg a1) = Some v2 /\ map fst m2 = map fst (cs_insert_raw cfg m a1 v1).
Proof.
  intros HK V1 V2 Heq. cbn zeta. rewrite (insert_raw_is_set m a1 v1 HK V1).
  assert (L1 : lowercase_str cfg a1 = spec_lower cfg a1) by (apply lowercase_str_spec; assumption).
  assert (L2 : lowercase_str cfg a2 = spec_lower cfg a1) by (rewrite Heq; apply lowercase_str_spec; assumption).
  assert (Hid : lowercase_str cfg (spec_lower cfg a1) = spec_lower cfg a1) by (rewrite <- L1; apply lowercase_str_idem; assumption).
  rewrite L1. set (k := spec_lower cfg a1) in *. pose proof (KI_set m k v1 HK Hid) as HK1.
  rewrite (insert_raw_is_set _ a2 v2 HK1 V2), L2. split; [apply KI_set; assumption|]. split; [apply cm_get_set_same|].
  apply (proj1 (cm_set_keys _ k v2)). eapply cm_get_some_in. apply cm_get_set_same.
Qed.
End CS5.
Print Assumptions C12_case.
