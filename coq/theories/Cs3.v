From Coq Require Import List NArith ZArith Bool Lia Sorted Permutation.
From Coq.Strings Require Import Byte.
From PM Require Import Base Lemmas Text TextLemmas Model Quals Lower Lower2 Cs Cs2.
Import ListNotations.
Local Open Scope N_scope.

Lemma NoDup_snoc {A} (l : list A) a : NoDup l -> ~ In a l -> NoDup (l ++ [a]).
Proof.
  induction l as [|x l IH]; cbn; intros Hn Ha; [constructor; [tauto|constructor]|]. inversion Hn; subst. constructor.
  - intros Hin. apply in_app_or in Hin. destruct Hin as [Hin|[->|[]]]; tauto.
  - apply IH; tauto.
Qed.
Section CS3. Variable cfg : config.

(* one checksum item "alg:hex" *)
Definition parse_item (it : bytes) : option (bytes * bytes) :=
  match rsplit_once c_colon it with Some (alg, hex) => Some (lowercase_str cfg alg, hex) | None => None end.

(* the parse loop, characterised in both directions *)
Lemma cs_parse_items_sound items : forall acc m, cs_parse_items cfg items acc = Ok m ->
  exists es, Forall2 (fun it e => parse_item it = Some e) items es /\ m = acc ++ es
             /\ (NoDup (map fst acc) -> NoDup (map fst m)).
Proof.
  induction items as [|it items IH]; intros acc m; cbn [cs_parse_items].
  - intros [= <-]. exists []. rewrite app_nil_r. repeat split; auto.
  - destruct (rsplit_once c_colon it) as [[alg hex]|] eqn:Er; [|discriminate].
    destruct (cm_get acc (lowercase_str cfg alg)) eqn:Eg; [discriminate|]. intros H. apply IH in H.
    destruct H as (es & HF & -> & Hnd). exists ((lowercase_str cfg alg, hex) :: es). split; [constructor; [unfold parse_item; rewrite Er; reflexivity|exact HF]|].
    split; [rewrite <- app_assoc; reflexivity|]. intros Hacc. apply Hnd. rewrite map_app. cbn.
    apply NoDup_snoc; [exact Hacc|]. intros Hin. apply in_map_iff in Hin. destruct Hin as ([a v] & Ha & Hin). cbn in Ha. subst a.
    clear - Eg Hin. induction acc as [|[a w] acc IHa]; [destruct Hin|]. cbn in Eg. destruct (beqs a (lowercase_str cfg alg)) eqn:E; [discriminate|].
    destruct Hin as [[= -> _]|Hin]; [rewrite (proj2 (beqs_true _ _) eq_refl) in E; discriminate|apply IHa; assumption].
Qed.
Lemma cs_parse_items_complete items es : Forall2 (fun it e => parse_item it = Some e) items es -> forall acc,
  NoDup (map fst (acc ++ es)) -> cs_parse_items cfg items acc = Ok (acc ++ es).
Proof.
  induction 1 as [|it e items es Hit HF IH]; intros acc Hnd; cbn [cs_parse_items]; [rewrite app_nil_r; reflexivity|].
  unfold parse_item in Hit. destruct (rsplit_once c_colon it) as [[alg hex]|]; [|discriminate]. injection Hit as <-.
  rewrite cm_get_none.
  - rewrite IH; rewrite <- app_assoc; [reflexivity|exact Hnd].
  - rewrite map_app in Hnd. cbn in Hnd. apply NoDup_remove_2 in Hnd. intros Hin. apply Hnd. apply in_or_app. left. exact Hin.
Qed.
End CS3.
