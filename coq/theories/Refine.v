(* C11 as a refinement: the reference map of a collection q is the function  k |-> q_get q k  on valid keys (keyed by the
   ASCII-lower-cased key).  Every mutating operation is characterised by what it does to that function, every Entry operation
   of the executed language is shown equal to its get/insert/remove formulation, and the list is determined by the function. *)
From Coq Require Import List NArith ZArith Bool Lia Sorted.
From Coq.Strings Require Import Byte.
From PM Require Import Base Lemmas Text TextLemmas Model Quals Quals2 Quals3 Quals4 Quals5 Exec Final.
Import ListNotations.
Local Open Scope N_scope.

Section REF. Variable cfg : config.
Hypothesis Hasc : tbl_ascii_ok cfg = true.
Hypothesis Hksp : key_special_ascii cfg = true.

Lemma valid_check k : valid_key cfg k = true -> exists m, check_key cfg k = Ok m.
Proof. intros H. unfold check_key. rewrite H. eexists. reflexivity. Qed.

(* the shape of the list after insert *)
Lemma q_insert_shape q k v q' : QInv cfg q -> q_insert cfg q k v = Ok q' ->
  exists pre post, q' = pre ++ (lk k, v) :: post /\ (q = pre ++ post \/ exists old, q = pre ++ (lk k, old) :: post).
Proof.
  intros HQ. unfold q_insert. destruct (check_key cfg k) as [m|e] eqn:Ec; [|discriminate]. cbn [bind].
  destruct (into_key_lk cfg m k Ec) as (Hik & Hms & Hvk). unfold search. rewrite Hms.
  pose proof (search_from_spec cfg Hasc Hksp q HQ k 0%nat Hvk) as S. destruct (search_from cfg q k 0) as [j|j].
  - destruct S as (pre & w & post & -> & ->). intros [= <-]. cbn [Nat.add]. rewrite set_nth_app. exists pre, post. split; [reflexivity|right; eexists; reflexivity].
  - destruct S as (pre & post & -> & -> & _ & _). intros [= <-]. cbn [Nat.add]. rewrite insert_at_app, Hik. exists pre, post. split; [reflexivity|left; reflexivity].
Qed.
Lemma lk_valid_neq k k' : lk k' <> lk k -> forall v w : bytes, (lk k', w) <> (lk k, v).
Proof. intros H v w E. injection E as E _. contradiction. Qed.
(* insert: the key gets the value, every other key keeps what it had *)
Theorem q_get_insert_other q k v q' k' : QInv cfg q -> q_insert cfg q k v = Ok q' -> valid_key cfg k' = true -> lk k' <> lk k ->
  q_get cfg q' k' = q_get cfg q k'.
Proof.
  intros HQ Hi Hk' Hne. pose proof (q_insert_inv cfg Hasc Hksp _ _ _ _ HQ Hi) as HQ'.
  destruct (q_insert_shape q k v q' HQ Hi) as (pre & post & E' & [E|[old E]]).
  - destruct (q_get cfg q k') as [w|] eqn:Eg.
    + apply (q_get_iff cfg Hasc Hksp q' k' w HQ' Hk'). apply (q_get_iff cfg Hasc Hksp q k' w HQ Hk') in Eg. rewrite E in Eg. rewrite E'.
      apply in_app_or in Eg. apply in_or_app. destruct Eg; [left; assumption|right; right; assumption].
    + destruct (q_get cfg q' k') as [w|] eqn:Eg'; [|reflexivity]. exfalso.
      apply (q_get_iff cfg Hasc Hksp q' k' w HQ' Hk') in Eg'. rewrite E' in Eg'. apply in_app_or in Eg'.
      assert (Hin : In (lk k', w) q). { rewrite E. apply in_or_app. destruct Eg' as [H|[H|H]]; [left; exact H|exfalso; exact (lk_valid_neq k k' Hne v w (eq_sym H))|right; exact H]. }
      apply (q_get_iff cfg Hasc Hksp q k' w HQ Hk') in Hin. congruence.
  - destruct (q_get cfg q k') as [w|] eqn:Eg.
    + apply (q_get_iff cfg Hasc Hksp q' k' w HQ' Hk'). apply (q_get_iff cfg Hasc Hksp q k' w HQ Hk') in Eg. rewrite E in Eg. rewrite E'.
      apply in_app_or in Eg. apply in_or_app. destruct Eg as [H|[H|H]]; [left; exact H|exfalso; exact (lk_valid_neq k k' Hne old w (eq_sym H))|right; right; exact H].
    + destruct (q_get cfg q' k') as [w|] eqn:Eg'; [|reflexivity]. exfalso.
      apply (q_get_iff cfg Hasc Hksp q' k' w HQ' Hk') in Eg'. rewrite E' in Eg'. apply in_app_or in Eg'.
      assert (Hin : In (lk k', w) q). { rewrite E. apply in_or_app. destruct Eg' as [H|[H|H]]; [left; exact H|exfalso; exact (lk_valid_neq k k' Hne v w (eq_sym H))|right; right; exact H]. }
      apply (q_get_iff cfg Hasc Hksp q k' w HQ Hk') in Hin. congruence.
Qed.
(* lookup depends only on the lower-cased key *)
Theorem q_get_case_insensitive q k k' : QInv cfg q -> valid_key cfg k = true -> valid_key cfg k' = true -> lk k = lk k' -> q_get cfg q k = q_get cfg q k'.
Proof.
  intros HQ H1 H2 E. destruct (q_get cfg q k) as [w|] eqn:Eg.
  - symmetry. apply (q_get_iff cfg Hasc Hksp q k' w HQ H2). rewrite <- E. apply (q_get_iff cfg Hasc Hksp q k w HQ H1). exact Eg.
  - destruct (q_get cfg q k') as [w|] eqn:Eg'; [|reflexivity]. apply (q_get_iff cfg Hasc Hksp q k' w HQ H2) in Eg'. rewrite <- E in Eg'.
    apply (q_get_iff cfg Hasc Hksp q k w HQ H1) in Eg'. congruence.
Qed.
(* remove: the key becomes absent, every other key keeps what it had *)
Theorem q_get_remove_other q k k' : QInv cfg q -> valid_key cfg k = true -> valid_key cfg k' = true -> lk k' <> lk k ->
  q_get cfg (fst (q_remove cfg q k)) k' = q_get cfg q k'.
Proof.
  intros HQ Hk Hk' Hne. destruct (q_remove_spec cfg Hasc Hksp q k HQ Hk) as (HQ' & _ & _ & Hoth).
  destruct (q_get cfg q k') as [w|] eqn:Eg.
  - apply (q_get_iff cfg Hasc Hksp _ k' w HQ' Hk'). apply Hoth; [exact Hne|]. apply (q_get_iff cfg Hasc Hksp q k' w HQ Hk'). exact Eg.
  - destruct (q_get cfg (fst (q_remove cfg q k)) k') as [w|] eqn:Eg'; [|reflexivity]. exfalso.
    apply (q_get_iff cfg Hasc Hksp _ k' w HQ' Hk') in Eg'. apply Hoth in Eg'; [|exact Hne]. apply (q_get_iff cfg Hasc Hksp q k' w HQ Hk') in Eg'. congruence.
Qed.
(* retain: a key survives iff its pair satisfies the predicate; values are untouched *)
Theorem q_get_retain f q k : QInv cfg q -> valid_key cfg k = true ->
  q_get cfg (q_retain f q) k = match q_get cfg q k with Some v => if f (lk k) v then Some v else None | None => None end.
Proof.
  intros HQ Hk. pose proof (QInv_filter cfg (fun kv => f (fst kv) (snd kv)) q HQ) as HQ'. fold (q_retain f q) in HQ'.
  destruct (q_get cfg q k) as [v|] eqn:Eg.
  - pose proof Eg as Ein. apply (q_get_iff cfg Hasc Hksp q k v HQ Hk) in Ein. destruct (f (lk k) v) eqn:Ef.
    + apply (q_get_iff cfg Hasc Hksp _ k v HQ' Hk). unfold q_retain. apply filter_In. split; [exact Ein|exact Ef].
    + destruct (q_get cfg (q_retain f q) k) as [w|] eqn:Eg'; [|reflexivity]. exfalso.
      apply (q_get_iff cfg Hasc Hksp _ k w HQ' Hk) in Eg'. unfold q_retain in Eg'. apply filter_In in Eg'. destruct Eg' as [Hin Hf]. cbn [fst snd] in Hf.
      apply (q_get_iff cfg Hasc Hksp q k w HQ Hk) in Hin. rewrite Hin in Eg. injection Eg as ->. congruence.
  - destruct (q_get cfg (q_retain f q) k) as [w|] eqn:Eg'; [|reflexivity]. exfalso.
    apply (q_get_iff cfg Hasc Hksp _ k w HQ' Hk) in Eg'. unfold q_retain in Eg'. apply filter_In in Eg'. destruct Eg' as [Hin _].
    apply (q_get_iff cfg Hasc Hksp q k w HQ Hk) in Hin. congruence.
Qed.
(* iter_mut / and_modify / retain_mut change values only *)
Theorem q_get_map_vals g q k : QInv cfg q -> valid_key cfg k = true -> q_get cfg (map_vals g q) k = option_map g (q_get cfg q k).
Proof.
  intros HQ Hk. pose proof (map_vals_inv cfg g q HQ) as HQ'. destruct (q_get cfg q k) as [v|] eqn:Eg; cbn [option_map].
  - apply (q_get_iff cfg Hasc Hksp _ k (g v) HQ' Hk). apply (q_get_iff cfg Hasc Hksp q k v HQ Hk) in Eg. unfold map_vals.
    apply in_map_iff. exists (lk k, v). split; [reflexivity|exact Eg].
  - destruct (q_get cfg (map_vals g q) k) as [w|] eqn:Eg'; [|reflexivity]. exfalso.
    apply (q_get_iff cfg Hasc Hksp _ k w HQ' Hk) in Eg'. unfold map_vals in Eg'. apply in_map_iff in Eg'. destruct Eg' as ([a b] & E & Hin). cbn [fst snd] in E. injection E as E1 _. subst a.
    apply (q_get_iff cfg Hasc Hksp q k b HQ Hk) in Hin. congruence.
Qed.
(* iteration yields exactly the present keys with their values, in strictly ascending order, each once *)
Theorem iteration_is_the_map q : QInv cfg q ->
  (forall k v, In (k, v) q <-> valid_key cfg k = true /\ lk k = k /\ q_get cfg q k = Some v)
  /\ StronglySorted (fun a b => bcmp a b = Lt) (map fst q) /\ NoDup q /\ rev (rev q) = q.
Proof.
  intros HQ. split; [|split; [exact (proj1 HQ)|split; [apply (QInv_nodup cfg); exact HQ|apply rev_involutive]]].
  intros k v. split.
  - intros Hin. assert (Hc : canon_key cfg k). { destruct HQ as [_ HC]. rewrite Forall_forall in HC. apply HC. apply in_map_iff. exists (k, v). split; [reflexivity|exact Hin]. }
    destruct Hc as [Hv Hl]. split; [exact Hv|split; [exact Hl|]]. apply (q_get_iff cfg Hasc Hksp q k v HQ Hv). rewrite Hl. exact Hin.
  - intros (Hv & Hl & Hg). apply (q_get_iff cfg Hasc Hksp q k v HQ Hv) in Hg. rewrite Hl in Hg. exact Hg.
Qed.

(* ---------------- every Entry operation of the executed language is its get / insert / remove formulation ---------------- *)
Lemma entry_view q k : QInv cfg q -> valid_key cfg k = true ->
  exists m, check_key cfg k = Ok m /\
  match q_get cfg q k with
  | Some w => exists i, search cfg q m = Found i /\ nth_error q i = Some (lk k, w)
  | None => exists i, search cfg q m = NotFound i
  end.
Proof.
  intros HQ Hv. destruct (valid_check k Hv) as [m Ec]. exists m. split; [exact Ec|].
  destruct (into_key_lk cfg m k Ec) as (_ & Hms & _). unfold q_get. rewrite Ec. unfold search. rewrite Hms.
  pose proof (search_from_spec cfg Hasc Hksp q HQ k 0%nat Hv) as S. destruct (search_from cfg q k 0) as [j|j].
  - destruct S as (pre & w & post & -> & ->). cbn [Nat.add]. rewrite nth_error_app_mid. cbn [option_map snd]. exists (length pre). split; [reflexivity|apply nth_error_app_mid].
  - eexists. reflexivity.
Qed.
Theorem entry_insert_is_reference q k v : QInv cfg q -> valid_key cfg k = true ->
  qxstep cfg q (QEInsert k v) = match q_get cfg q k with Some w => (q_set cfg q k v, XoOcc2 w w) | None => (q_set cfg q k v, XoVacV v) end.
Proof.
  intros HQ Hv. destruct (entry_view q k HQ Hv) as (m & Ec & V). cbn [qxstep]. rewrite Ec. unfold q_set.
  destruct (q_get cfg q k) as [w|].
  - destruct V as (i & Es & En). rewrite Es, En. cbn [snd]. rewrite (set_branch cfg q k v m i Ec Es). reflexivity.
  - destruct V as (i & Es). rewrite Es. rewrite (insert_branch cfg q k v m i Ec Es). reflexivity.
Qed.
Theorem entry_remove_is_reference q k : QInv cfg q -> valid_key cfg k = true ->
  qxstep cfg q (QERemove k) = match q_get cfg q k with Some w => (fst (q_remove cfg q k), XoOcc w) | None => (q, XoVac) end.
Proof.
  intros HQ Hv. destruct (entry_view q k HQ Hv) as (m & Ec & V). cbn [qxstep]. rewrite Ec.
  destruct (q_get cfg q k) as [w|].
  - destruct V as (i & Es & En). rewrite Es, En. cbn [snd]. rewrite (remove_branch cfg q k m i Ec Es). reflexivity.
  - destruct V as (i & Es). rewrite Es. reflexivity.
Qed.
Theorem entry_remove_entry_is_reference q k : QInv cfg q -> valid_key cfg k = true ->
  qxstep cfg q (QERemoveEntry k) = match q_get cfg q k with Some w => (fst (q_remove cfg q k), XoOccKV (lk k) w) | None => (q, XoVac) end.
Proof.
  intros HQ Hv. destruct (entry_view q k HQ Hv) as (m & Ec & V). cbn [qxstep]. rewrite Ec.
  destruct (q_get cfg q k) as [w|].
  - destruct V as (i & Es & En). rewrite Es, En. cbn [fst snd]. rewrite (remove_branch cfg q k m i Ec Es). reflexivity.
  - destruct V as (i & Es). rewrite Es. reflexivity.
Qed.
Theorem entry_and_modify_is_reference q k suf v : QInv cfg q -> valid_key cfg k = true ->
  qxstep cfg q (QEAndMod k suf v) = match q_get cfg q k with Some w => (q_set cfg q k (w ++ suf), XoVC (w ++ suf) true) | None => (q_set cfg q k v, XoVC v false) end.
Proof.
  intros HQ Hv. destruct (entry_view q k HQ Hv) as (m & Ec & V). cbn [qxstep]. rewrite Ec. unfold q_set.
  destruct (q_get cfg q k) as [w|].
  - destruct V as (i & Es & En). rewrite Es, En. cbn [snd]. rewrite (set_branch cfg q k _ m i Ec Es). reflexivity.
  - destruct V as (i & Es). rewrite Es. rewrite (insert_branch cfg q k v m i Ec Es). reflexivity.
Qed.
(* a callback that empties the value leaves the entry in place (empty values are removed by build(), not by the collection) *)
Theorem entry_and_clear_is_reference q k v : QInv cfg q -> valid_key cfg k = true ->
  qxstep cfg q (QEAndClr k v) = match q_get cfg q k with Some w => (q_set cfg q k [], XoVC [] true) | None => (q_set cfg q k v, XoVC v false) end.
Proof.
  intros HQ Hv. destruct (entry_view q k HQ Hv) as (m & Ec & V). cbn [qxstep]. rewrite Ec. unfold q_set.
  destruct (q_get cfg q k) as [w|].
  - destruct V as (i & Es & En). rewrite Es, En. rewrite (set_branch cfg q k _ m i Ec Es). reflexivity.
  - destruct V as (i & Es). rewrite Es. rewrite (insert_branch cfg q k v m i Ec Es). reflexivity.
Qed.
Theorem entry_invalid_key q k : valid_key cfg k = false ->
  forall v suf, qxstep cfg q (QEOrIns k v) = (q, XoE) /\ qxstep cfg q (QEOrInsWith k v) = (q, XoE) /\ qxstep cfg q (QEAndMod k suf v) = (q, XoE)
  /\ qxstep cfg q (QEInsert k v) = (q, XoE) /\ qxstep cfg q (QERemove k) = (q, XoE) /\ qxstep cfg q (QERemoveEntry k) = (q, XoE) /\ qxstep cfg q (QEGetMut k suf) = (q, XoE)
  /\ qxstep cfg q (QIns k v) = (q, XoE) /\ qxstep cfg q (QRem k) = (q, XoOpt None) /\ qxstep cfg q (QGet k) = (q, XoOpt None) /\ qxstep cfg q (QHas k) = (q, XoB false).
Proof.
  intros Hv v suf. assert (Ec : check_key cfg k = Err EInvalidQualifier) by (unfold check_key; rewrite Hv; reflexivity).
  cbn [qxstep]. rewrite Ec, (q_insert_invalid cfg q k v Hv), (q_remove_invalid cfg q k Hv), (q_get_invalid cfg q k Hv). repeat split; reflexivity.
Qed.
End REF.
