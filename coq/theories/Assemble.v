(* Assembled, property-level theorems: the invariant of C04 for arbitrary (sane) hooks, C10 for stable hooks,
   stability of the built-in string shape, success conditions of build (C09), injectivity for the typed shape (C19). *)
From Coq Require Import List NArith ZArith Bool Lia Sorted.
From Coq.Strings Require Import Byte.
From PM Require Import Base Lemmas Text TextLemmas Model Skeleton Segs Quals Quals2 Quals3 Quals4 Canon Canon2 DecQual Roundtrip ParseInv
  Lower Lower2 Lower3 Cs Cs2 Cs3 Cs4 BuildG BuildGen C01P C04 C09 Inj Inj2.
Import ListNotations.
Local Open Scope N_scope.

Section ASM. Variable cfg : config.
Hypothesis Hasc : tbl_ascii_ok cfg = true.
Hypothesis Hksp : key_special_ascii cfg = true.
Hypothesis Hscan : scan_lower_ne cfg = true.
Hypothesis Hsa : scan_ascii_ok cfg = true.
Hypothesis Hfix : tbl_img_fixed cfg = true.
Hypothesis Hsc : tbl_img_scalar cfg = true.
Hypothesis Hnc : tbl_no_comma cfg = true.
Hypothesis Hck : valid_key cfg s_checksum = true.

(* ---------------- the string shape is stable ---------------- *)
Lemma G_finish_stable : finish_stable (string_shape cfg).
Proof.
  intros t p t1 p1 Vn. cbn [sh_finish string_shape]. unfold str_finish. destruct (valid_type cfg t) eqn:Ev; [|discriminate]. intros [= <- <-].
  repeat split; try reflexivity; try exact Vn. intros q. cbn [sh_finish string_shape]. unfold str_finish.
  rewrite (valid_type_mal cfg t Ev), mal_idem. reflexivity.
Qed.

Section SH. Context {T E : Type} (sh : shape T E).

(* ---------------- the parser reaches build() with well-formed parts ---------------- *)
Lemma parse_via_build s t p : parse cfg sh s = Ok (t, p) ->
  exists t0 p0, fields_valid cfg p0 /\ seg_inv p0 /\ build cfg sh t0 p0 = Ok (t, p).
Proof.
  intros H. apply parse_sound in H. destruct H as (r & _ & _ & H). unfold checks in H.
  apply bind_ok in H. destruct H as (sub & H3 & H). apply lift_ok in H3.
  apply bind_ok in H. destruct H as (q & H4 & H). apply lift_ok in H4.
  apply bind_ok in H. destruct H as (t0 & Ht & H).
  apply bind_ok in H. destruct H as (ver & H6 & H). apply lift_ok in H6.
  apply bind_ok in H. destruct H as (ns & H7 & H). apply lift_ok in H7.
  apply bind_ok in H. destruct H as (name & Hn & H). apply lift_ok in Hn.
  destruct (checks_fields cfg Hasc Hksp r sub q ver ns name H3 H4 H6 H7 Hn) as [FV SI].
  exists t0. eexists. split; [exact FV|]. split; [exact SI|exact H].
Qed.

(* ---------------- C04: the invariant of every PURL handed out ---------------- *)
Definition vals_utf8 (q : quals) : Prop := Forall (fun kv => utf8_valid (snd kv) = true) q.
(* the only assumption on a user-written hook: it hands back a qualifier collection that the collection's own API can produce
   (QInv, C11) holding Rust strings (valid UTF-8); everything else may be edited arbitrarily *)
Definition hook_sane : Prop := forall t p t1 p1, QInv cfg (p_quals p) -> vals_utf8 (p_quals p) ->
  sh_finish sh t p = Ok (t1, p1) -> QInv cfg (p_quals p1) /\ vals_utf8 (p_quals p1).
Definition Inv (p : parts) : Prop :=
  p_name p <> []
  /\ QInv cfg (p_quals p)                                                         (* valid lower-case keys, strictly ascending *)
  /\ Forall (fun kv => snd kv <> []) (p_quals p)                                   (* no empty value *)
  /\ (forall k v, In (k, v) (p_quals p) -> q_get cfg (p_quals p) k = Some v)       (* each retrievable by its key *)
  /\ (forall v, q_get cfg (p_quals p) s_checksum = Some v -> checksum_canonical v).
(* accessors never report an empty string *)
Definition acc (x : bytes) : option bytes := if is_empty x then None else Some x.
Lemma acc_nonempty x : acc x <> Some []. Proof. destruct x; discriminate. Qed.

Lemma filter_nonempty_vals (q : quals) : Forall (fun kv : bytes * bytes => snd kv <> []) (q_retain (fun _ v => negb (is_empty v)) q).
Proof.
  unfold q_retain. apply Forall_forall. intros kv Hin. apply filter_In in Hin. destruct Hin as [_ Hne].
  apply negb_true_iff in Hne. apply is_empty_false. exact Hne.
Qed.
Lemma filter_utf8 f (q : quals) : vals_utf8 q -> vals_utf8 (filter f q).
Proof. unfold vals_utf8. rewrite !Forall_forall. intros H kv Hin. apply filter_In in Hin. apply H. tauto. Qed.

Theorem C04_build t p t' p' : hook_sane -> QInv cfg (p_quals p) -> vals_utf8 (p_quals p) -> build cfg sh t p = Ok (t', p') -> Inv p'.
Proof.
  intros HS HQ HU. unfold build. destruct (sh_finish sh t p) as [[t1 p1]|e] eqn:Ef; [|discriminate].
  destruct (HS _ _ _ _ HQ HU Ef) as [HQ1 HU1].
  destruct (is_empty (p_name p1)) eqn:En; [discriminate|]. assert (Hne : p_name p1 <> []) by (apply is_empty_false; exact En).
  set (q1 := q_retain (fun _ v => negb (is_empty v)) (p_quals p1)).
  assert (HQq : QInv cfg q1) by (apply QInv_filter; exact HQ1).
  assert (HVq : Forall (fun kv : bytes * bytes => snd kv <> []) q1) by apply filter_nonempty_vals.
  assert (HUq : vals_utf8 q1) by (apply filter_utf8; exact HU1).
  destruct (q_get cfg q1 s_checksum) as [v|] eqn:Eg.
  - destruct (cs_try_from cfg v) as [m|e] eqn:Ep; [|discriminate]. destruct (cs_to_text m) as [txt|e] eqn:Et; [|discriminate].
    destruct (q_insert cfg q1 s_checksum txt) as [q2|e] eqn:Ei; [|discriminate]. intros [= <- <-].
    pose proof (q_get_in cfg Hasc Hksp _ _ _ HQq Hck Eg) as Hin.
    assert (Hvv : utf8_valid v = true). { unfold vals_utf8 in HUq. rewrite Forall_forall in HUq. exact (HUq _ Hin). }
    destruct (cs_fix cfg Hasc Hsa Hfix Hsc Hnc v m txt Hvv Ep Et) as (F1 & F2 & F3 & F4).
    pose proof (q_insert_inv cfg Hasc Hksp _ _ _ _ HQq Ei) as HQ2.
    pose proof (q_get_insert_same cfg Hasc Hksp _ _ _ _ HQq Ei) as Eg2.
    unfold Inv. cbn [p_name p_quals with_quals]. split; [exact Hne|]. split; [exact HQ2|]. split.
    { exact (q_insert_vals cfg Hasc Hksp (fun v => v <> []) q1 s_checksum txt q2 HQq HVq F3 Ei). }
    split. { intros k w. apply (quals_retrievable cfg Hasc Hksp). exact HQ2. }
    intros w Hw. rewrite Eg2 in Hw. injection Hw as <-. eapply (checksum_text_canonical cfg); eassumption.
  - intros [= <- <-]. unfold Inv. cbn [p_name p_quals with_quals]. split; [exact Hne|]. split; [exact HQq|]. split; [exact HVq|].
    split. { intros k w. apply (quals_retrievable cfg Hasc Hksp). exact HQq. }
    intros w Hw. fold q1 in Hw. rewrite Eg in Hw. discriminate.
Qed.
Theorem C04_parse s t p : hook_sane -> parse cfg sh s = Ok (t, p) -> Inv p.
Proof.
  intros HS H. destruct (parse_via_build s t p H) as (t0 & p0 & (_ & _ & _ & _ & HQ & HV) & _ & Hb).
  refine (C04_build t0 p0 t p HS HQ _ Hb). unfold vals_utf8. unfold vals_ok in HV. rewrite Forall_forall in *. intros kv Hin. apply (HV kv Hin).
Qed.

(* ---------------- C10: re-building is the identity, for every stable hook ---------------- *)
Theorem C10_build t0 p0 t p : finish_stable sh -> fields_valid cfg p0 -> build cfg sh t0 p0 = Ok (t, p) -> build cfg sh t p = Ok (t, p).
Proof. intros FS FV H. exact (proj2 (proj2 (proj2 (proj2 (build_stable cfg Hasc Hksp Hsa Hfix Hsc Hnc Hck sh t0 p0 t p FS FV H))))). Qed.
Theorem C10_parse s t p : finish_stable sh -> parse cfg sh s = Ok (t, p) -> build cfg sh t p = Ok (t, p).
Proof. intros FS H. destruct (parse_via_build s t p H) as (t0 & p0 & FV & _ & Hb). exact (C10_build t0 p0 t p FS FV Hb). Qed.
End SH.

(* a hook that leaves the qualifiers alone is sane *)
Lemma keeps_quals_sane {T E} (sh : shape T E) :
  (forall t p t1 p1, sh_finish sh t p = Ok (t1, p1) -> p_quals p1 = p_quals p) -> hook_sane sh.
Proof. intros H t p t1 p1 HQ HU Ef. rewrite (H _ _ _ _ Ef). split; assumption. Qed.
Lemma G_sane : hook_sane (string_shape cfg).
Proof. apply keeps_quals_sane. intros t p t1 p1. cbn [sh_finish string_shape]. unfold str_finish. destruct (valid_type cfg t); [|discriminate]. intros [= _ <-]. reflexivity. Qed.
Lemma Cow_sane : hook_sane {| sh_from_str := fun s => @Ok parse_error bytes s; sh_finish := cow_borrowed_finish cfg; sh_type := fun t => t; sh_inj := fun e => e |}.
Proof. apply keeps_quals_sane. intros t p t1 p1. cbn [sh_finish]. unfold cow_borrowed_finish. destruct (valid_type cfg t); [|discriminate]. intros [= _ <-]. reflexivity. Qed.
Lemma P_sane : hook_sane (ptype_shape cfg).
Proof.
  apply keeps_quals_sane. intros t p t1 p1. cbn [sh_finish ptype_shape]. unfold pt_finish.
  destruct t; try (intros [= _ <-]; reflexivity). destruct (maven_ns_missing cfg (p_ns p)); [discriminate|]. intros [= _ <-]. reflexivity.
Qed.
(* the type string of the built-in string shapes *)
Lemma G_type_ok t p t' p' : build cfg (string_shape cfg) t p = Ok (t', p') ->
  valid_type cfg t' = true /\ t' = make_ascii_lowercase t.
Proof.
  unfold build. cbn [sh_finish string_shape]. unfold str_finish. destruct (valid_type cfg t) eqn:Ev; [|discriminate].
  destruct (is_empty (p_name p)); [discriminate|]. intros H.
  assert (t' = make_ascii_lowercase t).
  { destruct (q_get _ _ _); [|injection H as <- _; reflexivity]. destruct (cs_try_from _ _); [|discriminate]. destruct (cs_to_text _); [|discriminate].
    destruct (q_insert _ _ _ _); [|discriminate]. injection H as <- _. reflexivity. }
  subst t'. split; [apply valid_type_mal; exact Ev|reflexivity].
Qed.

(* ---------------- C19: the canonical string determines the typed PURL as well ---------------- *)
Lemma pt_name_inj t1 t2 : pt_name t1 = pt_name t2 -> t1 = t2.
Proof. destruct t1, t2; intros H; try reflexivity; discriminate H. Qed.
Lemma pt_name_valid t : valid_type cfg (pt_name t) = true. Proof. destruct t; reflexivity. Qed.
Theorem format_inj_P (R : rt_ok cfg) t1 p1 t2 p2 : keys_valid cfg (p_quals p1) -> keys_valid cfg (p_quals p2) ->
  format cfg (ptype_shape cfg) t1 p1 = format cfg (ptype_shape cfg) t2 p2 -> t1 = t2 /\ p1 = p2.
Proof.
  intros K1 K2 H.
  assert (H' : format cfg (string_shape cfg) (pt_name t1) p1 = format cfg (string_shape cfg) (pt_name t2) p2) by exact H.
  destruct (format_inj_G cfg R _ _ _ _ (pt_name_valid t1) (pt_name_valid t2) K1 K2 H') as [Ht Hp]. split; [apply pt_name_inj; exact Ht|exact Hp].
Qed.
Lemma QInv_keys_valid q : QInv cfg q -> keys_valid cfg q.
Proof.
  intros [_ HC]. unfold keys_valid. rewrite Forall_forall in *. intros kv Hin. assert (Hk : In (fst kv) (map fst q)) by (apply in_map; exact Hin).
  specialize (HC _ Hk). unfold canon_key in HC. tauto.
Qed.
End ASM.
