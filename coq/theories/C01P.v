From Coq Require Import List NArith ZArith Bool Lia.
From Coq.Strings Require Import Byte.
From PM Require Import Base Lemmas Text TextLemmas Model Skeleton Quals Canon DecQual Roundtrip Lower Lower2 Lower3 Cs2 Pypi Pypi2 LowerAny PypiAny BuildG BuildGen.
Import ListNotations.
Local Open Scope N_scope.

Section CP0. Variable cfg : config.
Hypothesis Hasc : tbl_ascii_ok cfg = true.
Hypothesis Hsa : scan_ascii_ok cfg = true.
Hypothesis Hdl : dash_not_letter cfg = true.
Hypothesis Hfix : tbl_img_fixed cfg = true.
Hypothesis Hsc : tbl_img_scalar cfg = true.
Hypothesis Hnc : tbl_no_comma cfg = true.
Hypothesis Hck : valid_key cfg s_checksum = true.
Hypothesis Hhy : dash_has_hyphen cfg = true.
Hypothesis Hnd : tbl_no_dash cfg = true.
Let P := ptype_shape cfg.

Lemma pt_roundtrip t : valid_type cfg (pt_name t) = true /\ pt_from_str cfg (pt_name t) = Some t.
Proof. destruct t; split; reflexivity. Qed.

Lemma pt_finish_stable : finish_stable P.
Proof.
  intros t p t1 p1 Vn. cbn [sh_finish P ptype_shape]. unfold pt_finish.
  destruct t.
  1,2,3,5: intros [= <- <-]; repeat split; try reflexivity; try exact Vn.
  - destruct (maven_ns_missing cfg (p_ns p)) eqn:Em; [discriminate|]. intros [= <- <-]. repeat split; try reflexivity; try exact Vn.
    intros q. cbn [p_ns with_quals]. rewrite Em. reflexivity.
  - intros [= <- <-]. repeat split; try reflexivity.
    + cbn [p_name with_name]. apply utf8_valid_lowercase_any; assumption.
    + intros q. cbn [p_name with_name with_quals p_ns p_ver p_quals p_sub]. rewrite lowercase_str_idem_any by assumption. reflexivity.
  - intros [= <- <-]. repeat split; try reflexivity.
    + cbn [p_name with_name]. apply utf8_valid_fix_pypi_any; assumption.
    + intros q. cbn [p_name with_name with_quals p_ns p_ver p_quals p_sub]. rewrite fix_pypi_idem_any by assumption. reflexivity.
Qed.
End CP0.
Section CP. Variable cfg : config.
Hypothesis R : rt_ok cfg.
Hypothesis Hsa : scan_ascii_ok cfg = true.
Hypothesis Hdl : dash_not_letter cfg = true.
Hypothesis Hfix : tbl_img_fixed cfg = true.
Hypothesis Hsc : tbl_img_scalar cfg = true.
Hypothesis Hnc : tbl_no_comma cfg = true.
Hypothesis Hck : valid_key cfg s_checksum = true.
Hypothesis Hhy : dash_has_hyphen cfg = true.
Hypothesis Hnd : tbl_no_dash cfg = true.
Let Hasc := rt_asc cfg R.
Let P := ptype_shape cfg.
Lemma pt_finish_type t0 p0 t1 p1 : sh_finish P t0 p0 = Ok (t1, p1) -> valid_type cfg (sh_type P t1) = true /\ sh_from_str P (sh_type P t1) = Ok t1.
Proof.
  intros _. cbn [sh_type sh_from_str P ptype_shape]. destruct (pt_roundtrip cfg t1) as [H1 H2]. rewrite H2. auto.
Qed.

(* C01 for the typed PURL *)
Theorem C01_P s t p : parse cfg P s = Ok (t, p) -> format_panics cfg P t = false /\ parse cfg P (format cfg P t p) = Ok (t, p).
Proof. apply (C01_gen cfg R Hsa Hfix Hsc Hnc Hck P); [apply pt_finish_stable; assumption|apply pt_finish_type]. Qed.
End CP.
Print Assumptions C01_P.
