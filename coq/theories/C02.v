From Coq Require Import List NArith ZArith Bool Lia.
From Coq.Strings Require Import Byte.
From PM Require Import Base Lemmas Text TextLemmas Model Skeleton Segs Quals Quals2 Canon DecQual C02q.
Import ListNotations.
Local Open Scope N_scope.

(* ---------------- C02: parsing recovers the components of any legal spelling ---------------- *)
Section C2. Variable cfg : config.
Hypothesis Hcfg : cfg_ok cfg.
Hypothesis Hasc : tbl_ascii_ok cfg = true.
Hypothesis Hksp : key_special_ascii cfg = true.
Hypothesis Hk_eq : mem c_eq (key_special cfg) = false.
Hypothesis Hk_amp : mem c_amp (key_special cfg) = false.
Context {T E : Type} (sh : shape T E).

(* a spelling: the raw, still-encoded pieces as they appear between the separators *)
Record spelling := { sp_lead : nat; sp_ty : bytes; sp_ns : list bytes; sp_name : bytes; sp_ver : option bytes;
                     sp_q : option (list (bytes * bytes)); sp_sub : option (list bytes) }.
Definition ns_raw (ps : list bytes) : option bytes := match ps with [] => None | _ :: _ => Some (join c_slash ps) end.
Definition raw_of (sp : spelling) : raw :=
  {| r_lead := sp_lead sp; r_ty := sp_ty sp;
     r_ns := ns_raw (sp_ns sp);
     r_name := sp_name sp; r_ver := sp_ver sp;
     r_q := option_map (fun its => join c_amp (map raw_item its)) (sp_q sp);
     r_sub := option_map (join c_slash) (sp_sub sp) |}.
Definition piece_ok (p : bytes) : Prop := utf8_valid (pdecode p) = true /\ ~ In c_slash (pdecode p).
Definition kept_sub (p : bytes) : bool := negb (sub_skip p).
Record spelling_ok (sp : spelling) : Prop := {
  so_wf : WFr cfg (raw_of sp);
  so_ns_raw : Forall (fun p => ~ In c_slash p) (sp_ns sp);
  so_ns : Forall piece_ok (filter nonempty (sp_ns sp));
  so_name : utf8_valid (pdecode (sp_name sp)) = true;
  so_ver : match sp_ver sp with Some v => utf8_valid (pdecode v) = true | None => True end;
  so_q : match sp_q sp with Some its => its <> [] /\ Forall (item_ok cfg) its /\ order_ok [] its /\ Forall (fun kv => ~ In c_amp (snd kv)) its | None => True end;
  so_sub_raw : match sp_sub sp with Some ps => Forall (fun p => ~ In c_slash p) ps | None => True end;
  so_sub : match sp_sub sp with Some ps => Forall (fun p => piece_ok p /\ is_dotseg (pdecode p) = false) (filter kept_sub ps) | None => True end;
}.
(* the components the spelling denotes *)
Definition opt_dec (o : option bytes) : bytes := match o with Some v => pdecode v | None => [] end.
Definition parts_of (sp : spelling) : parts :=
  {| p_ns := join c_slash (map pdecode (filter nonempty (sp_ns sp)));
     p_name := pdecode (sp_name sp); p_ver := opt_dec (sp_ver sp);
     p_quals := match sp_q sp with Some its => spec_quals its [] | None => [] end;
     p_sub := match sp_sub sp with Some ps => join c_slash (map pdecode (filter kept_sub ps)) | None => [] end |}.

Lemma pieces_of_join (f : bytes -> bool) ps : f [] = false -> Forall (fun p => ~ In c_slash p) ps ->
  filter f (split c_slash (join c_slash ps)) = filter f ps.
Proof. intros Hf H. destruct ps as [|p ps]; [cbn; rewrite Hf; reflexivity|]. rewrite split_join; [reflexivity|discriminate|exact H]. Qed.
Lemma decode_valid s : utf8_valid (pdecode s) = true -> decode s = Ok (pdecode s).
Proof. intros H. unfold decode. rewrite H. reflexivity. Qed.
Lemma raw_item_no_amp kv : valid_key cfg (fst kv) = true -> ~ In c_amp (snd kv) -> ~ In c_amp (raw_item kv).
Proof.
  intros Hk Hv Hin. unfold raw_item in Hin. apply in_app_or in Hin. destruct Hin as [Hin|[Hin|Hin]]; [|discriminate Hin|tauto].
  revert Hin. apply (key_no cfg c_amp _ Hk); [reflexivity|exact Hk_amp].
Qed.

Theorem C02 sp : spelling_ok sp ->
  parse cfg sh (asm (raw_of sp)) = (t <- sh_from_str sh (sp_ty sp) ;; build cfg sh t (parts_of sp)).
Proof.
  intros [W Hnr Hns Hnm Hvr Hq Hsr Hsb]. rewrite (parse_skeleton cfg sh _ Hcfg W). unfold checks, raw_of, parts_of. cbn [r_ty r_ns r_name r_ver r_q r_sub].
  (* subpath *)
  replace (oget (option_map (join c_slash) (sp_sub sp)) decode_subpath)
    with (@Ok parse_error _ (match sp_sub sp with Some ps => join c_slash (map pdecode (filter kept_sub ps)) | None => [] end)).
  2:{ destruct (sp_sub sp) as [ps|]; [|reflexivity]. cbn [option_map oget]. symmetry.
      assert (Hp : sub_pieces (join c_slash ps) = filter kept_sub ps) by (unfold sub_pieces; apply (pieces_of_join kept_sub); [reflexivity|exact Hsr]).
      rewrite decode_subpath_complete; rewrite Hp; [reflexivity|]. eapply Forall_impl; [|exact Hsb]. intros p [[H1 H2] H3]. auto. }
  cbn [lift bind].
  (* qualifiers *)
  replace (match option_map (fun its => join c_amp (map raw_item its)) (sp_q sp) with Some qs => decode_quals cfg (split c_amp qs) [] | None => Ok [] end)
    with (@Ok parse_error _ (match sp_q sp with Some its => spec_quals its [] | None => [] end)).
  2:{ destruct (sp_q sp) as [its|]; [|reflexivity]. cbn [option_map]. destruct Hq as (Hne & Hok & Hord & Hamp). symmetry.
      rewrite split_join.
      - apply (decode_quals_spelling cfg Hasc Hksp Hk_eq its [] []); try assumption; [apply QInv_nil|cbn; tauto].
      - destruct its; [congruence|discriminate].
      - apply Forall_forall. intros x Hx. apply in_map_iff in Hx. destruct Hx as (kv & <- & Hkv). rewrite Forall_forall in Hok, Hamp.
        apply raw_item_no_amp; [apply (Hok kv Hkv)|apply (Hamp kv Hkv)]. }
  cbn [lift bind]. destruct (sh_from_str sh (sp_ty sp)) as [t|e]; [|reflexivity]. cbn [bind].
  (* version *)
  replace (oget (sp_ver sp) decode) with (@Ok parse_error _ (opt_dec (sp_ver sp))) by (destruct (sp_ver sp); [cbn; symmetry; apply decode_valid; exact Hvr|reflexivity]).
  cbn [lift bind].
  (* namespace *)
  replace (oget (ns_raw (sp_ns sp)) decode_namespace)
    with (@Ok parse_error _ (join c_slash (map pdecode (filter nonempty (sp_ns sp))))).
  2:{ unfold ns_raw. destruct (sp_ns sp) as [|p ps] eqn:En; [reflexivity|]. rewrite <- En in *. cbn [oget]. symmetry.
      assert (Hp : ns_pieces (join c_slash (sp_ns sp)) = filter nonempty (sp_ns sp)) by (unfold ns_pieces; apply (pieces_of_join nonempty); [reflexivity|exact Hnr]).
      rewrite decode_namespace_complete; rewrite Hp; [reflexivity|exact Hns]. }
  cbn [lift bind]. rewrite (decode_valid _ Hnm). cbn [lift bind]. reflexivity.
Qed.
(* two spellings of the same components are the same PURL *)
Corollary C02_same sp1 sp2 : spelling_ok sp1 -> spelling_ok sp2 -> sp_ty sp1 = sp_ty sp2 -> parts_of sp1 = parts_of sp2 ->
  parse cfg sh (asm (raw_of sp1)) = parse cfg sh (asm (raw_of sp2)).
Proof. intros H1 H2 Ht Hp. rewrite (C02 sp1 H1), (C02 sp2 H2), Ht, Hp. reflexivity. Qed.
End C2.
Print Assumptions C02.
