From Coq Require Import List NArith ZArith Bool Lia.
From Coq.Strings Require Import Byte.
From PM Require Import Base Lemmas Text TextLemmas Model Quals Lower Lower2 Pypi.
Import ListNotations.
Local Open Scope N_scope.

Section PY2. Variable cfg : config.
Hypothesis Hasc : tbl_ascii_ok cfg = true.
Hypothesis Hscan : scan_lower_ne cfg = true.
Hypothesis Hfix : tbl_img_fixed cfg = true.
Hypothesis Hsc : tbl_img_scalar cfg = true.
Hypothesis Hhy : dash_has_hyphen cfg = true.
Hypothesis Hnd : tbl_no_dash cfg = true.

Definition plain (d : N) : Prop := is_dash cfg d = false /\ lower_c cfg d = [d].
Fixpoint normal (l : list N) : Prop :=
  match l with [] => True | c :: t => ((c = 45 /\ starts_45 t = false) \/ plain c) /\ normal t end.
Lemma normal_app_plain l acc : Forall plain l -> normal acc -> normal (l ++ acc).
Proof. induction 1 as [|d l Hd Hl IH]; intros Ha; cbn; [exact Ha|]. split; [right; exact Hd|apply IH; exact Ha]. Qed.
Lemma lower_plain c : is_dash cfg c = false -> Forall plain (lower_c cfg c).
Proof.
  intros Hc. destruct (lower_nondash cfg Hnd c Hc) as [_ Hall]. apply Forall_forall. intros d Hd. split.
  - rewrite Forall_forall in Hall. apply Hall. exact Hd.
  - eapply lower_c_img_fixed; eassumption.
Qed.
Lemma spec_normal cs : normal (spec_pypi_chars cfg cs).
Proof.
  induction cs as [|c t IH]; [exact I|]. rewrite spec_cons. unfold step. destruct (is_dash cfg c) eqn:Ec.
  - destruct (spec_pypi_chars cfg t) as [|d r] eqn:Es; [cbn; auto|]. destruct (d =? 45) eqn:Ed; [exact IH|].
    cbn [normal]. split; [left; split; [reflexivity|cbn; exact Ed]|exact IH].
  - apply normal_app_plain; [apply lower_plain; exact Ec|exact IH].
Qed.
Lemma spec_normal_id l : normal l -> spec_pypi_chars cfg l = l.
Proof.
  induction l as [|c t IH]; [reflexivity|]. cbn [normal]. intros [Hc Ht]. rewrite spec_cons, (IH Ht). unfold step. destruct Hc as [[-> Hs]|[Hd Hl]].
  - rewrite (is_dash_45 cfg Hhy). destruct t as [|d r]; [reflexivity|]. cbn in Hs. rewrite Hs. reflexivity.
  - rewrite Hd, Hl. reflexivity.
Qed.
Theorem spec_pypi_chars_idem cs : spec_pypi_chars cfg (spec_pypi_chars cfg cs) = spec_pypi_chars cfg cs.
Proof. apply spec_normal_id. apply spec_normal. Qed.

Lemma normal_scalar l : normal l -> Forall (fun c => is_scalar c = true) l -> True. Proof. auto. Qed.
Lemma spec_scalar cs : Forall (fun c => is_scalar c = true) cs -> Forall (fun c => is_scalar c = true) (spec_pypi_chars cfg cs).
Proof.
  induction 1 as [|c t Hc Ht IH]; [constructor|]. rewrite spec_cons. unfold step. destruct (is_dash cfg c).
  - destruct (spec_pypi_chars cfg t) as [|d r]; [repeat constructor|]. destruct (d =? 45); [exact IH|constructor; [reflexivity|exact IH]].
  - apply Forall_app. split; [|exact IH]. apply Forall_forall. intros d Hd. eapply lower_c_scalar; eassumption.
Qed.
Lemma chars_scalar n : utf8_valid n = true -> Forall (fun c => is_scalar c = true) (chars n).
Proof. unfold utf8_valid, chars. destruct (utf8_dec n) as [cs|] eqn:E; [|discriminate]. intros _. exact (utf8_dec_scalar (length n) n cs (le_n _) E). Qed.
Lemma chars_spec_pypi n : utf8_valid n = true -> chars (spec_pypi cfg n) = spec_pypi_chars cfg (chars n).
Proof. intros Hv. unfold spec_pypi, chars at 1. rewrite utf8_dec_enc; [reflexivity|]. apply spec_scalar. apply chars_scalar. exact Hv. Qed.
Lemma utf8_valid_spec_pypi n : utf8_valid n = true -> utf8_valid (spec_pypi cfg n) = true.
Proof. intros Hv. unfold utf8_valid, spec_pypi. rewrite utf8_dec_enc; [reflexivity|]. apply spec_scalar. apply chars_scalar. exact Hv. Qed.
Theorem fix_pypi_idem n : utf8_valid n = true -> fix_pypi_name cfg (fix_pypi_name cfg n) = fix_pypi_name cfg n.
Proof.
  intros Hv. rewrite (C08_pypi cfg Hasc Hscan Hhy Hnd n Hv). rewrite C08_pypi by (try assumption; apply utf8_valid_spec_pypi; exact Hv).
  unfold spec_pypi at 1. rewrite chars_spec_pypi by exact Hv. rewrite spec_pypi_chars_idem. reflexivity.
Qed.
End PY2.
Print Assumptions fix_pypi_idem.
