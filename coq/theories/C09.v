From Coq Require Import List NArith ZArith Bool Lia.
From Coq.Strings Require Import Byte.
From PM Require Import Base Lemmas Text TextLemmas Model Skeleton Segs Quals Canon Canon2 DecQual Roundtrip ParseInv Lower Lower2 Lower3 Cs2 Pypi Pypi2 BuildG BuildGen C01P.
Import ListNotations.
Local Open Scope N_scope.

Section C9. Variable cfg : config.
Hypothesis R : rt_ok cfg.
Hypothesis Hsa : scan_ascii_ok cfg = true.
Hypothesis Hfix : tbl_img_fixed cfg = true.
Hypothesis Hsc : tbl_img_scalar cfg = true.
Hypothesis Hnc : tbl_no_comma cfg = true.
Hypothesis Hck : valid_key cfg s_checksum = true.
Context {T E : Type} (sh : shape T E).

Definition map_res (r : result E (T * parts)) : result E (T * parts) :=
  match r with Ok (t, p) => Ok (t, norm_parts p) | Err e => Err e end.
(* the hook does not care whether namespace and subpath are written with or without insignificant segments *)
Definition finish_norm_commute : Prop := forall t p, sh_finish sh t (norm_parts p) = map_res (sh_finish sh t p).

Lemma norm_quals p q : norm_parts (with_quals p q) = with_quals (norm_parts p) q. Proof. reflexivity. Qed.
Theorem build_norm t p : finish_norm_commute -> build cfg sh t (norm_parts p) = map_res (build cfg sh t p).
Proof.
  intros FC. unfold build. rewrite FC. destruct (sh_finish sh t p) as [[t1 p1]|e]; [|reflexivity]. cbn [map_res].
  change (p_name (norm_parts p1)) with (p_name p1). change (p_quals (norm_parts p1)) with (p_quals p1).
  destruct (is_empty (p_name p1)); [reflexivity|]. destruct (q_get cfg _ s_checksum) as [v|]; [|reflexivity].
  destruct (cs_try_from cfg v) as [m|]; [|reflexivity]. destruct (cs_to_text m) as [txt|]; [|reflexivity]. destruct (q_insert cfg _ s_checksum txt); reflexivity.
Qed.

(* C09: what the builder produced is what the parser reads back from its string form, up to insignificant segments *)
Theorem C09_reparse t0 p0 t p : finish_stable sh -> finish_norm_commute ->
  (forall t0 p0 t1 p1, sh_finish sh t0 p0 = Ok (t1, p1) -> valid_type cfg (sh_type sh t1) = true /\ sh_from_str sh (sh_type sh t1) = Ok t1) ->
  fields_valid cfg p0 -> build cfg sh t0 p0 = Ok (t, p) ->
  format_panics cfg sh t = false /\ parse cfg sh (format cfg sh t p) = Ok (t, norm_parts p).
Proof.
  intros FS FC FT FV H. destruct (build_stable cfg (rt_asc cfg R) (rt_ksp cfg R) Hsa Hfix Hsc Hnc Hck sh _ _ _ _ FS FV H) as (Hne & FV' & _ & _ & Hb).
  assert (Hty : valid_type cfg (sh_type sh t) = true /\ sh_from_str sh (sh_type sh t) = Ok t).
  { unfold build in H. destruct (sh_finish sh t0 p0) as [[t1 p1]|e] eqn:Ef; [|discriminate]. apply FT in Ef.
    destruct (is_empty (p_name p1)); [discriminate|]. destruct (q_get _ _ _); [|injection H as <- _; exact Ef].
    destruct (cs_try_from _ _); [|discriminate]. destruct (cs_to_text _); [|discriminate]. destruct (q_insert _ _ _ _); [|discriminate].
    injection H as <- _. exact Ef. }
  destruct Hty as [Hvt Hfs]. split; [unfold format_panics; rewrite Hvt; reflexivity|].
  rewrite (parse_format cfg sh _ p R Hvt FV'). rewrite Hfs. cbn [bind]. rewrite (build_norm _ _ FC), Hb. reflexivity.
Qed.
End C9.

(* the two built-in shapes commute with normalisation; for Maven this needs the repaired namespace test *)
Section C9I. Variable cfg : config.
Lemma G_norm_commute : finish_norm_commute (string_shape cfg).
Proof. intros t p. cbn [sh_finish string_shape]. unfold str_finish. destruct (valid_type cfg t); reflexivity. Qed.
Hypothesis Hmv : maven_ns_segments cfg = true.
Lemma forallb_empty_filter (l : list bytes) : forallb is_empty l = match filter nonempty l with [] => true | _ => false end.
Proof. induction l as [|x l IH]; [reflexivity|]. cbn. unfold nonempty at 1. destruct (is_empty x); cbn; [exact IH|reflexivity]. Qed.
Lemma ns_missing_norm ns : maven_ns_missing cfg (join c_slash (ns_pieces ns)) = maven_ns_missing cfg ns.
Proof.
  unfold maven_ns_missing. rewrite Hmv. rewrite !forallb_empty_filter. fold (ns_pieces ns). fold (ns_pieces (join c_slash (ns_pieces ns))).
  assert (Hp : Forall (fun d => d <> [] /\ ~ In c_slash d) (ns_pieces ns)).
  { unfold ns_pieces. apply Forall_forall. intros d Hd. apply filter_In in Hd. destruct Hd as [Hd Hn]. split.
    - unfold nonempty in Hn. apply negb_true_iff, is_empty_false in Hn. exact Hn.
    - pose proof (split_pieces c_slash ns) as Hall. rewrite Forall_forall in Hall. apply Hall. exact Hd. }
  rewrite (ns_pieces_join _ Hp). reflexivity.
Qed.
Lemma P_norm_commute : finish_norm_commute (ptype_shape cfg).
Proof.
  intros t p. cbn [sh_finish ptype_shape]. unfold pt_finish. destruct t; try reflexivity.
  change (p_ns (norm_parts p)) with (join c_slash (ns_pieces (p_ns p))). rewrite ns_missing_norm. destruct (maven_ns_missing cfg (p_ns p)); reflexivity.
Qed.
End C9I.
Print Assumptions C09_reparse. Print Assumptions P_norm_commute.
