From Coq Require Import List NArith ZArith Bool Lia Sorted.
From Coq.Strings Require Import Byte.
From PM Require Import Base Lemmas Text TextLemmas Model Quals Quals2 Quals3 Quals4.
Import ListNotations.
Local Open Scope N_scope.

(* ---------------- C11: the remaining public operations, as functions on the sorted list ---------------- *)
Section Q5. Variable cfg : config.
Hypothesis Hasc : tbl_ascii_ok cfg = true.
Hypothesis Hksp : key_special_ascii cfg = true.

(* Entry API: entry(k) classifies; or_insert / VacantEntry::insert place the pair at the search index *)
Inductive entry_kind := EOccupied (v : bytes) | EVacant | EInvalid.
Definition q_entry_kind (q : quals) (k : bytes) : entry_kind :=
  match check_key cfg k with Err _ => EInvalid | Ok m =>
    match search cfg q m with Found i => match nth_error q i with Some kv => EOccupied (snd kv) | None => EInvalid end | NotFound _ => EVacant end end.
Definition q_or_insert (q : quals) (k v : bytes) : result parse_error (quals * bytes) :=
  m <- check_key cfg k ;;
  match search cfg q m with
  | Found i => match nth_error q i with Some kv => Ok (q, snd kv) | None => Err EInvalidQualifier end
  | NotFound i => Ok (insert_at q i (into_key m, v), v)
  end.
Theorem entry_kind_spec q k : QInv cfg q ->
  q_entry_kind q k = if valid_key cfg k then match q_get cfg q k with Some v => EOccupied v | None => EVacant end else EInvalid.
Proof.
  intros HQ. unfold q_entry_kind, q_get. destruct (valid_key cfg k) eqn:Hv.
  - destruct (check_key cfg k) as [m|e] eqn:Ec; [|unfold check_key in Ec; rewrite Hv in Ec; destruct (forallb is_lower_ascii k); discriminate].
    destruct (into_key_lk cfg m k Ec) as (_ & Hms & _). unfold search. rewrite Hms.
    pose proof (search_from_spec cfg Hasc Hksp q HQ k 0%nat Hv) as S. destruct (search_from cfg q k 0) as [i|i]; [|reflexivity].
    destruct S as (pre & w & post & -> & ->). cbn [Nat.add]. rewrite nth_error_app_mid. reflexivity.
  - unfold check_key. rewrite Hv. reflexivity.
Qed.
Theorem or_insert_spec q k v : QInv cfg q -> valid_key cfg k = true ->
  match q_get cfg q k with
  | Some w => q_or_insert q k v = Ok (q, w)                                     (* occupied: nothing changes, the existing value is returned *)
  | None => exists q', q_or_insert q k v = Ok (q', v) /\ q_insert cfg q k v = Ok q'   (* vacant: same as insert *)
  end.
Proof.
  intros HQ Hk. unfold q_or_insert, q_get, q_insert.
  destruct (check_key cfg k) as [m|e] eqn:Ec; [|unfold check_key in Ec; rewrite Hk in Ec; destruct (forallb is_lower_ascii k); discriminate]. cbn [bind].
  destruct (into_key_lk cfg m k Ec) as (_ & Hms & _). unfold search. rewrite Hms.
  pose proof (search_from_spec cfg Hasc Hksp q HQ k 0%nat Hk) as S. destruct (search_from cfg q k 0) as [j|j].
  - destruct S as (pre & w & post & -> & ->). cbn [Nat.add]. rewrite nth_error_app_mid. reflexivity.
  - eexists. split; reflexivity.
Qed.

(* try_from_iter: fold of vacant-only inserts; fails on an invalid key or a key seen before in any case *)
Fixpoint q_try_from_iter (items : list (bytes * bytes)) (q : quals) : result parse_error quals :=
  match items with
  | [] => Ok q
  | (k, v) :: t =>
    m <- check_key cfg k ;;
    match search cfg q m with
    | Found _ => Err EInvalidQualifier
    | NotFound i => q_try_from_iter t (insert_at q i (into_key m, v))
    end
  end.
Theorem try_from_iter_inv items : forall q q', QInv cfg q -> q_try_from_iter items q = Ok q' -> QInv cfg q'.
Proof.
  induction items as [|[k v] t IH]; intros q q' HQ; cbn [q_try_from_iter]; [intros [= <-]; exact HQ|].
  destruct (check_key cfg k) as [m|e] eqn:Ec; [|discriminate]. cbn [bind]. destruct (into_key_lk cfg m k Ec) as (Hik & Hms & Hvk). unfold search. rewrite Hms.
  pose proof (search_from_spec cfg Hasc Hksp q HQ k 0%nat Hvk) as S. destruct (search_from cfg q k 0) as [j|j]; [discriminate|].
  destruct S as (pre & post & -> & -> & H1 & H2). cbn [Nat.add]. rewrite insert_at_app, Hik. apply IH.
  apply QInv_insert; try assumption. split; [apply valid_key_lk; exact Hvk|apply lk_idem].
Qed.
Theorem try_from_iter_dup k v1 v2 rest q : QInv cfg q -> valid_key cfg k = true -> q_get cfg q k = None ->
  forall k2, lk k2 = lk k -> valid_key cfg k2 = true -> q_try_from_iter ((k, v1) :: (k2, v2) :: rest) q = Err EInvalidQualifier.
Proof.
  intros HQ Hk Hg k2 Hl Hk2. cbn [q_try_from_iter].
  destruct (check_key cfg k) as [m|e] eqn:Ec; [|unfold check_key in Ec; rewrite Hk in Ec; destruct (forallb is_lower_ascii k); discriminate]. cbn [bind].
  destruct (into_key_lk cfg m k Ec) as (Hik & Hms & _). unfold search. rewrite Hms.
  pose proof (search_from_spec cfg Hasc Hksp q HQ k 0%nat Hk) as S. destruct (search_from cfg q k 0) as [j|j].
  - exfalso. destruct S as (pre & w & post & -> & _). apply (q_get_none_iff cfg Hasc Hksp _ k HQ Hk) in Hg. apply Hg. rewrite map_app. apply in_or_app. right. left. reflexivity.
  - destruct S as (pre & post & -> & -> & H1 & H2). cbn [Nat.add]. rewrite insert_at_app, Hik.
    assert (HQ' : QInv cfg (pre ++ (lk k, v1) :: post)) by (apply QInv_insert; try assumption; split; [apply valid_key_lk; exact Hk|apply lk_idem]).
    destruct (check_key cfg k2) as [m2|e] eqn:Ec2; [|unfold check_key in Ec2; rewrite Hk2 in Ec2; destruct (forallb is_lower_ascii k2); discriminate]. cbn [bind].
    destruct (into_key_lk cfg m2 k2 Ec2) as (_ & Hms2 & _). unfold search. rewrite Hms2.
    pose proof (search_from_spec cfg Hasc Hksp _ HQ' k2 0%nat Hk2) as S'. destruct (search_from cfg (pre ++ (lk k, v1) :: post) k2 0) as [j'|j']; [reflexivity|].
    exfalso. destruct S' as (pre' & post' & E & _ & H1' & H2'). rewrite Hl in *.
    assert (Hin : In (lk k, v1) (pre' ++ post')) by (rewrite <- E; apply in_or_app; right; left; reflexivity).
    apply in_app_or in Hin. rewrite Forall_forall in H1', H2'. destruct Hin as [Hin|Hin]; [exact (klt_irrefl _ (H1' _ Hin))|exact (klt_irrefl _ (H2' _ Hin))].
Qed.

(* every reachable collection satisfies the invariant *)
Inductive qop := OpInsert (k v : bytes) | OpRemove (k : bytes) | OpOrInsert (k v : bytes) | OpClear | OpRetain (f : bytes -> bytes -> bool) | OpMapValues (g : bytes -> bytes -> bytes).
Definition qstep (q : quals) (o : qop) : quals :=
  match o with
  | OpInsert k v => match q_insert cfg q k v with Ok q' => q' | Err _ => q end
  | OpRemove k => fst (q_remove cfg q k)
  | OpOrInsert k v => match q_or_insert q k v with Ok (q', _) => q' | Err _ => q end
  | OpClear => []
  | OpRetain f => q_retain f q
  | OpMapValues g => map (fun kv => (fst kv, g (fst kv) (snd kv))) q      (* iter_mut / retain_mut / and_modify: values only *)
  end.
Lemma QInv_map_values g q : QInv cfg q -> QInv cfg (map (fun kv => (fst kv, g (fst kv) (snd kv))) q).
Proof. unfold QInv. rewrite map_map. cbn [fst]. replace (map (fun x : bytes * bytes => fst x) q) with (map fst q) by reflexivity. tauto. Qed.
Theorem C11_reachable ops : forall q, QInv cfg q -> QInv cfg (fold_left qstep ops q).
Proof.
  induction ops as [|o ops IH]; intros q HQ; cbn [fold_left]; [exact HQ|]. apply IH. destruct o; cbn [qstep].
  - destruct (q_insert cfg q k v) eqn:E; [eapply q_insert_inv; eassumption|exact HQ].
  - destruct (valid_key cfg k) eqn:Hv; [apply (q_remove_spec cfg Hasc Hksp _ k HQ Hv)|rewrite (q_remove_invalid cfg _ _ Hv); exact HQ].
  - destruct (valid_key cfg k) eqn:Hv.
    + pose proof (or_insert_spec q k v HQ Hv) as S. destruct (q_get cfg q k).
      * rewrite S. exact HQ.
      * destruct S as (q' & -> & Hi). eapply q_insert_inv; eassumption.
    + unfold q_or_insert, check_key. rewrite Hv. exact HQ.
  - apply QInv_nil.
  - apply QInv_filter. exact HQ.
  - apply QInv_map_values. exact HQ.
Qed.
End Q5.
Print Assumptions C11_reachable. Print Assumptions try_from_iter_dup.
