(* Theorems that connect the interpreters executed by the correspondence check (Exec.v) with the property theorems,
   and completions: remaining error-order corollaries (C05), success conditions of build (C09), the executed
   comparison functions are total orders with Eq iff equal (C19), every operation of the executed Qualifiers
   language keeps the collection invariant (C11). *)
From Coq Require Import List NArith ZArith Bool Lia Sorted.
From Coq.Strings Require Import Byte.
From PM Require Import Base Lemmas Text TextLemmas Model Skeleton Segs Quals Quals2 Quals3 Quals4 Quals5 DecQual Order Builder C14 C06 Exec.
Import ListNotations.
Local Open Scope N_scope.

(* ---------------- C19: the comparison functions that are executed ---------------- *)
Lemma lex_eq x y : lex x y = Eq <-> x = Eq /\ y = Eq.
Proof. destruct x; cbn; intuition congruence. Qed.
Lemma cmp_parts_total : total_cmp cmp_parts.
Proof.
  pose proof bcmp_total as [Eb Ab Tb].
  assert (Hq : total_cmp cmp_quals) by (apply cmp_list_total; apply cmp_pair_total; apply bcmp_total).
  destruct Hq as [Eq_ Aq Tq].
  (* view cmp_parts as cmp_pair-nesting over the tuple of fields *)
  set (tup := fun p : parts => (p_ns p, (p_name p, (p_ver p, (p_quals p, p_sub p))))).
  set (ct := cmp_pair bcmp (cmp_pair bcmp (cmp_pair bcmp (cmp_pair cmp_quals bcmp)))).
  assert (Hct : total_cmp ct) by (repeat apply cmp_pair_total; try apply bcmp_total; apply cmp_list_total; apply cmp_pair_total; apply bcmp_total).
  assert (Hsame : forall p q, cmp_parts p q = ct (tup p) (tup q)) by (intros; reflexivity).
  assert (Hinj : forall p q, tup p = tup q -> p = q) by (intros [a b c d e] [a' b' c' d' e']; unfold tup; cbn; intros [= -> -> -> -> ->]; reflexivity).
  destruct Hct as [E A T]. constructor.
  - intros p q. rewrite Hsame, E. split; [apply Hinj|intros ->; reflexivity].
  - intros p q. rewrite !Hsame. apply A.
  - intros p q r. rewrite !Hsame. apply T.
Qed.
Theorem cmp_g_total : total_cmp cmp_g.
Proof.
  assert (H : total_cmp (cmp_pair bcmp cmp_parts)) by (apply cmp_pair_total; [apply bcmp_total|apply cmp_parts_total]). exact H.
Qed.
Lemma pt_index_inj a b : pt_index a = pt_index b -> a = b.
Proof. destruct a, b; cbn; intros H; try reflexivity; discriminate H. Qed.
Lemma N_compare_total : total_cmp N.compare.
Proof.
  constructor.
  - intros a b. apply N.compare_eq_iff.
  - intros a b. apply N.compare_antisym.
  - intros a b d. rewrite !N.compare_lt_iff. lia.
Qed.
Theorem cmp_t_total : total_cmp cmp_t.
Proof.
  pose proof (cmp_pair_total N.compare cmp_parts N_compare_total cmp_parts_total) as [E A T].
  set (f := fun x : ptype * parts => (pt_index (fst x), snd x)).
  assert (Hs : forall x y, cmp_t x y = cmp_pair N.compare cmp_parts (f x) (f y)) by (intros; reflexivity).
  assert (Hi : forall x y, f x = f y -> x = y) by (intros [a p] [b q]; unfold f; cbn; intros [= H ->]; apply pt_index_inj in H; subst; reflexivity).
  constructor.
  - intros x y. rewrite Hs, E. split; [apply Hi|intros ->; reflexivity].
  - intros x y. rewrite !Hs. apply A.
  - intros x y z. rewrite !Hs. apply T.
Qed.
(* the executed generic comparison is the derived ordering of Order.v *)
Lemma cmp_g_is_cmp_purl x y : cmp_g x y = cmp_purl x y.
Proof. reflexivity. Qed.

Section FIN. Variable cfg : config.
Hypothesis Hasc : tbl_ascii_ok cfg = true.
Hypothesis Hksp : key_special_ascii cfg = true.

(* ---------------- C11: the executed operation language keeps the invariant ---------------- *)
Lemma check_key_ok k m : check_key cfg k = Ok m -> valid_key cfg k = true /\ mixed_str m = k.
Proof. unfold check_key. destruct (valid_key cfg k); [|discriminate]. destruct (forallb is_lower_ascii k); intros [= <-]; auto. Qed.
Lemma insert_branch q k v m i : check_key cfg k = Ok m -> search cfg q m = NotFound i -> q_insert cfg q k v = Ok (insert_at q i (into_key m, v)).
Proof. intros E S. unfold q_insert. rewrite E. cbn [bind]. rewrite S. reflexivity. Qed.
Lemma set_branch q k v m i : check_key cfg k = Ok m -> search cfg q m = Found i -> q_insert cfg q k v = Ok (set_nth q i v).
Proof. intros E S. unfold q_insert. rewrite E. cbn [bind]. rewrite S. reflexivity. Qed.
Lemma remove_branch q k m i : check_key cfg k = Ok m -> search cfg q m = Found i -> fst (q_remove cfg q k) = remove_at q i.
Proof. intros E S. unfold q_remove. rewrite E, S. reflexivity. Qed.
Lemma q_remove_inv q k : QInv cfg q -> QInv cfg (fst (q_remove cfg q k)).
Proof.
  intros HQ. destruct (valid_key cfg k) eqn:Hv.
  - exact (proj1 (q_remove_spec cfg Hasc Hksp q k HQ Hv)).
  - rewrite (q_remove_invalid cfg q k Hv). exact HQ.
Qed.
Lemma q_set_inv q k v : QInv cfg q -> QInv cfg (q_set cfg q k v).
Proof. intros HQ. unfold q_set. destruct (q_insert cfg q k v) eqn:E; [eapply q_insert_inv; eassumption|exact HQ]. Qed.
Lemma map_vals_inv g q : QInv cfg q -> QInv cfg (map_vals g q).
Proof. unfold QInv, map_vals. rewrite map_map. cbn [fst]. replace (map (fun x : bytes * bytes => fst x) q) with (map fst q) by reflexivity. tauto. Qed.
Ltac entry_case HQ :=
  match goal with
  | |- context [check_key cfg ?k] => destruct (check_key cfg k) as [m|e] eqn:Ec; [|exact HQ];
      destruct (search cfg _ m) as [i|i] eqn:Es
  end.
Theorem qxstep_inv q o : QInv cfg q -> QInv cfg (fst (qxstep cfg q o)).
Proof.
  intros HQ. destruct o; cbn [qxstep].
  - destruct (q_insert cfg q k v) eqn:E; cbn [fst]; [eapply q_insert_inv; eassumption|exact HQ].
  - destruct (q_remove cfg q k) as [q' r] eqn:E. cbn [fst]. replace q' with (fst (q_remove cfg q k)) by (rewrite E; reflexivity). apply q_remove_inv. exact HQ.
  - exact HQ.
  - destruct (q_get cfg q k); cbn [fst]; [apply q_set_inv; exact HQ|exact HQ].
  - exact HQ.
  - exact HQ.
  - destruct (q_get cfg q k); cbn [fst]; [apply q_set_inv; exact HQ|exact HQ].
  - cbn [fst]. apply QInv_nil.
  - cbn [fst]. apply QInv_filter. exact HQ.
  - cbn [fst]. apply QInv_filter. exact HQ.
  - cbn [fst]. apply QInv_filter. apply map_vals_inv. exact HQ.
  - cbn [fst]. apply map_vals_inv. exact HQ.
  - entry_case HQ; cbn [fst]; [exact HQ|]. eapply q_insert_inv; [exact Hasc|exact Hksp|exact HQ|]. apply (insert_branch q k v m i Ec Es).
  - entry_case HQ; cbn [fst]; [exact HQ|]. eapply q_insert_inv; [exact Hasc|exact Hksp|exact HQ|]. apply (insert_branch q k v m i Ec Es).
  - entry_case HQ.
    + destruct (nth_error q i) as [kv|]; cbn [fst]; [|exact HQ]. eapply q_insert_inv; [exact Hasc|exact Hksp|exact HQ|]. apply (set_branch q k _ m i Ec Es).
    + cbn [fst]. eapply q_insert_inv; [exact Hasc|exact Hksp|exact HQ|]. apply (insert_branch q k v m i Ec Es).
  - entry_case HQ.
    + destruct (nth_error q i) as [kv|]; cbn [fst]; [|exact HQ]. eapply q_insert_inv; [exact Hasc|exact Hksp|exact HQ|]. apply (set_branch q k v m i Ec Es).
    + cbn [fst]. eapply q_insert_inv; [exact Hasc|exact Hksp|exact HQ|]. apply (insert_branch q k v m i Ec Es).
  - entry_case HQ; [|exact HQ]. destruct (nth_error q i) as [kv|]; cbn [fst]; [|exact HQ]. rewrite <- (remove_branch q k m i Ec Es). apply q_remove_inv. exact HQ.
  - entry_case HQ; [|exact HQ]. destruct (nth_error q i) as [kv|]; cbn [fst]; [|exact HQ]. rewrite <- (remove_branch q k m i Ec Es). apply q_remove_inv. exact HQ.
  - entry_case HQ; [|exact HQ]. destruct (nth_error q i) as [kv|]; cbn [fst]; [|exact HQ]. eapply q_insert_inv; [exact Hasc|exact Hksp|exact HQ|]. apply (set_branch q k _ m i Ec Es).
  - exact HQ.
  - destruct (q_insert cfg q s_repo u) eqn:E; cbn [fst]; [eapply q_insert_inv; eassumption|exact HQ].
  - exact HQ.
  - exact HQ.
  - cbn [fst]. apply q_remove_inv. exact HQ.
  - destruct (cs_cap_panics cfg (crun cfg ops)); [exact HQ|]. destruct (cs_to_text (crun cfg ops)) as [txt|]; [|exact HQ].
    destruct (q_insert cfg q s_checksum txt) eqn:E; cbn [fst]; [eapply q_insert_inv; eassumption|exact HQ].
  - exact HQ.
  - exact HQ.
  - destruct (q_insert cfg q _ v) eqn:E; cbn [fst]; [eapply q_insert_inv; eassumption|exact HQ].
  - exact HQ.
  - cbn [fst]. apply q_remove_inv. exact HQ.
  - destruct (q_insert cfg q k v) eqn:E; cbn [fst]; [eapply q_insert_inv; eassumption|exact HQ].
  - cbn [fst]. apply q_remove_inv. exact HQ.
  - entry_case HQ.
    + destruct (nth_error q i) as [kv|]; cbn [fst]; [|exact HQ]. eapply q_insert_inv; [exact Hasc|exact Hksp|exact HQ|]. apply (set_branch q k _ m i Ec Es).
    + cbn [fst]. eapply q_insert_inv; [exact Hasc|exact Hksp|exact HQ|]. apply (insert_branch q k v m i Ec Es).
Qed.
Theorem qxrun_inv ops : forall q, QInv cfg q -> QInv cfg (fst (qxrun cfg q ops)).
Proof.
  induction ops as [|o ops IH]; intros q HQ; cbn [qxrun]; [exact HQ|].
  destruct (qxstep cfg q o) as [q1 out] eqn:E1. specialize (IH q1). destruct (qxrun cfg q1 ops) as [q2 outs]. cbn [fst] in *.
  apply IH. replace q1 with (fst (qxstep cfg q o)) by (rewrite E1; reflexivity). apply qxstep_inv. exact HQ.
Qed.
(* the outputs of the lookup operations are the reference map's *)
Theorem qxstep_get q k : snd (qxstep cfg q (QGet k)) = XoOpt (q_get cfg q k). Proof. reflexivity. Qed.
Theorem qxstep_entry_or_insert q k v : QInv cfg q -> valid_key cfg k = true ->
  qxstep cfg q (QEOrIns k v) = match q_get cfg q k with
                               | Some w => (q, XoOpt (Some w))
                               | None => (q_set cfg q k v, XoOpt (Some v)) end.
Proof.
  intros HQ Hv. pose proof (or_insert_spec cfg Hasc Hksp q k v HQ Hv) as S. cbn [qxstep]. unfold q_or_insert in S.
  destruct (check_key cfg k) as [m|e] eqn:Ec; [|unfold check_key in Ec; rewrite Hv in Ec; destruct (forallb is_lower_ascii k); discriminate].
  cbn [bind] in S. destruct (search cfg q m) as [i|i] eqn:Es.
  - destruct (q_get cfg q k) as [w|] eqn:Eg.
    + destruct (nth_error q i) as [kv|]; [injection S as S; rewrite S; reflexivity|discriminate S].
    + exfalso. unfold q_get in Eg. rewrite Ec, Es in Eg. destruct S as (q' & S & _). destruct (nth_error q i); [discriminate Eg|discriminate S].
  - destruct (q_get cfg q k) as [w|] eqn:Eg.
    + exfalso. unfold q_get in Eg. rewrite Ec, Es in Eg. discriminate Eg.
    + unfold q_set. rewrite (insert_branch q k v m i Ec Es). reflexivity.
Qed.
End FIN.

(* ---------------- C09: the executed builder steps are those of Builder.v ---------------- *)
Section BLD. Variable cfg : config. Context {T : Type}.
Definition embed (o : @bop T) : @xbop T :=
  match o with
  | OType t => XType t | ONs s => XNs s | OName s => XName s | OVer s => XVer s | OSub s => XSub s
  | OQual k v => XQual k v | OUnqual k => XUnqual k | OClearQuals => XClearQ end.
Theorem xstep_is_bstep (b : @bstate T) o :
  match bstep cfg b o, xstep cfg (b_type b, b_parts b) (embed o) with
  | Ok b', Ok (t, p) => b_type b' = t /\ b_parts b' = p
  | Err _, Err StopQE => True
  | _, _ => False end.
Proof.
  destruct b as [t p]. destruct o; cbn [bstep xstep embed b_type b_parts set_parts]; try (split; reflexivity).
  destruct (q_insert cfg (p_quals p) k v); [split; reflexivity|exact I].
Qed.
(* with_X("") and without_X() are the same call *)
Theorem xstep_without (tp : T * parts) :
  xstep cfg tp XNoNs = xstep cfg tp (XNs []) /\ xstep cfg tp XNoVer = xstep cfg tp (XVer []) /\ xstep cfg tp XNoSub = xstep cfg tp (XSub []).
Proof. destruct tp as [t p]. repeat split; reflexivity. Qed.
End BLD.

(* ---------------- C05: the remaining "when that defect is the only one" corollaries ---------------- *)
Section C5. Variable cfg : config. Context {T E : Type} (sh : shape T E).
Hypothesis Hcfg : cfg_ok cfg.
Theorem C05_only_quals r e : WFr cfg r -> (exists d, oget (r_sub r) decode_subpath = Ok d) ->
  (match r_q r with Some qs => decode_quals cfg (split c_amp qs) [] | None => Ok [] end) = Err e -> parse cfg sh (asm r) = Err (sh_inj sh e).
Proof. intros W [d Hd] Hq. rewrite (parse_skeleton cfg sh r Hcfg W). unfold checks. rewrite Hd. cbn [lift bind]. rewrite Hq. reflexivity. Qed.
Theorem C05_only_namespace r e : WFr cfg r -> (exists d, oget (r_sub r) decode_subpath = Ok d) ->
  (exists d, (match r_q r with Some qs => decode_quals cfg (split c_amp qs) [] | None => Ok [] end) = Ok d) ->
  (exists t, sh_from_str sh (r_ty r) = Ok t) -> (exists d, oget (r_ver r) decode = Ok d) ->
  oget (r_ns r) decode_namespace = Err e -> parse cfg sh (asm r) = Err (sh_inj sh e).
Proof.
  intros W [d1 H1] [d2 H2] [t Ht] [d3 H3] Hn. rewrite (parse_skeleton cfg sh r Hcfg W). unfold checks.
  rewrite H1. cbn [lift bind]. rewrite H2. cbn [lift bind]. rewrite Ht. cbn [bind]. rewrite H3. cbn [lift bind]. rewrite Hn. reflexivity.
Qed.
Theorem C05_only_name r e : WFr cfg r -> (exists d, oget (r_sub r) decode_subpath = Ok d) ->
  (exists d, (match r_q r with Some qs => decode_quals cfg (split c_amp qs) [] | None => Ok [] end) = Ok d) ->
  (exists t, sh_from_str sh (r_ty r) = Ok t) -> (exists d, oget (r_ver r) decode = Ok d) -> (exists d, oget (r_ns r) decode_namespace = Ok d) ->
  decode (r_name r) = Err e -> parse cfg sh (asm r) = Err (sh_inj sh e).
Proof.
  intros W [d1 H1] [d2 H2] [t Ht] [d3 H3] [d4 H4] Hn. rewrite (parse_skeleton cfg sh r Hcfg W). unfold checks.
  rewrite H1. cbn [lift bind]. rewrite H2. cbn [lift bind]. rewrite Ht. cbn [bind]. rewrite H3. cbn [lift bind]. rewrite H4. cbn [lift bind]. rewrite Hn. reflexivity.
Qed.
(* everything before build() fine: the outcome is build's (name empty -> Missing(name); checksum faults -> InvalidQualifier) *)
Theorem C05_only_build r sub q t ver ns name : WFr cfg r -> oget (r_sub r) decode_subpath = Ok sub ->
  (match r_q r with Some qs => decode_quals cfg (split c_amp qs) [] | None => Ok [] end) = Ok q ->
  sh_from_str sh (r_ty r) = Ok t -> oget (r_ver r) decode = Ok ver -> oget (r_ns r) decode_namespace = Ok ns -> decode (r_name r) = Ok name ->
  parse cfg sh (asm r) = build cfg sh t {| p_ns := ns; p_name := name; p_ver := ver; p_quals := q; p_sub := sub |}.
Proof.
  intros W H1 H2 Ht H3 H4 H5. rewrite (parse_skeleton cfg sh r Hcfg W). unfold checks.
  rewrite H1. cbn [lift bind]. rewrite H2. cbn [lift bind]. rewrite Ht. cbn [bind]. rewrite H3. cbn [lift bind]. rewrite H4. cbn [lift bind]. rewrite H5. reflexivity.
Qed.
End C5.

(* ---------------- C09 / C05: exactly when build() succeeds ---------------- *)
Section BS. Variable cfg : config. Context {T E : Type} (sh : shape T E).
Hypothesis Hck : valid_key cfg s_checksum = true.
Definition cs_well_formed (q : quals) : Prop :=
  match q_get cfg (q_retain (fun _ v => negb (is_empty v)) q) s_checksum with
  | None => True
  | Some v => exists m txt, cs_try_from cfg v = Ok m /\ cs_to_text m = Ok txt end.
Theorem build_succeeds_iff t p : (exists x, build cfg sh t p = Ok x) <->
  exists t1 p1, sh_finish sh t p = Ok (t1, p1) /\ p_name p1 <> [] /\ cs_well_formed (p_quals p1).
Proof.
  unfold build, cs_well_formed. split.
  - intros [x H]. destruct (sh_finish sh t p) as [[t1 p1]|e]; [|discriminate]. exists t1, p1. split; [reflexivity|].
    destruct (is_empty (p_name p1)) eqn:En; [discriminate|]. split; [apply is_empty_false; exact En|].
    destruct (q_get cfg _ s_checksum) as [v|]; [|exact I]. destruct (cs_try_from cfg v) as [m|] eqn:E1; [|discriminate]. destruct (cs_to_text m) as [txt|] eqn:E2; [|discriminate].
    exists m, txt. split; [reflexivity|exact E2].
  - intros (t1 & p1 & Ef & Hn & Hc). rewrite Ef. destruct (is_empty (p_name p1)) eqn:En; [destruct (p_name p1); [contradiction Hn; reflexivity|discriminate]|].
    destruct (q_get cfg _ s_checksum) as [v|]; [|eexists; reflexivity]. destruct Hc as (m & txt & -> & ->).
    unfold q_insert, check_key. rewrite Hck. cbn [bind]. destruct (search cfg _ _); eexists; reflexivity.
Qed.
End BS.

(* ---------------- C06: the executed languages panic only where documented ---------------- *)
Section NOPANIC. Variable cfg : config.
Hypothesis Hasc : tbl_ascii_ok cfg = true.
Hypothesis Hksp : key_special_ascii cfg = true.
Hypothesis Hcap : cap_saturating cfg = true.
Hypothesis Hck : valid_key cfg s_checksum = true.
Hypothesis Hrp : valid_key cfg s_repo = true.
Hypothesis Htk : forallb (valid_key cfg) (typed_keys cfg) = true.

Lemma found_nth q k m i : QInv cfg q -> check_key cfg k = Ok m -> search cfg q m = Found i -> exists kv, nth_error q i = Some kv.
Proof.
  intros HQ Ec Es. destruct (check_key_ok cfg k m Ec) as [Hv Hm]. unfold search in Es. rewrite Hm in Es.
  pose proof (search_found_in_bounds cfg Hasc Hksp q k i HQ Hv Es) as Hlt.
  destruct (nth_error q i) eqn:E; [eexists; reflexivity|]. apply nth_error_None in E. lia.
Qed.
Lemma cap_ok m : cs_cap_panics cfg m = false.
Proof. unfold cs_cap_panics. rewrite Hcap. reflexivity. Qed.
Lemma insert_valid_ok q k v : valid_key cfg k = true -> exists q', q_insert cfg q k v = Ok q'.
Proof. intros Hv. unfold q_insert, check_key. rewrite Hv. cbn [bind]. destruct (search cfg q _); eexists; reflexivity. Qed.
(* Qualifiers / Entry / typed accessors: a panic is possible only for Index / IndexMut of an absent (or invalid) key *)
Theorem qxstep_panics_only_when_documented q o : QInv cfg q -> snd (qxstep cfg q o) = XoPanic ->
  (exists k, (o = QIdx k \/ exists v, o = QIdxSet k v) /\ q_get cfg q k = None)
  \/ (exists i v, o = QTKIns i v /\ (length (typed_keys cfg) <= i)%nat)      (* an index that names no declared typed qualifier: not expressible through the API *)
  \/ (exists k v, o = QTUIns k v /\ valid_key cfg k = false).                 (* documented: insert_typed with a user-declared KEY that is not a valid key *)
Proof.
  intros HQ. destruct o; cbn [qxstep].
  - destruct (q_insert cfg q k v); discriminate.
  - destruct (q_remove cfg q k); discriminate.
  - discriminate.
  - destruct (q_get cfg q k); discriminate.
  - discriminate.
  - destruct (q_get cfg q k) eqn:E; [discriminate|]. intros _. left. exists k. split; [left; reflexivity|exact E].
  - destruct (q_get cfg q k) eqn:E; [discriminate|]. intros _. left. exists k. split; [right; eexists; reflexivity|exact E].
  - discriminate.
  - discriminate.
  - discriminate.
  - discriminate.
  - discriminate.
  - destruct (check_key cfg k) as [m|] eqn:Ec; [|discriminate]. destruct (search cfg q m) as [i|i] eqn:Es; [|discriminate].
    destruct (found_nth q k m i HQ Ec Es) as [kv ->]. discriminate.
  - destruct (check_key cfg k) as [m|] eqn:Ec; [|discriminate]. destruct (search cfg q m) as [i|i] eqn:Es; [|discriminate].
    destruct (found_nth q k m i HQ Ec Es) as [kv ->]. discriminate.
  - destruct (check_key cfg k) as [m|] eqn:Ec; [|discriminate]. destruct (search cfg q m) as [i|i] eqn:Es; [|discriminate].
    destruct (found_nth q k m i HQ Ec Es) as [kv ->]. discriminate.
  - destruct (check_key cfg k) as [m|] eqn:Ec; [|discriminate]. destruct (search cfg q m) as [i|i] eqn:Es; [|discriminate].
    destruct (found_nth q k m i HQ Ec Es) as [kv ->]. discriminate.
  - destruct (check_key cfg k) as [m|] eqn:Ec; [|discriminate]. destruct (search cfg q m) as [i|i] eqn:Es; [|discriminate].
    destruct (found_nth q k m i HQ Ec Es) as [kv ->]. discriminate.
  - destruct (check_key cfg k) as [m|] eqn:Ec; [|discriminate]. destruct (search cfg q m) as [i|i] eqn:Es; [|discriminate].
    destruct (found_nth q k m i HQ Ec Es) as [kv ->]. discriminate.
  - destruct (check_key cfg k) as [m|] eqn:Ec; [|discriminate]. destruct (search cfg q m) as [i|i] eqn:Es; [|discriminate].
    destruct (found_nth q k m i HQ Ec Es) as [kv ->]. discriminate.
  - discriminate.
  - destruct (insert_valid_ok q s_repo u Hrp) as [q' ->]. discriminate.
  - discriminate.
  - discriminate.
  - discriminate.
  - rewrite cap_ok. destruct (cs_to_text (crun cfg ops)) as [txt|]; [|discriminate]. destruct (insert_valid_ok q s_checksum txt Hck) as [q' ->]. discriminate.
  - destruct (q_get cfg q s_checksum) as [v|]; [|discriminate]. destruct (cs_try_from cfg v); discriminate.
  - discriminate.
  - (* insert_typed for a declared key: panics only if the key is invalid or not declared (index out of the list) *)
    destruct (Nat.ltb_spec i (length (typed_keys cfg))) as [Hlt|Hge].
    + assert (Hv : valid_key cfg (nth i (typed_keys cfg) []) = true) by (rewrite forallb_forall in Htk; apply Htk; apply nth_In; exact Hlt).
      destruct (insert_valid_ok q _ v Hv) as [q' ->]. discriminate.
    + intros _. right. left. exists i, v. split; [reflexivity|exact Hge].
  - discriminate.
  - discriminate.
  - destruct (valid_key cfg k) eqn:Hv.
    + destruct (insert_valid_ok q k v Hv) as [q' ->]. discriminate.
    + intros _. right. right. exists k, v. split; [reflexivity|exact Hv].
  - discriminate.
  - destruct (check_key cfg k) as [m|] eqn:Ec; [|discriminate]. destruct (search cfg q m) as [i|i] eqn:Es; [|discriminate].
    destruct (found_nth q k m i HQ Ec Es) as [kv ->]. discriminate.
Qed.
(* GenericPurlBuilder: no call panics, except the documented one: a typed qualifier whose declared KEY is not a valid key *)
Theorem xstep_never_panics {T} (b : T * parts) o : xstep cfg b o = Err StopPanic -> exists k v, o = XTyped k v /\ valid_key cfg k = false.
Proof.
  destruct b as [t p]. destruct o; cbn [xstep]; try discriminate.
  - destruct (q_insert cfg (p_quals p) k v); discriminate.
  - rewrite cap_ok. destruct (cs_to_text (crun cfg ops)) as [txt|]; [|discriminate]. destruct (insert_valid_ok (p_quals p) s_checksum txt Hck) as [q' ->]. discriminate.
  - destruct (insert_valid_ok (p_quals p) s_repo s Hrp) as [q' ->]. discriminate.
  - destruct (q_insert cfg (p_quals p) k v); discriminate.
  - destruct (valid_key cfg k) eqn:Hv.
    + destruct (insert_valid_ok (p_quals p) k v Hv) as [q' ->]. discriminate.
    + intros _. exists k, v. split; [reflexivity|exact Hv].
Qed.
Theorem cs_text_never_panics m : cs_text_of cfg m <> CsPanic.
Proof. unfold cs_text_of. rewrite cap_ok. destruct (cs_to_text m); discriminate. Qed.
End NOPANIC.
