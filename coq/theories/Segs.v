From Coq Require Import List NArith Bool Lia.
From Coq.Strings Require Import Byte.
From PM Require Import Base Lemmas Text TextLemmas Model.
Import ListNotations.

(* ---- rebuild_segs: the loop shared by decode_namespace and decode_subpath ---- *)
Fixpoint joinacc (acc : bytes) (ds : list bytes) : bytes :=
  match ds with [] => acc | d :: t => joinacc (if is_empty acc then d else acc ++ c_slash :: d) t end.
Lemma joinacc_join ds : Forall (fun d => d <> []) ds -> forall acc, acc <> [] -> joinacc acc ds = join c_slash (acc :: ds).
Proof.
  induction 1 as [|d t Hd Ht IH]; intros acc Hacc; cbn [joinacc join]; [reflexivity|].
  destruct acc as [|a acc']; [congruence|]. cbn [is_empty].
  rewrite IH by discriminate. cbn [join]. destruct t; cbn; rewrite <- ?app_assoc; reflexivity.
Qed.
Lemma joinacc_nil ds : Forall (fun d => d <> []) ds -> joinacc [] ds = join c_slash ds.
Proof. destruct 1 as [|d t Hd Ht]; [reflexivity|]. cbn [joinacc is_empty]. apply joinacc_join; assumption. Qed.

Definition seg_ok (bad : bytes -> bool) (d : bytes) : Prop := d <> [] /\ bad d = false /\ utf8_valid d = true.
Definition kept (skip : bytes -> bool) (segs : list bytes) := filter (fun s => negb (skip s)) segs.

Lemma rebuild_segs_filter skip bad segs acc : rebuild_segs segs skip bad acc = rebuild_segs (kept skip segs) skip bad acc.
Proof.
  revert acc. induction segs as [|s t IH]; intros acc; [reflexivity|]. cbn [rebuild_segs kept filter].
  destruct (skip s) eqn:Es; cbn [negb]; [apply IH|]. cbn [rebuild_segs]. rewrite Es.
  destruct (decode s); [|reflexivity]. destruct (bad a); [reflexivity|]. apply IH.
Qed.
(* soundness: a successful run returns the join of the decoded kept pieces, all of them fine *)
Lemma rebuild_segs_sound skip bad : skip [] = true -> forall segs acc r,
  rebuild_segs segs skip bad acc = Ok r ->
  r = joinacc acc (map pdecode (kept skip segs)) /\ Forall (seg_ok bad) (map pdecode (kept skip segs)).
Proof.
  intros Hskip. induction segs as [|s t IH]; intros acc r; cbn [rebuild_segs kept filter map].
  - intros [= <-]. split; constructor.
  - destruct (skip s) eqn:Es; cbn [negb]; [apply IH|].
    destruct (decode s) as [d|e] eqn:Ed; [|discriminate]. destruct (bad d) eqn:Eb; [discriminate|].
    intros H. apply IH in H. destruct H as (-> & Hds). apply decode_ok in Ed. destruct Ed as [-> Hv].
    cbn [map joinacc]. split; [reflexivity|]. constructor; [|exact Hds]. split; [|split; assumption].
    apply pdecode_nonempty. intros ->. rewrite Hskip in Es. discriminate.
Qed.
(* completeness: if every kept piece decodes to something fine, the run succeeds *)
Lemma rebuild_segs_complete skip bad segs : Forall (fun s => utf8_valid (pdecode s) = true /\ bad (pdecode s) = false) (kept skip segs) ->
  forall acc, rebuild_segs segs skip bad acc = Ok (joinacc acc (map pdecode (kept skip segs))).
Proof.
  induction segs as [|s t IH]; intros H acc; cbn [rebuild_segs kept filter map joinacc] in *; [reflexivity|].
  destruct (skip s) eqn:Es; cbn [negb] in *; [apply IH; exact H|].
  inversion H as [|? ? [Hv Hb] Ht]; subst. unfold decode. rewrite Hv, Hb. cbn [map joinacc]. apply IH. exact Ht.
Qed.

(* ---- namespace ---- *)
Definition ns_pieces (s : bytes) : list bytes := filter nonempty (split c_slash s).
Lemma kept_is_empty l : kept is_empty l = filter nonempty l.
Proof. reflexivity. Qed.
Theorem decode_namespace_sound s r : decode_namespace s = Ok r ->
  r = join c_slash (map pdecode (ns_pieces s))
  /\ Forall (fun d => d <> [] /\ ~ In c_slash d /\ utf8_valid d = true) (map pdecode (ns_pieces s)).
Proof.
  unfold decode_namespace. intros H. apply rebuild_segs_sound in H; [|reflexivity].
  rewrite kept_is_empty, filter_split_trim in H. destruct H as [-> Hds]. fold (ns_pieces s) in *. split.
  - apply joinacc_nil. eapply Forall_impl; [|exact Hds]. intros d (H1 & _). exact H1.
  - eapply Forall_impl; [|exact Hds]. intros d (H1 & H2 & H3). repeat split; try assumption. apply mem_false. exact H2.
Qed.
Theorem decode_namespace_complete s :
  Forall (fun p => utf8_valid (pdecode p) = true /\ ~ In c_slash (pdecode p)) (ns_pieces s) ->
  decode_namespace s = Ok (join c_slash (map pdecode (ns_pieces s))).
Proof.
  intros H. unfold decode_namespace. rewrite rebuild_segs_complete; rewrite kept_is_empty, filter_split_trim; fold (ns_pieces s).
  - f_equal. apply joinacc_nil. apply Forall_forall. intros d Hd. apply in_map_iff in Hd. destruct Hd as (p & <- & Hp).
    apply filter_In in Hp. destruct Hp as [_ Hp]. apply pdecode_nonempty. unfold nonempty in Hp. apply negb_true_iff, is_empty_false in Hp. exact Hp.
  - eapply Forall_impl; [|exact H]. intros p [H1 H2]. split; [exact H1|apply mem_false; exact H2].
Qed.

(* ---- subpath ---- *)
Definition sub_skip (s : bytes) := is_empty s || is_dotseg s.
Definition sub_pieces (s : bytes) : list bytes := filter (fun p => negb (sub_skip p)) (split c_slash s).
Lemma filter_filter {A} (f g : A -> bool) l : filter f (filter g l) = filter (fun x => g x && f x) l.
Proof. induction l as [|x l IH]; [reflexivity|]. cbn. destruct (g x); cbn; [destruct (f x); rewrite IH; reflexivity|exact IH]. Qed.
Lemma sub_pieces_trim s : kept sub_skip (split c_slash (trim c_slash s)) = sub_pieces s.
Proof.
  unfold kept, sub_pieces.
  assert (H : forall l, filter (fun p => negb (sub_skip p)) l = filter (fun p => negb (sub_skip p)) (filter nonempty l)).
  { intros l. rewrite filter_filter. apply filter_ext. intros p. unfold sub_skip, nonempty. destruct (is_empty p); reflexivity. }
  rewrite H, filter_split_trim, <- H. reflexivity.
Qed.
Definition sub_bad (d : bytes) := mem c_slash d || is_dotseg d.
Theorem decode_subpath_sound s r : decode_subpath s = Ok r ->
  r = join c_slash (map pdecode (sub_pieces s))
  /\ Forall (fun d => d <> [] /\ ~ In c_slash d /\ is_dotseg d = false /\ utf8_valid d = true) (map pdecode (sub_pieces s)).
Proof.
  unfold decode_subpath. intros H. apply (rebuild_segs_sound sub_skip sub_bad) in H; [|reflexivity].
  rewrite sub_pieces_trim in H. destruct H as [-> Hds]. split.
  - apply joinacc_nil. eapply Forall_impl; [|exact Hds]. intros d (H1 & _). exact H1.
  - eapply Forall_impl; [|exact Hds]. intros d (H1 & H2 & H3). unfold sub_bad in H2. apply orb_false_iff in H2. destruct H2 as [H2 H4].
    repeat split; try assumption. apply mem_false. exact H2.
Qed.
Theorem decode_subpath_complete s :
  Forall (fun p => utf8_valid (pdecode p) = true /\ ~ In c_slash (pdecode p) /\ is_dotseg (pdecode p) = false) (sub_pieces s) ->
  decode_subpath s = Ok (join c_slash (map pdecode (sub_pieces s))).
Proof.
  intros H. unfold decode_subpath. rewrite (rebuild_segs_complete sub_skip sub_bad); rewrite sub_pieces_trim.
  - f_equal. apply joinacc_nil. apply Forall_forall. intros d Hd. apply in_map_iff in Hd. destruct Hd as (p & <- & Hp).
    apply filter_In in Hp. destruct Hp as [_ Hp]. apply pdecode_nonempty. unfold sub_skip in Hp.
    apply negb_true_iff, orb_false_iff in Hp. destruct Hp as [Hp _]. apply is_empty_false in Hp. exact Hp.
  - eapply Forall_impl; [|exact H]. intros p (H1 & H2 & H3). split; [exact H1|]. unfold sub_bad. rewrite H3, orb_false_r. apply mem_false. exact H2.
Qed.
Print Assumptions decode_subpath_complete. Print Assumptions decode_namespace_complete.

