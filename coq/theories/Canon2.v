From Coq Require Import List NArith ZArith Bool Lia ZifyBool ZifyN.
From Coq.Strings Require Import Byte.
From PM Require Import Base Lemmas Text TextLemmas Model Segs.
Import ListNotations.
Local Open Scope N_scope.

Lemma slash_ascii : bn c_slash < 128. Proof. vm_compute. reflexivity. Qed.

Section D. Variable S : bytes.
Hypothesis Hpct : mem c_pct S = true.
Hypothesis Hslash : should_encode S c_slash = false.

Lemma penc_split_slash x : split c_slash (penc S x) = map (penc S) (split c_slash x).
Proof.
  rewrite <- (join_split c_slash x) at 1. rewrite penc_join by exact Hslash. apply split_join.
  - destruct (split c_slash x) eqn:Es; [exfalso; eapply split_nonnil; eassumption|discriminate].
  - apply Forall_forall. intros q Hq. apply in_map_iff in Hq. destruct Hq as (p & <- & Hp).
    intros Hin. apply in_penc in Hin. destruct Hin as [H|[H|[H _]]]; [discriminate H|discriminate H|].
    pose proof (split_pieces c_slash x) as Hall. rewrite Forall_forall in Hall. exact (Hall p Hp H).
Qed.
Lemma filter_map_penc (f : bytes -> bool) l : (forall p, f (penc S p) = f p) -> filter f (map (penc S) l) = map (penc S) (filter f l).
Proof. intros Hf. induction l as [|p l IH]; [reflexivity|]. cbn. rewrite Hf. destruct (f p); cbn; rewrite IH; reflexivity. Qed.
Lemma nonempty_penc p : nonempty (penc S p) = nonempty p.
Proof. unfold nonempty. destruct p as [|b t]; [reflexivity|]. cbn. unfold enc_byte. destruct (should_encode S b); reflexivity. Qed.
Lemma map_pdecode_penc l : map pdecode (map (penc S) l) = l.
Proof. rewrite map_map. rewrite <- (map_id l) at 2. apply map_ext. intros p. apply pdecode_penc. exact Hpct. Qed.

Theorem decode_namespace_penc ns : utf8_valid ns = true -> decode_namespace (penc S ns) = Ok (join c_slash (ns_pieces ns)).
Proof.
  intros Hv. assert (Hp : ns_pieces (penc S ns) = map (penc S) (ns_pieces ns)).
  { unfold ns_pieces. rewrite penc_split_slash. apply filter_map_penc. apply nonempty_penc. }
  rewrite decode_namespace_complete; rewrite Hp.
  - rewrite map_pdecode_penc. reflexivity.
  - apply Forall_forall. intros q Hq. apply in_map_iff in Hq. destruct Hq as (p & <- & Hpin). rewrite pdecode_penc by exact Hpct.
    unfold ns_pieces in Hpin. apply filter_In in Hpin. destruct Hpin as [Hpin _]. split.
    + pose proof (utf8_valid_split c_slash ns slash_ascii Hv) as Hall. rewrite Forall_forall in Hall. apply Hall. exact Hpin.
    + pose proof (split_pieces c_slash ns) as Hall. rewrite Forall_forall in Hall. apply Hall. exact Hpin.
Qed.

(* dot segments survive encoding unchanged and nothing else encodes to one *)
Lemma penc_single b : penc S [b] = enc_byte S b. Proof. cbn. apply app_nil_r. Qed.
Lemma is_dotseg_penc p : is_dotseg (penc S p) = true -> is_dotseg p = true.
Proof.
  unfold is_dotseg, s_dot, s_dotdot. rewrite !orb_true_iff, !beqs_true.
  destruct p as [|a [|b [|c t]]]; cbn [penc flat_map app]; unfold enc_byte;
    repeat match goal with |- context [should_encode S ?x] => destruct (should_encode S x) end; cbn [app];
    intros [H|H]; try discriminate H; try (injection H as ? ?; subst; auto).
  all: try (left; congruence); try (right; congruence).
  all: exfalso; revert H; clear; intros H; repeat (match type of H with _ :: _ = _ :: _ => injection H as ? H end); try discriminate; destruct (penc S t); discriminate.
Qed.
Hypothesis Hdot : should_encode S c_dot = false.
Lemma is_dotseg_penc_iff p : is_dotseg (penc S p) = is_dotseg p.
Proof.
  destruct (is_dotseg p) eqn:Ep.
  - unfold is_dotseg, s_dot, s_dotdot in *. rewrite orb_true_iff, !beqs_true in Ep. destruct Ep as [->| ->]; cbn; unfold enc_byte; rewrite Hdot; reflexivity.
  - destruct (is_dotseg (penc S p)) eqn:Eq; [|reflexivity]. apply is_dotseg_penc in Eq. congruence.
Qed.
Lemma is_empty_penc p : is_empty (penc S p) = is_empty p.
Proof. pose proof (nonempty_penc p) as H. unfold nonempty in H. destruct (is_empty (penc S p)), (is_empty p); cbn in H; congruence. Qed.
Theorem decode_subpath_penc sub : utf8_valid sub = true -> decode_subpath (penc S sub) = Ok (join c_slash (sub_pieces sub)).
Proof.
  intros Hv. assert (Hp : sub_pieces (penc S sub) = map (penc S) (sub_pieces sub)).
  { unfold sub_pieces. rewrite penc_split_slash. apply filter_map_penc. intros p. unfold sub_skip. rewrite is_empty_penc, is_dotseg_penc_iff. reflexivity. }
  rewrite decode_subpath_complete; rewrite Hp.
  - rewrite map_pdecode_penc. reflexivity.
  - apply Forall_forall. intros q Hq. apply in_map_iff in Hq. destruct Hq as (p & <- & Hpin). rewrite pdecode_penc by exact Hpct.
    unfold sub_pieces in Hpin. apply filter_In in Hpin. destruct Hpin as [Hpin Hk]. split; [|split].
    + pose proof (utf8_valid_split c_slash sub slash_ascii Hv) as Hall. rewrite Forall_forall in Hall. apply Hall. exact Hpin.
    + pose proof (split_pieces c_slash sub) as Hall. rewrite Forall_forall in Hall. apply Hall. exact Hpin.
    + unfold sub_skip in Hk. apply negb_true_iff, orb_false_iff in Hk. tauto.
Qed.
End D.
Print Assumptions decode_subpath_penc. Print Assumptions decode_namespace_penc.
