From Coq Require Import List NArith Bool.
From Coq.Strings Require Import Byte.
From PM Require Import Base.
Import ListNotations.
Local Open Scope N_scope.
Definition c_pct : byte := "%"%byte.

(* ---------- percent-encoding crate ---------- *)
Definition hexval (b : byte) : option N :=
  let n := bn b in
  if inr 48 57 n then Some (n - 48)
  else if inr 65 70 n then Some (n - 55)
  else if inr 97 102 n then Some (n - 87)
  else None.
Definition hexU (n : N) : byte := nb (if n <? 10 then n + 48 else n + 55).
Definition hexL (n : N) : byte := nb (if n <? 10 then n + 48 else n + 87).
Fixpoint pdecode (l : bytes) : bytes :=
  match l with
  | [] => []
  | b :: t =>
    if beq b c_pct then
      match t with
      | h :: (lo :: t') =>
        match hexval h, hexval lo with
        | Some a, Some c => nb (16 * a + c) :: pdecode t'
        | _, _ => b :: pdecode t
        end
      | _ => b :: pdecode t
      end
    else b :: pdecode t
  end.
(* an AsciiSet is the list of ASCII bytes it contains; non-ASCII always encoded *)
Definition should_encode (S : bytes) (b : byte) : bool := (128 <=? bn b) || mem b S.
Definition enc_byte (S : bytes) (b : byte) : bytes :=
  if should_encode S b then [c_pct; hexU (bn b / 16); hexU (bn b mod 16)] else [b].
Definition penc (S : bytes) (l : bytes) : bytes := flat_map (enc_byte S) l.

(* ---------- UTF-8 (core::str::from_utf8 acceptance, Unicode table 3-7) ---------- *)
Definition cont (b : byte) := inr 128 191 (bn b).
Fixpoint utf8_dec (l : bytes) : option (list N) :=
  match l with
  | [] => Some []
  | b0 :: t =>
    let n0 := bn b0 in
    if n0 <? 128 then option_map (cons n0) (utf8_dec t)
    else if inr 194 223 n0 then
      match t with
      | b1 :: t1 => if cont b1 then option_map (cons ((n0 - 192) * 64 + (bn b1 - 128))) (utf8_dec t1) else None
      | _ => None end
    else if inr 224 239 n0 then
      match t with
      | b1 :: (b2 :: t2) =>
        if inr (if n0 =? 224 then 160 else 128) (if n0 =? 237 then 159 else 191) (bn b1) && cont b2
        then option_map (cons ((n0 - 224) * 4096 + (bn b1 - 128) * 64 + (bn b2 - 128))) (utf8_dec t2) else None
      | _ => None end
    else if inr 240 244 n0 then
      match t with
      | b1 :: (b2 :: (b3 :: t3)) =>
        if inr (if n0 =? 240 then 144 else 128) (if n0 =? 244 then 143 else 191) (bn b1) && cont b2 && cont b3
        then option_map (cons ((n0 - 240) * 262144 + (bn b1 - 128) * 4096 + (bn b2 - 128) * 64 + (bn b3 - 128))) (utf8_dec t3) else None
      | _ => None end
    else None
  end.
Definition utf8_valid (l : bytes) := match utf8_dec l with Some _ => true | None => false end.
Definition enc1 (c : N) : bytes :=
  if c <? 128 then [nb c]
  else if c <? 2048 then [nb (192 + c / 64); nb (128 + c mod 64)]
  else if c <? 65536 then [nb (224 + c / 4096); nb (128 + (c / 64) mod 64); nb (128 + c mod 64)]
  else [nb (240 + c / 262144); nb (128 + (c / 4096) mod 64); nb (128 + (c / 64) mod 64); nb (128 + c mod 64)].
Definition utf8_enc (cs : list N) : bytes := flat_map enc1 cs.

(* parse.rs: decode() *)
Inductive field := FType | FNamespace | FName | FVersion | FSubpath.
Inductive parse_error := EScheme | EMissing (f : field) | EInvalidType | EInvalidQualifier | EInvalidEscape.
Definition decode (s : bytes) : result parse_error bytes :=
  let d := pdecode s in if utf8_valid d then Ok d else Err EInvalidEscape.

(* ---------- ASCII helpers ---------- *)
Definition is_upper_ascii (b : byte) := inr 65 90 (bn b).
Definition is_lower_ascii (b : byte) := inr 97 122 (bn b).
Definition is_digit (b : byte) := inr 48 57 (bn b).
Definition is_alnum (b : byte) := is_upper_ascii b || is_lower_ascii b || is_digit b.
Definition lower_ascii_b (b : byte) : byte := if is_upper_ascii b then nb (bn b + 32) else b.
Definition make_ascii_lowercase (s : bytes) : bytes := map lower_ascii_b s.
Definition is_hexdigit (b : byte) := match hexval b with Some _ => true | None => false end.
