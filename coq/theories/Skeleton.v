From Coq Require Import List NArith Bool Lia.
From Coq.Strings Require Import Byte.
From PM Require Import Base Lemmas Text TextLemmas Model.
Import ListNotations.

Section S. Variable cfg : config.
Context {T E : Type} (sh : shape T E).

Definition opt (c : byte) (o : option bytes) : bytes := match o with Some v => c :: v | None => [] end.
Definition optl (o : option bytes) (c : byte) : bytes := match o with Some v => v ++ [c] | None => [] end.
Record raw := { r_lead : nat; r_ty : bytes; r_ns : option bytes; r_name : bytes; r_ver : option bytes;
                r_q : option bytes; r_sub : option bytes }.
Definition path (r : raw) := optl (r_ns r) c_slash ++ r_name r.
Definition asm (r : raw) : bytes :=
  s_pkg ++ repeat c_slash (r_lead r) ++ r_ty r ++ c_slash :: path r ++ opt c_at (r_ver r) ++ opt c_qm (r_q r) ++ opt c_hash (r_sub r).

Definition noc (c : byte) (s : bytes) := ~ In c s.
Definition noco (c : byte) (o : option bytes) := match o with Some s => ~ In c s | None => True end.
Definition absent {A} (o : option A) := o = None.

(* where a raw separator character may still occur, depending on whether the source splits at the last or the first occurrence *)
Definition sep_ok (d : bool) (c : byte) (left : Prop) (tail : option bytes) (left_when_absent : Prop) : Prop :=
  match tail with Some v => if d then noc c v else left | None => left_when_absent end.
Record WFr (r : raw) : Prop := {
  wf_ty : valid_type cfg (r_ty r) = true;
  wf_name_slash : noc c_slash (r_name r);
  wf_at : sep_ok (dir_ver cfg) c_at (noc c_at (path r)) (r_ver r) (noc c_at (path r));
  wf_qm : sep_ok (dir_qual cfg) c_qm (noc c_qm (path r) /\ noco c_qm (r_ver r)) (r_q r) (noc c_qm (path r) /\ noco c_qm (r_ver r));
  wf_hash : sep_ok (dir_sub cfg) c_hash (noc c_hash (path r) /\ noco c_hash (r_ver r) /\ noco c_hash (r_q r)) (r_sub r)
                   (noc c_hash (path r) /\ noco c_hash (r_ver r) /\ noco c_hash (r_q r));
}.
Record cfg_ok : Prop := {
  ts_slash : mem c_slash (type_special cfg) = false;
  ts_hash : mem c_hash (type_special cfg) = false;
  ts_qm : mem c_qm (type_special cfg) = false;
}.

(* the checks, in source order *)
Definition oget (o : option bytes) (f : bytes -> result parse_error bytes) : result parse_error bytes :=
  match o with Some s => f s | None => Ok [] end.
Definition checks (r : raw) : result E (T * parts) :=
  sub <- lift sh (oget (r_sub r) decode_subpath) ;;
  q <- lift sh (match r_q r with Some qs => decode_quals cfg (split c_amp qs) [] | None => Ok [] end) ;;
  t <- sh_from_str sh (r_ty r) ;;
  ver <- lift sh (oget (r_ver r) decode) ;;
  ns <- lift sh (oget (r_ns r) decode_namespace) ;;
  name <- lift sh (decode (r_name r)) ;;
  build cfg sh t {| p_ns := ns; p_name := name; p_ver := ver; p_quals := q; p_sub := sub |}.

Lemma valid_type_no (t : bytes) c : valid_type cfg t = true -> is_alnum c = false -> mem c (type_special cfg) = false -> ~ In c t.
Proof.
  unfold valid_type. rewrite andb_true_iff, forallb_forall. intros [_ H] H1 H2 Hin.
  apply H in Hin. rewrite H1, H2 in Hin. discriminate.
Qed.
Lemma in_opt c d o : In c (opt d o) -> c = d \/ match o with Some v => In c v | None => False end.
Proof. destruct o; cbn; [intros [H|H]; auto|tauto]. Qed.
Lemma in_optl c d o : In c (optl o d) -> c = d \/ match o with Some v => In c v | None => False end.
Proof. destruct o; cbn; [|tauto]. intros H. apply in_app_or in H. destruct H as [H|[H|[]]]; auto. Qed.

Definition pickP (d : bool) (P Q : Prop) : Prop := if d then P else Q.
Lemma xsplit_once_app d c a b : pickP d (~ In c b) (~ In c a) -> xsplit_once d c (a ++ c :: b) = Some (a, b).
Proof. destruct d; cbn; [apply rsplit_once_app|apply split_once_app]. Qed.
Lemma xsplit_once_none d c s0 : ~ In c s0 -> xsplit_once d c s0 = None.
Proof. destruct d; cbn; [apply rsplit_once_none|apply split_once_none]. Qed.
Lemma xsplit_once_some d c s0 a b : xsplit_once d c s0 = Some (a, b) -> s0 = a ++ c :: b /\ pickP d (~ In c b) (~ In c a).
Proof. destruct d; cbn; [apply rsplit_once_some|apply split_once_some]. Qed.
Lemma xsplit_once_none_inv d c s0 : xsplit_once d c s0 = None -> ~ In c s0.
Proof. destruct d; cbn; [apply rsplit_once_none_inv|apply split_once_none_inv]. Qed.
Definition xsplit_opt (d : bool) (c : byte) (s0 : bytes) : bytes * option bytes :=
  match xsplit_once d c s0 with Some (a, b) => (a, Some b) | None => (s0, None) end.
Lemma xsplit_opt_opt d c body o : (match o with Some v => pickP d (~ In c v) (~ In c body) | None => ~ In c body end) ->
  xsplit_opt d c (body ++ opt c o) = (body, o).
Proof.
  unfold xsplit_opt. destruct o as [v|]; cbn [opt]; intros H.
  - rewrite xsplit_once_app by exact H. reflexivity.
  - rewrite app_nil_r. rewrite xsplit_once_none by exact H. reflexivity.
Qed.
Lemma xsplit_opt_spec d c s0 : let '(body, o) := xsplit_opt d c s0 in
  s0 = body ++ opt c o /\ (match o with Some v => pickP d (~ In c v) (~ In c body) | None => ~ In c body end).
Proof.
  unfold xsplit_opt. destruct (xsplit_once d c s0) as [[a b]|] eqn:Er.
  - apply xsplit_once_some in Er. destruct Er as [-> H]. cbn. auto.
  - apply xsplit_once_none_inv in Er. cbn. rewrite app_nil_r. auto.
Qed.
Lemma take_sub_opt s0 : take_sub cfg s0 = let '(body, o) := xsplit_opt (dir_sub cfg) c_hash s0 in (d <- oget o decode_subpath ;; Ok (body, d)).
Proof. unfold take_sub, xsplit_opt. destruct (xsplit_once (dir_sub cfg) c_hash s0) as [[a b]|]; reflexivity. Qed.
Lemma take_quals_opt s0 : take_quals cfg s0 = let '(body, o) := xsplit_opt (dir_qual cfg) c_qm s0 in
  (d <- match o with Some qs => decode_quals cfg (split c_amp qs) [] | None => Ok [] end ;; Ok (body, d)).
Proof. unfold take_quals, xsplit_opt. destruct (xsplit_once (dir_qual cfg) c_qm s0) as [[a b]|]; reflexivity. Qed.
Lemma take_ver_opt s0 : take_ver cfg s0 = let '(body, o) := xsplit_opt (dir_ver cfg) c_at s0 in (d <- oget o decode ;; Ok (body, d)).
Proof. unfold take_ver, xsplit_opt. destruct (xsplit_once (dir_ver cfg) c_at s0) as [[a b]|]; reflexivity. Qed.
Lemma take_ns_some n name : ~ In c_slash name -> take_ns (n ++ c_slash :: name) = (d <- decode_namespace n ;; Ok (name, d)).
Proof. intros H1. unfold take_ns. rewrite rsplit_once_app by assumption. reflexivity. Qed.
Lemma take_ns_none body : ~ In c_slash body -> take_ns body = Ok (body, []).
Proof. intros H. unfold take_ns. rewrite rsplit_once_none by assumption. reflexivity. Qed.

Lemma lift_bind {A B} (r : result parse_error A) (f : A -> result parse_error B) :
  lift sh (x <- r ;; f x) = match r with Ok a => lift sh (f a) | Err e => Err (sh_inj sh e) end.
Proof. destruct r; reflexivity. Qed.

Theorem parse_skeleton r : cfg_ok -> WFr r -> parse cfg sh (asm r) = checks r.
Proof.
  intros [C1 C2 C3] [Hty Hns Hat Hqm Hhash]. unfold noc, noco, sep_ok in *.
  assert (Hal : is_alnum c_slash = false /\ is_alnum c_hash = false /\ is_alnum c_qm = false) by (vm_compute; auto).
  destruct Hal as (Ha1 & Ha2 & Ha3).
  pose proof (valid_type_no _ c_slash Hty Ha1 C1) as T1.
  pose proof (valid_type_no _ c_hash Hty Ha2 C2) as T2.
  pose proof (valid_type_no _ c_qm Hty Ha3 C3) as T3.
  destruct r as [lead ty ns name ver q sub]. cbn [r_lead r_ty r_ns r_name r_ver r_q r_sub] in *.
  unfold parse, asm, checks. cbn [r_lead r_ty r_ns r_name r_ver r_q r_sub]. rewrite strip_prefix_app.
  set (pth := path {| r_lead := lead; r_ty := ty; r_ns := ns; r_name := name; r_ver := ver; r_q := q; r_sub := sub |}) in *.
  rewrite trim_start_repeat.
  2:{ intros u. destruct ty as [|x ty']; [discriminate Hty|]. cbn. intros [= -> _]. apply T1. left. reflexivity. }
  set (b4 := ty ++ c_slash :: pth ++ opt c_at ver).
  set (b3 := b4 ++ opt c_qm q).
  replace (ty ++ c_slash :: pth ++ opt c_at ver ++ opt c_qm q ++ opt c_hash sub) with (b3 ++ opt c_hash sub)
    by (unfold b3, b4; rewrite <- !app_assoc; cbn; rewrite <- !app_assoc; reflexivity).
  assert (Hin4 : forall c, In c b4 -> In c ty \/ c = c_slash \/ In c pth \/ c = c_at \/ match ver with Some v => In c v | None => False end).
  { unfold b4. intros c Hin. apply in_app_or in Hin. destruct Hin as [Hin|[Hin|Hin]]; auto.
    apply in_app_or in Hin. destruct Hin as [Hin|Hin]; auto. apply in_opt in Hin. tauto. }
  assert (Hin3 : forall c, In c b3 -> In c b4 \/ c = c_qm \/ match q with Some v => In c v | None => False end).
  { unfold b3. intros c Hin. apply in_app_or in Hin. destruct Hin as [Hin|Hin]; auto. apply in_opt in Hin. tauto. }
  assert (Hb3 : noc c_hash pth /\ noco c_hash ver /\ noco c_hash q -> ~ In c_hash b3).
  { unfold noc, noco. intros (H1 & H2 & H3) Hin. apply Hin3 in Hin. destruct Hin as [Hin|[Hin|Hin]]; [|discriminate Hin|destruct q; tauto].
    apply Hin4 in Hin. destruct Hin as [Hin|[Hin|[Hin|[Hin|Hin]]]]; try tauto; try discriminate Hin. destruct ver; tauto. }
  assert (Hb4 : noc c_qm pth /\ noco c_qm ver -> ~ In c_qm b4).
  { unfold noc, noco. intros (H1 & H2) Hin. apply Hin4 in Hin. destruct Hin as [Hin|[Hin|[Hin|[Hin|Hin]]]]; try tauto; try discriminate Hin. destruct ver; tauto. }
  (* stage '#' *)
  rewrite take_sub_opt, xsplit_opt_opt.
  2:{ destruct sub as [sp|]; [destruct (dir_sub cfg); [exact Hhash|apply Hb3; exact Hhash]|apply Hb3; exact Hhash]. }
  rewrite lift_bind. destruct (oget sub decode_subpath) as [dsub|e]; [|reflexivity]. cbn [lift bind fst snd].
  (* stage '?' *)
  unfold b3. rewrite take_quals_opt, xsplit_opt_opt.
  2:{ destruct q as [qs|]; [destruct (dir_qual cfg); [exact Hqm|apply Hb4; exact Hqm]|apply Hb4; exact Hqm]. }
  rewrite lift_bind. destruct (match q with Some qs => _ | None => _ end) as [dq|e]; [|reflexivity]. cbn [lift bind fst snd].
  replace (is_empty b4) with false by (unfold b4; destruct ty; [discriminate Hty|reflexivity]).
  unfold b4. rewrite split_once_app by exact T1. rewrite Hty. cbn [negb].
  destruct (sh_from_str sh ty) as [t|e]; [|reflexivity]. cbn [bind].
  (* stage '@' *)
  rewrite take_ver_opt, xsplit_opt_opt.
  2:{ destruct ver as [v|]; [destruct (dir_ver cfg); exact Hat|exact Hat]. }
  rewrite lift_bind. destruct (oget ver decode) as [dver|e]; [|reflexivity]. cbn [lift bind fst snd].
  (* stage namespace *)
  assert (E7 : take_ns pth = (d <- oget ns decode_namespace ;; Ok (name, d))).
  { unfold pth, path. cbn [r_ns r_name]. destruct ns as [n|]; cbn [optl oget].
    - rewrite <- app_assoc. cbn [app]. apply take_ns_some. exact Hns.
    - cbn [app bind]. apply take_ns_none. exact Hns. }
  rewrite E7, lift_bind. destruct (oget ns decode_namespace) as [dns|e]; [|reflexivity]. cbn [lift bind fst snd].
  reflexivity.
Qed.

(* ---- the converse: every accepted string is an assembled one ---- *)
Lemma bind_ok {X A B} (r : result X A) (f : A -> result X B) b : (a <- r ;; f a) = Ok b -> exists a, r = Ok a /\ f a = Ok b.
Proof. destruct r; cbn; [eauto|discriminate]. Qed.
Lemma lift_ok {A} (r : result parse_error A) a : lift sh r = Ok a -> r = Ok a.
Proof. destruct r; cbn; congruence. Qed.

Definition rsplit_optl (c : byte) (s : bytes) : option bytes * bytes :=
  match rsplit_once c s with Some (a, b) => (Some a, b) | None => (None, s) end.
Lemma rsplit_optl_spec c s : let '(o, b) := rsplit_optl c s in s = optl o c ++ b /\ ~ In c b.
Proof.
  unfold rsplit_optl. destruct (rsplit_once c s) as [[a b]|] eqn:Er.
  - apply rsplit_once_some in Er. destruct Er as [-> H]. cbn. rewrite <- app_assoc. auto.
  - apply rsplit_once_none_inv in Er. cbn. auto.
Qed.
Lemma take_ns_opt s : take_ns s = let '(o, b) := rsplit_optl c_slash s in (d <- oget o decode_namespace ;; Ok (b, d)).
Proof. unfold take_ns, rsplit_optl. destruct (rsplit_once c_slash s) as [[a b]|]; reflexivity. Qed.

Lemma bind_ok2 {X A B C} (r : result X A) (k : B) (c : C) x : (d <- r ;; Ok (k, d)) = Ok x -> exists d, r = Ok d /\ x = (k, d).
Proof. destruct r; cbn; [intros [= <-]; eauto|discriminate]. Qed.

Theorem parse_sound s x : parse cfg sh s = Ok x -> exists r, WFr r /\ s = asm r /\ checks r = Ok x.
Proof.
  unfold parse. destruct (strip_prefix s_pkg s) as [s1|] eqn:E0; [|discriminate].
  apply strip_prefix_some in E0. destruct (trim_start_spec c_slash s1) as (lead & E1 & Hnl).
  set (s2 := trim_start c_slash s1) in *. clearbody s2.
  rewrite take_sub_opt. pose proof (xsplit_opt_spec (dir_sub cfg) c_hash s2) as S3. destruct (xsplit_opt (dir_sub cfg) c_hash s2) as [s3 sub].
  destruct S3 as (E3 & N3).
  intros H. apply bind_ok in H. destruct H as ([s3' dsub] & H3 & H). apply lift_ok in H3.
  apply (bind_ok2 _ _ tt) in H3. destruct H3 as (d3 & Hd3 & [= -> ->]). cbn [fst snd] in H.
  rewrite take_quals_opt in H. pose proof (xsplit_opt_spec (dir_qual cfg) c_qm s3) as S4. destruct (xsplit_opt (dir_qual cfg) c_qm s3) as [s4 q].
  destruct S4 as (E4 & N4).
  apply bind_ok in H. destruct H as ([s4' dq] & H4 & H). apply lift_ok in H4.
  apply (bind_ok2 _ _ tt) in H4. destruct H4 as (d4 & Hd4 & [= -> ->]). cbn [fst snd] in H.
  destruct (is_empty s4) eqn:Ee; [discriminate|].
  destruct (split_once c_slash s4) as [[ty s5]|] eqn:E5; [|discriminate].
  destruct (negb (valid_type cfg ty)) eqn:Ev; [discriminate|]. apply negb_false_iff in Ev.
  apply split_once_some in E5. destruct E5 as [E5 Hty_slash].
  apply bind_ok in H. destruct H as (t & Ht & H).
  rewrite take_ver_opt in H. pose proof (xsplit_opt_spec (dir_ver cfg) c_at s5) as S6. destruct (xsplit_opt (dir_ver cfg) c_at s5) as [s6 ver].
  destruct S6 as (E6 & N6).
  apply bind_ok in H. destruct H as ([s6' dver] & H6 & H). apply lift_ok in H6.
  apply (bind_ok2 _ _ tt) in H6. destruct H6 as (d6 & Hd6 & [= -> ->]). cbn [fst snd] in H.
  rewrite take_ns_opt in H. pose proof (rsplit_optl_spec c_slash s6) as S7. destruct (rsplit_optl c_slash s6) as [ns name].
  destruct S7 as (E7 & N7).
  apply bind_ok in H. destruct H as ([nm' dns] & H7 & H). apply lift_ok in H7.
  apply (bind_ok2 _ _ tt) in H7. destruct H7 as (d7 & Hd7 & [= -> ->]). cbn [fst snd] in H.
  apply bind_ok in H. destruct H as (dname & Hn & H). apply lift_ok in Hn.
  exists {| r_lead := lead; r_ty := ty; r_ns := ns; r_name := name; r_ver := ver; r_q := q; r_sub := sub |}.
  assert (Hpath : s6 = path {| r_lead := lead; r_ty := ty; r_ns := ns; r_name := name; r_ver := ver; r_q := q; r_sub := sub |})
    by (unfold path; cbn; exact E7).
  (* what the absence of a separator in a prefix says about its parts *)
  assert (P5 : forall c, ~ In c s5 -> ~ In c s6 /\ noco c ver).
  { intros c Hc. rewrite E6 in Hc. split; [intros Hin; apply Hc; apply in_or_app; left; exact Hin|].
    destruct ver as [v|]; cbn; [|exact I]. intros Hin. apply Hc. apply in_or_app. right. right. exact Hin. }
  assert (P4 : forall c, ~ In c s4 -> ~ In c s6 /\ noco c ver).
  { intros c Hc. apply P5. intros Hin. apply Hc. rewrite E5. apply in_or_app. right. right. exact Hin. }
  assert (P3 : forall c, ~ In c s3 -> (~ In c s6 /\ noco c ver) /\ noco c q).
  { intros c Hc. rewrite E4 in Hc. split; [apply P4; intros Hin; apply Hc; apply in_or_app; left; exact Hin|].
    destruct q as [qs|]; cbn; [|exact I]. intros Hin. apply Hc. apply in_or_app. right. right. exact Hin. }
  split; [|split].
  - (* WFr *)
    constructor; cbn [r_ty r_name r_ver r_q r_sub]; unfold sep_ok, noc; rewrite <- ?Hpath.
    + exact Ev.
    + exact N7.
    + destruct ver as [v|]; [destruct (dir_ver cfg); exact N6|]. cbn in E6. rewrite app_nil_r in E6. subst s5. exact N6.
    + destruct q as [qs|].
      * destruct (dir_qual cfg); [exact N4|]. apply P4. exact N4.
      * cbn in E4. rewrite app_nil_r in E4. subst s3. apply P4. exact N4.
    + destruct sub as [sp|].
      * destruct (dir_sub cfg); [exact N3|]. destruct (P3 c_hash N3) as [[A B] C]. auto.
      * cbn in E3. rewrite app_nil_r in E3. subst s2. destruct (P3 c_hash N3) as [[A B] C]. auto.
  - (* s = asm r *)
    unfold asm. cbn [r_lead r_ty r_ver r_q r_sub]. rewrite <- Hpath. subst s s1 s2 s3 s4 s5.
    rewrite <- !app_assoc. cbn [app]. rewrite <- !app_assoc. reflexivity.
  - (* checks r = Ok x *)
    unfold checks. cbn [r_ty r_ns r_name r_ver r_q r_sub]. rewrite Hd3. cbn [lift bind]. rewrite Hd4. cbn [lift bind].
    rewrite Ht. cbn [bind]. rewrite Hd6. cbn [lift bind]. rewrite Hd7. cbn [lift bind]. rewrite Hn. cbn [lift bind]. exact H.
Qed.
End S.
Print Assumptions parse_skeleton.
Print Assumptions parse_sound.
