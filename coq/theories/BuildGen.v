From Coq Require Import List NArith ZArith Bool Lia Sorted.
From Coq.Strings Require Import Byte.
From PM Require Import Base Lemmas Text TextLemmas Model Skeleton Segs Quals Quals2 Quals3 Canon Canon2 DecQual Roundtrip ParseInv Lower Lower2 Lower3 Cs Cs2 Cs3 Cs4 BuildG.
Import ListNotations.
Local Open Scope N_scope.

Section BGEN. Variable cfg : config.
Hypothesis Hasc : tbl_ascii_ok cfg = true.
Hypothesis Hksp : key_special_ascii cfg = true.
Hypothesis Hsa : scan_ascii_ok cfg = true.
Hypothesis Hfix : tbl_img_fixed cfg = true.
Hypothesis Hsc : tbl_img_scalar cfg = true.
Hypothesis Hnc : tbl_no_comma cfg = true.
Hypothesis Hck : valid_key cfg s_checksum = true.
Context {T E : Type} (sh : shape T E).

(* what a shape's finish hook must satisfy for build to be stable: it may rewrite the name only, keeps it valid, and is idempotent *)
Definition same_but_name (p p' : parts) := p_ns p' = p_ns p /\ p_ver p' = p_ver p /\ p_sub p' = p_sub p /\ p_quals p' = p_quals p.
Definition finish_stable : Prop := forall t p t1 p1, utf8_valid (p_name p) = true -> sh_finish sh t p = Ok (t1, p1) ->
  same_but_name p p1 /\ utf8_valid (p_name p1) = true /\ (forall q, sh_finish sh t1 (with_quals p1 q) = Ok (t1, with_quals p1 q)).

Theorem build_stable t p t' p' : finish_stable -> fields_valid cfg p -> build cfg sh t p = Ok (t', p') ->
  p_name p' <> [] /\ fields_valid cfg p' /\ p_ns p' = p_ns p /\ p_sub p' = p_sub p /\ build cfg sh t' p' = Ok (t', p').
Proof.
  intros FS (Vns & Vname & Vver & Vsub & HQ & HV). unfold build.
  destruct (sh_finish sh t p) as [[t1 p1]|e] eqn:Ef; [|discriminate].
  destruct (FS t p t1 p1 Vname Ef) as ((S1 & S2 & S3 & S4) & Vn1 & Ef1).
  destruct (is_empty (p_name p1)) eqn:En; [discriminate|]. rewrite S4. rewrite (filter_vals_id _ HV).
  assert (Hne : p_name p1 <> []) by (apply is_empty_false; exact En).
  destruct (q_get cfg (p_quals p) s_checksum) as [v|] eqn:Eg.
  - pose proof (q_get_in cfg Hasc Hksp _ _ _ HQ Hck Eg) as Hin. pose proof HV as HV0. unfold vals_ok in HV0. rewrite Forall_forall in HV0. destruct (HV0 _ Hin) as [_ Hvv]. cbn in Hvv.
    destruct (cs_try_from cfg v) as [m|e] eqn:Ep; [|discriminate]. destruct (cs_to_text m) as [txt|e] eqn:Et; [|discriminate].
    destruct (q_insert cfg (p_quals p) s_checksum txt) as [q2|e] eqn:Ei; [|discriminate]. intros [= <- <-].
    destruct (cs_fix cfg Hasc Hsa Hfix Hsc Hnc v m txt Hvv Ep Et) as (F1 & F2 & F3 & F4).
    pose proof (q_insert_inv cfg Hasc Hksp _ _ _ _ HQ Ei) as HQ2.
    assert (HV2 : vals_ok q2).
    { unfold vals_ok. refine (q_insert_vals cfg Hasc Hksp (fun v => v <> [] /\ utf8_valid v = true) (p_quals p) s_checksum txt q2 HQ _ (conj F3 F4) Ei). exact HV. }
    pose proof (q_get_insert_same cfg Hasc Hksp _ _ _ _ HQ Ei) as Eg2.
    cbn [p_ns p_name p_ver p_sub p_quals with_quals].
    split; [exact Hne|]. split; [unfold fields_valid; cbn [p_ns p_name p_ver p_sub p_quals with_quals]; rewrite S1, S2, S3; tauto|].
    split; [exact S1|]. split; [exact S3|].
    rewrite (Ef1 q2). cbn [p_name p_quals with_quals]. rewrite En. rewrite (filter_vals_id _ HV2). rewrite Eg2, F1, F2.
    rewrite (q_insert_same_id cfg Hasc Hksp _ _ _ HQ2 Hck Eg2). reflexivity.
  - intros [= <- <-]. cbn [p_ns p_name p_ver p_sub p_quals with_quals].
    split; [exact Hne|]. split; [unfold fields_valid; cbn [p_ns p_name p_ver p_sub p_quals with_quals]; rewrite S1, S2, S3; tauto|].
    split; [exact S1|]. split; [exact S3|].
    rewrite (Ef1 (p_quals p)). cbn [p_name p_quals with_quals]. rewrite En. rewrite (filter_vals_id _ HV). rewrite Eg. reflexivity.
Qed.

End BGEN.
Arguments finish_stable {T E} sh.
Section BGEN1. Variable cfg : config.
Hypothesis R : rt_ok cfg.
Hypothesis Hsa : scan_ascii_ok cfg = true.
Hypothesis Hfix : tbl_img_fixed cfg = true.
Hypothesis Hsc : tbl_img_scalar cfg = true.
Hypothesis Hnc : tbl_no_comma cfg = true.
Hypothesis Hck : valid_key cfg s_checksum = true.
Let Hasc := rt_asc cfg R.
Let Hksp := rt_ksp cfg R.
Context {T E : Type} (sh : shape T E).
(* C01 for any shape whose hook is stable and whose type string parses back to the type *)
Theorem C01_gen s t p : finish_stable sh ->
  (forall t0 p0 t1 p1, sh_finish sh t0 p0 = Ok (t1, p1) -> valid_type cfg (sh_type sh t1) = true /\ sh_from_str sh (sh_type sh t1) = Ok t1) ->
  parse cfg sh s = Ok (t, p) ->
  format_panics cfg sh t = false /\ parse cfg sh (format cfg sh t p) = Ok (t, p).
Proof.
  intros FS FT H. apply parse_sound in H. destruct H as (r & _ & _ & H). unfold checks in H.
  apply bind_ok in H. destruct H as (sub & H3 & H). apply lift_ok in H3.
  apply bind_ok in H. destruct H as (q & H4 & H). apply lift_ok in H4.
  apply bind_ok in H. destruct H as (t0 & Ht & H).
  apply bind_ok in H. destruct H as (ver & H6 & H). apply lift_ok in H6.
  apply bind_ok in H. destruct H as (ns & H7 & H). apply lift_ok in H7.
  apply bind_ok in H. destruct H as (name & Hn & H). apply lift_ok in Hn.
  destruct (checks_fields cfg Hasc Hksp r sub q ver ns name H3 H4 H6 H7 Hn) as [FV SI].
  destruct (build_stable cfg Hasc Hksp Hsa Hfix Hsc Hnc Hck sh _ _ _ _ FS FV H) as (Hne & FV' & S1 & S4 & Hb).
  assert (Hty : valid_type cfg (sh_type sh t) = true /\ sh_from_str sh (sh_type sh t) = Ok t).
  { unfold build in H. destruct (sh_finish sh t0 _) as [[t1 p1]|e] eqn:Ef; [|discriminate]. apply FT in Ef.
    destruct (is_empty (p_name p1)); [discriminate|]. destruct (q_get _ _ _); [|injection H as <- _; exact Ef].
    destruct (cs_try_from _ _); [|discriminate]. destruct (cs_to_text _); [|discriminate]. destruct (q_insert _ _ _ _); [|discriminate].
    injection H as <- _. exact Ef. }
  destruct Hty as [Hvt Hfs].
  split; [unfold format_panics; rewrite Hvt; reflexivity|].
  rewrite (parse_format cfg sh _ p R Hvt FV'). rewrite Hfs. cbn [bind].
  replace (norm_parts p) with p; [exact Hb|].
  unfold norm_parts. unfold seg_inv in SI. cbn [p_ns p_sub] in SI. destruct SI as [SI1 SI2].
  cbn [p_ns p_name p_ver p_sub] in S1, S4. rewrite S1, S4, SI1, SI2. rewrite <- S1, <- S4. destruct p; reflexivity.
Qed.
End BGEN1.
Print Assumptions C01_gen.
