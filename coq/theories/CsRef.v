(* C12: the typed checksum value as a map keyed by the lower-cased algorithm: insert / insert_raw / remove laws along any
   operation sequence, and "the same entries in any order and letter case give the same text". *)
From Coq Require Import List NArith ZArith Bool Lia Sorted Permutation.
From Coq.Strings Require Import Byte.
From PM Require Import Base Lemmas Text TextLemmas Model Quals Lower Lower2 Lower3 LowerAny Cs Cs2 Cs3 Cs4 Cs5 Exec.
Import ListNotations.
Local Open Scope N_scope.

Section CSR. Variable cfg : config.
Hypothesis Hasc : tbl_ascii_ok cfg = true.
Hypothesis Hsa : scan_ascii_ok cfg = true.
Hypothesis Hfix : tbl_img_fixed cfg = true.
Hypothesis Hsc : tbl_img_scalar cfg = true.

(* ---------------- operations as map updates ---------------- *)
Lemma lower_idem a : utf8_valid a = true -> lowercase_str cfg (lowercase_str cfg a) = lowercase_str cfg a.
Proof. intros H. apply (lowercase_str_idem_any cfg Hasc Hfix Hsc Hsa). exact H. Qed.
Theorem cs_insert_raw_spec m a v : KI cfg m -> utf8_valid a = true ->
  let m' := cs_insert_raw cfg m a v in
  KI cfg m' /\ cm_get m' (lowercase_str cfg a) = Some v /\ (forall k, k <> lowercase_str cfg a -> cm_get m' k = cm_get m k).
Proof.
  intros HK Ha. cbn zeta. rewrite (insert_raw_is_set cfg m a v HK Ha). split; [apply KI_set; [exact HK|apply lower_idem; exact Ha]|].
  split; [apply cm_get_set_same|intros k Hk; apply cm_get_set_other; exact Hk].
Qed.
Lemma cm_remove_get m k : cm_get (cm_remove m k) k = None.
Proof.
  unfold cm_remove. induction m as [|[a w] m IH]; [reflexivity|]. cbn [filter fst]. destruct (beqs a k) eqn:E; cbn [negb]; [exact IH|].
  cbn [cm_get]. rewrite E. exact IH.
Qed.
Lemma cm_remove_other m k k' : k' <> k -> cm_get (cm_remove m k) k' = cm_get m k'.
Proof.
  intros Hne. unfold cm_remove. induction m as [|[a w] m IH]; [reflexivity|]. cbn [filter fst]. destruct (beqs a k) eqn:E; cbn [negb].
  - cbn [cm_get]. apply beqs_true in E. subst a. destruct (beqs k k') eqn:E2; [apply beqs_true in E2; congruence|exact IH].
  - cbn [cm_get]. destruct (beqs a k'); [reflexivity|exact IH].
Qed.
Lemma KI_remove m k : KI cfg m -> KI cfg (cm_remove m k).
Proof.
  intros [H1 H2]. unfold cm_remove. split.
  - clear H2. induction m as [|[a w] m IH]; [constructor|]. cbn [map fst] in H1. inversion H1 as [|? ? Hn Hd]; subst. cbn [filter fst].
    destruct (negb (beqs a k)); [|apply IH; exact Hd]. cbn [map fst]. constructor; [|apply IH; exact Hd].
    intros Hin. apply Hn. apply in_map_iff in Hin. destruct Hin as (e & <- & He). apply filter_In in He. apply in_map. tauto.
  - rewrite Forall_forall in *. intros e He. apply filter_In in He. apply H2. tauto.
Qed.
Definition cop_utf8 (o : cop) : Prop := match o with CInsert a _ | CInsertRaw a _ | CRemove a => utf8_valid a = true end.
Theorem cstep_KI m o : KI cfg m -> cop_utf8 o -> KI cfg (cstep cfg m o).
Proof.
  intros HK Ho. destruct o; cbn [cstep]; cbn [cop_utf8] in Ho.
  - exact (proj1 (cs_insert_raw_spec m alg _ HK Ho)).
  - exact (proj1 (cs_insert_raw_spec m alg _ HK Ho)).
  - apply KI_remove. exact HK.
Qed.
Lemma KI_nil : KI cfg []. Proof. split; constructor. Qed.
(* along ANY sequence of insert / insert_raw / remove: keys stay distinct and lower-cased *)
Theorem crun_KI ops : Forall cop_utf8 ops -> KI cfg (crun cfg ops).
Proof.
  unfold crun. assert (G : forall m, KI cfg m -> Forall cop_utf8 ops -> KI cfg (fold_left (cstep cfg) ops m)).
  { induction ops as [|o ops IH]; intros m HK HF; cbn [fold_left]; [exact HK|]. inversion HF; subst. apply IH; [apply cstep_KI; assumption|assumption]. }
  intros HF. apply G; [apply KI_nil|exact HF].
Qed.

(* ---------------- the same entries, in any order and hex case, give the same text ---------------- *)
Definition norm (e : bytes * bytes) : bytes * bytes := (fst e, make_ascii_lowercase (snd e)).
Lemma hexdigit_lower_iff b : is_hexdigit (lower_ascii_b b) = is_hexdigit b.
Proof. destruct b; reflexivity. Qed.
Lemma hex_ok_norm h : hex_ok (make_ascii_lowercase h) = hex_ok h.
Proof.
  unfold hex_ok, make_ascii_lowercase. rewrite map_length. f_equal. induction h as [|b h IH]; [reflexivity|]. cbn [map forallb]. rewrite hexdigit_lower_iff, IH. reflexivity.
Qed.
Lemma ins_sorted_norm e l : ins_sorted (norm e) (map norm l) = map norm (ins_sorted e l).
Proof. induction l as [|x l IH]; [reflexivity|]. cbn [map ins_sorted norm fst]. destruct (bcmp (fst e) (fst x)); cbn [map]; try reflexivity. f_equal. exact IH. Qed.
Lemma cs_sort_norm m : cs_sort (map norm m) = map norm (cs_sort m).
Proof. induction m as [|e m IH]; [reflexivity|]. cbn [map]. rewrite !cs_sort_cons, IH. apply ins_sorted_norm. Qed.
Lemma entry_norm e : (fun e => fst e ++ c_colon :: make_ascii_lowercase (snd e)) (norm e) = fst e ++ c_colon :: make_ascii_lowercase (snd e).
Proof. unfold norm. cbn [fst snd]. rewrite mal_idem. reflexivity. Qed.
Lemma forallb_map' {A B} (f : A -> B) (p : B -> bool) l : forallb p (map f l) = forallb (fun x => p (f x)) l.
Proof. induction l as [|x l IH]; [reflexivity|]. cbn. rewrite IH. reflexivity. Qed.
Lemma forallb_ext' {A} (p q : A -> bool) l : (forall x, p x = q x) -> forallb p l = forallb q l.
Proof. intros H. induction l as [|x l IH]; [reflexivity|]. cbn. rewrite H, IH. reflexivity. Qed.
Lemma cs_to_text_norm m : cs_to_text (map norm m) = cs_to_text m.
Proof.
  unfold cs_to_text. rewrite forallb_map'. replace (forallb (fun x => hex_ok (snd (norm x))) m) with (forallb (fun e => hex_ok (snd e)) m).
  2:{ apply forallb_ext'. intros e. unfold norm. cbn [snd]. rewrite hex_ok_norm. reflexivity. }
  destruct (forallb _ m); [|reflexivity]. f_equal. f_equal. rewrite cs_sort_norm, map_map. apply map_ext. intros e. apply entry_norm.
Qed.
Theorem C12_same_entries m1 m2 : NoDup (map fst m1) -> Permutation (map norm m1) (map norm m2) -> cs_to_text m1 = cs_to_text m2.
Proof.
  intros Hd HP. rewrite <- (cs_to_text_norm m1), <- (cs_to_text_norm m2). symmetry. apply cs_to_text_perm_invariant; [|exact HP].
  rewrite map_map. cbn [norm fst]. exact Hd.
Qed.
End CSR.
