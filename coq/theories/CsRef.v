(* C12: the typed checksum value as a map keyed by the lower-cased algorithm: insert / insert_raw / remove laws along any
   operation sequence, and "the same entries in any order and letter case give the same text". *)
From Coq Require Import List NArith ZArith Bool Lia Sorted Permutation.
From Coq.Strings Require Import Byte.
From PM Require Import Base Lemmas Text TextLemmas Model Quals Lower Lower2 Lower3 LowerAny Cs Cs2 Cs3 Cs4 Cs5 Exec.
Import ListNotations.
Local Open Scope N_scope.

Section CSR. Variable cfg : config.
Hypothesis Hasc : tbl_ascii_ok cfg = true.
Hypothesis Hsa : scan_ascii_ok cfg = true.
Hypothesis Hfix : tbl_img_fixed cfg = true.
Hypothesis Hsc : tbl_img_scalar cfg = true.

(* ---------------- operations as map updates ---------------- *)
Lemma lower_idem a : utf8_valid a = true -> lowercase_str cfg (lowercase_str cfg a) = lowercase_str cfg a.
Proof. intros H. apply (lowercase_str_idem_any cfg Hasc Hfix Hsc Hsa). exact H. Qed.
Theorem cs_insert_raw_spec m a v : KI cfg m -> utf8_valid a = true ->
  let m' := cs_insert_raw cfg m a v in
  KI cfg m' /\ cm_get m' (lowercase_str cfg a) = Some v /\ (forall k, k <> lowercase_str cfg a -> cm_get m' k = cm_get m k).
Proof.
  intros HK Ha. cbn zeta. rewrite (insert_raw_is_set cfg m a v HK Ha). split; [apply KI_set; [exact HK|apply lower_idem; exact Ha]|].
  split; [apply cm_get_set_same|intros k Hk; apply cm_get_set_other; exact Hk].
Qed.
Lemma cm_remove_get m k : cm_get (cm_remove m k) k = None.
Proof.
  unfold cm_remove. induction m as [|[a w] m IH]; [reflexivity|]. cbn [filter fst]. destruct (beqs a k) eqn:E; cbn [negb]; [exact IH|].
  cbn [cm_get]. rewrite E. exact IH.
Qed.
Lemma cm_remove_other m k k' : k' <> k -> cm_get (cm_remove m k) k' = cm_get m k'.
Proof.
  intros Hne. unfold cm_remove. induction m as [|[a w] m IH]; [reflexivity|]. cbn [filter fst]. destruct (beqs a k) eqn:E; cbn [negb].
  - cbn [cm_get]. apply beqs_true in E. subst a. destruct (beqs k k') eqn:E2; [apply beqs_true in E2; congruence|exact IH].
  - cbn [cm_get]. destruct (beqs a k'); [reflexivity|exact IH].
Qed.
Lemma KI_remove m k : KI cfg m -> KI cfg (cm_remove m k).
Proof.
  intros [H1 H2]. unfold cm_remove. split.
  - clear H2. induction m as [|[a w] m IH]; [constructor|]. cbn [map fst] in H1. inversion H1 as [|? ? Hn Hd]; subst. cbn [filter fst].
    destruct (negb (beqs a k)); [|apply IH; exact Hd]. cbn [map fst]. constructor; [|apply IH; exact Hd].
    intros Hin. apply Hn. apply in_map_iff in Hin. destruct Hin as (e & <- & He). apply filter_In in He. apply in_map. tauto.
  - rewrite Forall_forall in *. intros e He. apply filter_In in He. apply H2. tauto.
Qed.
Definition cop_utf8 (o : cop) : Prop := match o with CInsert a _ | CInsertRaw a _ | CRemove a => utf8_valid a = true end.
Theorem cstep_KI m o : KI cfg m -> cop_utf8 o -> KI cfg (cstep cfg m o).
Proof.
  intros HK Ho. destruct o; cbn [cstep]; cbn [cop_utf8] in Ho.
  - exact (proj1 (cs_insert_raw_spec m alg _ HK Ho)).
  - exact (proj1 (cs_insert_raw_spec m alg _ HK Ho)).
  - apply KI_remove. exact HK.
Qed.
Lemma KI_nil : KI cfg []. Proof. split; constructor. Qed.
(* along ANY sequence of insert / insert_raw / remove: keys stay distinct and lower-cased *)
Theorem crun_KI ops : Forall cop_utf8 ops -> KI cfg (crun cfg ops).
Proof.
  unfold crun. assert (G : forall m, KI cfg m -> Forall cop_utf8 ops -> KI cfg (fold_left (cstep cfg) ops m)).
  { induction ops as [|o ops IH]; intros m HK HF; cbn [fold_left]; [exact HK|]. inversion HF; subst. apply IH; [apply cstep_KI; assumption|assumption]. }
  intros HF. apply G; [apply KI_nil|exact HF].
Qed.

(* ---------------- the same entries, in any order and hex case, give the same text ---------------- *)
Definition norm (e : bytes * bytes) : bytes * bytes := (fst e, make_ascii_lowercase (snd e)).
Lemma hexdigit_lower_iff b : is_hexdigit (lower_ascii_b b) = is_hexdigit b.
Proof. destruct b; reflexivity. Qed.
Lemma hex_ok_norm h : hex_ok (make_ascii_lowercase h) = hex_ok h.
Proof.
  unfold hex_ok, make_ascii_lowercase. rewrite map_length. f_equal. induction h as [|b h IH]; [reflexivity|]. cbn [map forallb]. rewrite hexdigit_lower_iff, IH. reflexivity.
Qed.
Lemma ins_sorted_norm e l : ins_sorted (norm e) (map norm l) = map norm (ins_sorted e l).
Proof. induction l as [|x l IH]; [reflexivity|]. cbn [map ins_sorted norm fst]. destruct (bcmp (fst e) (fst x)); cbn [map]; try reflexivity. f_equal. exact IH. Qed.
Lemma cs_sort_norm m : cs_sort (map norm m) = map norm (cs_sort m).
Proof. induction m as [|e m IH]; [reflexivity|]. cbn [map]. rewrite !cs_sort_cons, IH. apply ins_sorted_norm. Qed.
Lemma entry_norm e : (fun e => fst e ++ c_colon :: make_ascii_lowercase (snd e)) (norm e) = fst e ++ c_colon :: make_ascii_lowercase (snd e).
Proof. unfold norm. cbn [fst snd]. rewrite mal_idem. reflexivity. Qed.
Lemma forallb_map' {A B} (f : A -> B) (p : B -> bool) l : forallb p (map f l) = forallb (fun x => p (f x)) l.
Proof. induction l as [|x l IH]; [reflexivity|]. cbn. rewrite IH. reflexivity. Qed.
Lemma forallb_ext' {A} (p q : A -> bool) l : (forall x, p x = q x) -> forallb p l = forallb q l.
Proof. intros H. induction l as [|x l IH]; [reflexivity|]. cbn. rewrite H, IH. reflexivity. Qed.
Lemma cs_to_text_norm m : cs_to_text (map norm m) = cs_to_text m.
Proof.
  unfold cs_to_text. rewrite forallb_map'. replace (forallb (fun x => hex_ok (snd (norm x))) m) with (forallb (fun e => hex_ok (snd e)) m).
  2:{ apply forallb_ext'. intros e. unfold norm. cbn [snd]. rewrite hex_ok_norm. reflexivity. }
  destruct (forallb _ m); [|reflexivity]. f_equal. f_equal. rewrite cs_sort_norm, map_map. apply map_ext. intros e. apply entry_norm.
Qed.
Theorem C12_same_entries m1 m2 : NoDup (map fst m1) -> Permutation (map norm m1) (map norm m2) -> cs_to_text m1 = cs_to_text m2.
Proof.
  intros Hd HP. rewrite <- (cs_to_text_norm m1), <- (cs_to_text_norm m2). symmetry. apply cs_to_text_perm_invariant; [|exact HP].
  rewrite map_map. cbn [norm fst]. exact Hd.
Qed.
End CSR.

(* ---------------- C02 / C12: the checksum may be spelled in any entry order and letter case ---------------- *)
From PM Require Import Quals2 Quals3 Quals4 Final Refine More.
Section CSP. Variable cfg : config.
Hypothesis Hasc : tbl_ascii_ok cfg = true.
Hypothesis Hksp : key_special_ascii cfg = true.
Hypothesis Hck : valid_key cfg s_checksum = true.

(* overwriting a present key: the list changes only in that value *)
Lemma q_set_shape q k v w : QInv cfg q -> valid_key cfg k = true -> q_get cfg q k = Some v ->
  exists pre post, q = pre ++ (lk k, v) :: post /\ q_set cfg q k w = pre ++ (lk k, w) :: post.
Proof.
  intros HQ Hk Hg. pose proof (q_get_spec cfg Hasc Hksp q k HQ Hk) as S. rewrite Hg in S. destruct S as (pre & post & E).
  exists pre, post. split; [exact E|]. unfold q_set. destruct (q_insert cfg q k w) as [q'|] eqn:Ei.
  - destruct (q_insert_shape cfg Hasc Hksp q k w q' HQ Ei) as (pre' & post' & E' & [E2|[old E2]]).
    + exfalso. assert (Hin : In (lk k, v) (pre' ++ post')) by (rewrite <- E2, E; apply in_or_app; right; left; reflexivity).
      pose proof (q_insert_inv cfg Hasc Hksp _ _ _ _ HQ Ei) as HQ'. rewrite E' in HQ'. apply (mid_key_absent cfg pre' (lk k) w post' HQ'). apply in_map_iff. exists (lk k, v). split; [reflexivity|exact Hin].
    + destruct HQ as [Hs _]. destruct (sorted_key_unique q Hs _ _ _ _ _ _ _ E E2) as (-> & _ & ->). exact E'.
  - exfalso. unfold q_insert, check_key in Ei. rewrite Hk in Ei. cbn [bind] in Ei. destruct (search cfg q _); discriminate.
Qed.
Lemma q_set_set q k v w1 w2 : QInv cfg q -> valid_key cfg k = true -> q_get cfg q k = Some v -> q_set cfg (q_set cfg q k w1) k w2 = q_set cfg q k w2.
Proof.
  intros HQ Hk Hg. destruct (q_set_shape q k v w1 HQ Hk Hg) as (pre & post & E & E1). destruct (q_set_shape q k v w2 HQ Hk Hg) as (pre2 & post2 & E' & E2).
  destruct HQ as [Hs Hc]. destruct (sorted_key_unique q Hs _ _ _ _ _ _ _ E E') as (<- & _ & <-).
  assert (HQ1 : QInv cfg (q_set cfg q k w1)) by (apply (q_set_inv cfg Hasc Hksp); split; assumption).
  assert (Hg1 : q_get cfg (q_set cfg q k w1) k = Some w1).
  { apply (q_get_iff cfg Hasc Hksp _ k w1 HQ1 Hk). rewrite E1. apply in_or_app. right. left. reflexivity. }
  destruct (q_set_shape (q_set cfg q k w1) k w1 w2 HQ1 Hk Hg1) as (pre3 & post3 & E3 & E4).
  rewrite E1 in E3. destruct HQ1 as [Hs1 _]. rewrite E1 in Hs1. destruct (sorted_key_unique _ Hs1 _ _ _ _ _ _ _ eq_refl E3) as (<- & _ & <-).
  rewrite E4, E2. reflexivity.
Qed.
Lemma q_set_get q k w k' : QInv cfg q -> valid_key cfg k = true -> valid_key cfg k' = true ->
  q_get cfg (q_set cfg q k w) k' = if beqs (lk k') (lk k) then Some w else q_get cfg q k'.
Proof.
  intros HQ Hk Hk'. unfold q_set. destruct (q_insert cfg q k w) as [q'|] eqn:Ei.
  - destruct (beqs (lk k') (lk k)) eqn:Eb.
    + apply beqs_true in Eb. rewrite <- (q_get_case_insensitive cfg Hasc Hksp q' k k' (q_insert_inv cfg Hasc Hksp _ _ _ _ HQ Ei) Hk Hk' (eq_sym Eb)).
      exact (q_get_insert_same cfg Hasc Hksp q k w q' HQ Ei).
    + apply (q_get_insert_other cfg Hasc Hksp q k w q' k' HQ Ei Hk'). intros E. rewrite E in Eb. rewrite (proj2 (beqs_true _ _) eq_refl) in Eb. discriminate.
  - exfalso. unfold q_insert, check_key in Ei. rewrite Hk in Ei. cbn [bind] in Ei. destruct (search cfg q _); discriminate.
Qed.
Lemma nonempty_set q k v w : QInv cfg q -> valid_key cfg k = true -> q_get cfg q k = Some v -> v <> [] -> w <> [] ->
  nonempty_quals (q_set cfg q k w) = q_set cfg (nonempty_quals q) k w /\ q_get cfg (nonempty_quals q) k = Some v.
Proof.
  intros HQ Hk Hg Hv Hw.
  assert (HQn : QInv cfg (nonempty_quals q)) by (apply QInv_filter; exact HQ).
  assert (Hne : forall x : bytes, x <> [] -> negb (is_empty x) = true) by (intros [|? ?] Hx; [contradiction Hx; reflexivity|reflexivity]).
  assert (Hgn : q_get cfg (nonempty_quals q) k = Some v).
  { unfold nonempty_quals. rewrite (q_get_retain cfg Hasc Hksp _ q k HQ Hk), Hg, (Hne v Hv). reflexivity. }
  split; [|exact Hgn].
  apply (C11_canon cfg Hasc Hksp); [apply QInv_filter; apply (q_set_inv cfg Hasc Hksp); exact HQ|apply (q_set_inv cfg Hasc Hksp); exact HQn|].
  intros k' Hk'. unfold nonempty_quals at 1. rewrite (q_get_retain cfg Hasc Hksp _ _ k' (q_set_inv cfg Hasc Hksp _ _ _ HQ) Hk').
  rewrite (q_set_get q k w k' HQ Hk Hk'), (q_set_get (nonempty_quals q) k w k' HQn Hk Hk').
  destruct (beqs (lk k') (lk k)); [rewrite (Hne w Hw); reflexivity|]. unfold nonempty_quals. rewrite (q_get_retain cfg Hasc Hksp _ q k' HQ Hk'). reflexivity.
Qed.
(* two builds that differ only in how the checksum is spelled (entry order, hex case) give the same PURL - string shape *)
Theorem build_checksum_spelling t p v1 v2 m1 m2 : QInv cfg (p_quals p) -> q_get cfg (p_quals p) s_checksum = Some v1 -> v1 <> [] -> v2 <> [] ->
  cs_try_from cfg v1 = Ok m1 -> cs_try_from cfg v2 = Ok m2 -> NoDup (map fst m1) -> Permutation (map norm m1) (map norm m2) ->
  build cfg (string_shape cfg) t (with_quals p (q_set cfg (p_quals p) s_checksum v2)) = build cfg (string_shape cfg) t p.
Proof.
  intros HQ Hg H1 H2 E1 E2 Hd HP. unfold build. cbn [sh_finish string_shape]. unfold str_finish. destruct (valid_type cfg t); [|reflexivity].
  cbn [p_name with_quals p_quals]. destruct (is_empty (p_name p)); [reflexivity|].
  destruct (nonempty_set (p_quals p) s_checksum v1 v2 HQ Hck Hg H1 H2) as [En Egn]. fold (nonempty_quals (q_set cfg (p_quals p) s_checksum v2)). fold (nonempty_quals (p_quals p)).
  rewrite En, Egn. assert (HQn : QInv cfg (nonempty_quals (p_quals p))) by (apply QInv_filter; exact HQ).
  assert (Hg2 : q_get cfg (q_set cfg (nonempty_quals (p_quals p)) s_checksum v2) s_checksum = Some v2).
  { destruct (q_set_shape _ s_checksum v1 v2 HQn Hck Egn) as (pre & post & _ & E). apply (q_get_iff cfg Hasc Hksp _ _ _ (q_set_inv cfg Hasc Hksp _ _ _ HQn) Hck). rewrite E. apply in_or_app. right. left. reflexivity. }
  rewrite Hg2, E1, E2. rewrite <- (C12_same_entries m1 m2 Hd HP). destruct (cs_to_text m1) as [txt|]; [|reflexivity].
  assert (Hi : forall q, q_insert cfg q s_checksum txt = Ok (q_set cfg q s_checksum txt)).
  { intros q. unfold q_set. destruct (q_insert cfg q s_checksum txt) eqn:Ei; [reflexivity|]. exfalso. unfold q_insert, check_key in Ei. rewrite Hck in Ei. cbn [bind] in Ei. destruct (search cfg q _); discriminate. }
  rewrite !Hi. rewrite (q_set_set _ s_checksum v1 v2 txt HQn Hck Egn). reflexivity.
Qed.
End CSP.
