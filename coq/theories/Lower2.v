From Coq Require Import List NArith ZArith Bool Lia ZifyBool ZifyN.
From Coq.Strings Require Import Byte.
From PM Require Import Base Lemmas Text TextLemmas Model Quals Lower.
Import ListNotations.
Local Open Scope N_scope.

Section L. Variable cfg : config.
Hypothesis Hasc : tbl_ascii_ok cfg = true.
Hypothesis Hscan : scan_lower_ne cfg = true.
(* facts about the dumped to_lowercase table, each a finite check *)
Definition tbl_img_fixed : bool := forallb (fun e => forallb (fun d => leqb (lower_c cfg d) [d]) (snd e)) (lower_tbl cfg).
Definition tbl_img_scalar : bool := forallb (fun e => forallb is_scalar (snd e)) (lower_tbl cfg).
Hypothesis Hfix : tbl_img_fixed = true.
Hypothesis Hsc : tbl_img_scalar = true.

Lemma tbl_find_in t c l : tbl_find t c = Some l -> In (c, l) t.
Proof. induction t as [|[k v] t IH]; cbn; [discriminate|]. destruct (k =? c) eqn:E; [intros [= <-]; apply N.eqb_eq in E; subst; left; reflexivity|]. destruct (c <? k); [discriminate|]. intros H; right; apply IH; exact H. Qed.
(* faithfulness of the early exit: on a table whose keys strictly ascend, the look-up finds every entry *)
Fixpoint keys_ascend (t : list (N * list N)) : bool :=
  match t with (k1, _) :: (((k2, _) :: _) as r) => (k1 <? k2) && keys_ascend r | _ => true end.
Lemma keys_ascend_lb t k v : keys_ascend ((k, v) :: t) = true -> forall e, In e t -> k < fst e.
Proof.
  revert k v. induction t as [|[k2 v2] t IH]; intros k v H e Hin; [destruct Hin|]. cbn [keys_ascend] in H. apply andb_true_iff in H. destruct H as [H1 H2]. apply N.ltb_lt in H1.
  destruct Hin as [<-|Hin]; [exact H1|]. specialize (IH k2 v2 H2 e Hin). cbn [fst] in *. lia.
Qed.
Lemma tbl_find_complete t c l : keys_ascend t = true -> In (c, l) t -> tbl_find t c = Some l.
Proof.
  induction t as [|[k v] t IH]; intros Hs Hin; [destruct Hin|]. cbn [tbl_find]. destruct Hin as [E|Hin].
  - injection E as -> ->. rewrite N.eqb_refl. reflexivity.
  - pose proof (keys_ascend_lb t k v Hs _ Hin) as Hlt. cbn [fst] in Hlt. assert (Hne : (k =? c) = false) by (apply N.eqb_neq; lia). rewrite Hne.
    assert (Hnl : (c <? k) = false) by (apply N.ltb_ge; lia). rewrite Hnl. apply IH; [|exact Hin].
    destruct t as [|[k2 v2] t']; [reflexivity|]. cbn [keys_ascend] in Hs. apply andb_true_iff in Hs. tauto.
Qed.
Lemma leqb_refl l : leqb l l = true.
Proof. induction l as [|x l IH]; cbn; [reflexivity|]. rewrite N.eqb_refl. exact IH. Qed.
Lemma lower_c_img_fixed c d : In d (lower_c cfg c) -> lower_c cfg d = [d].
Proof.
  unfold lower_c at 1. destruct (tbl_find (lower_tbl cfg) c) as [l|] eqn:E.
  - intros Hd. apply tbl_find_in in E. unfold tbl_img_fixed in Hfix. rewrite forallb_forall in Hfix. specialize (Hfix _ E). cbn in Hfix.
    rewrite forallb_forall in Hfix. apply leqb_eq. apply Hfix. exact Hd.
  - intros [<-|[]]. unfold lower_c. rewrite E. reflexivity.
Qed.
Lemma lower_c_scalar c d : is_scalar c = true -> In d (lower_c cfg c) -> is_scalar d = true.
Proof.
  intros Hc. unfold lower_c. destruct (tbl_find (lower_tbl cfg) c) as [l|] eqn:E.
  - intros Hd. apply tbl_find_in in E. unfold tbl_img_scalar in Hsc. rewrite forallb_forall in Hsc. specialize (Hsc _ E). cbn in Hsc.
    rewrite forallb_forall in Hsc. apply Hsc. exact Hd.
  - intros [<-|[]]. exact Hc.
Qed.
Lemma scan_hit_false c : scan_hit cfg c = false <-> lower_c cfg c = [c].
Proof.
  unfold scan_hit. rewrite Hscan. rewrite negb_false_iff. split; [apply leqb_eq|intros ->; apply leqb_refl].
Qed.
Lemma flat_lower_idem cs : flat_map (lower_c cfg) (flat_map (lower_c cfg) cs) = flat_map (lower_c cfg) cs.
Proof.
  induction cs as [|c cs IH]; [reflexivity|]. cbn [flat_map]. rewrite flat_map_app, IH. f_equal.
  assert (H : forall l, (forall d, In d l -> lower_c cfg d = [d]) -> flat_map (lower_c cfg) l = l).
  { induction l as [|d l IHl]; intros Hl; [reflexivity|]. cbn. rewrite (Hl d (or_introl eq_refl)). cbn. f_equal. apply IHl. intros x Hx. apply Hl. right. exact Hx. }
  apply H. intros d Hd. eapply lower_c_img_fixed. exact Hd.
Qed.

(* what the three scan outcomes mean *)
Lemma scan_spec cs : forall st,
  match scan cfg cs st with
  | SLower => st = SLower /\ Forall (fun c => lower_c cfg c = [c]) cs
  | SMixedAscii => Forall (fun c => 128 <= c -> lower_c cfg c = [c]) cs
  | SMixedUnicode => True
  end.
Proof.
  induction cs as [|c cs IH]; intros st; cbn [scan].
  - destruct st; auto.
  - destruct (scan_hit cfg c) eqn:Eh.
    + destruct (c <? 128) eqn:Ec; [|exact I]. specialize (IH SMixedAscii). destruct (scan cfg cs SMixedAscii); [destruct IH; discriminate| |exact I].
      constructor; [lia|exact IH].
    + apply scan_hit_false in Eh. specialize (IH st). destruct (scan cfg cs st); [destruct IH; split; [assumption|constructor; assumption]| |exact I].
      constructor; [intros _; exact Eh|exact IH].
Qed.

Theorem lowercase_str_spec s : utf8_valid s = true -> lowercase_str cfg s = spec_lower cfg s.
Proof.
  intros Hv. unfold lowercase_str, spec_lower. pose proof (scan_spec (chars s) SLower) as S.
  destruct (scan cfg (chars s) SLower).
  - destruct S as [_ S]. replace (flat_map (lower_c cfg) (chars s)) with (chars s); [symmetry; apply utf8_enc_chars; exact Hv|].
    induction S as [|c cs Hc Hcs IH]; [reflexivity|]. cbn. rewrite Hc. cbn. f_equal. exact IH.
  - replace (flat_map (lower_c cfg) (chars s)) with (map alow (chars s)).
    + rewrite <- chars_lowercase by exact Hv. symmetry. apply utf8_enc_chars. apply utf8_valid_lowercase. exact Hv.
    + induction S as [|c cs Hc Hcs IH]; [reflexivity|]. cbn. rewrite IH. f_equal. unfold alow. destruct (c <? 128) eqn:Ec.
      * rewrite (lower_c_ascii cfg Hasc) by lia. reflexivity.
      * rewrite Hc by lia. reflexivity.
  - reflexivity.
Qed.
Lemma chars_spec_lower s : utf8_valid s = true -> chars (spec_lower cfg s) = flat_map (lower_c cfg) (chars s).
Proof.
  intros Hv. unfold spec_lower, chars at 1. rewrite utf8_dec_enc; [reflexivity|].
  unfold utf8_valid, chars in *. destruct (utf8_dec s) as [cs|] eqn:E; [|discriminate].
  pose proof (utf8_dec_scalar (length s) s cs (le_n _) E) as Hs. rewrite Forall_forall in *. intros d Hd. apply in_flat_map in Hd.
  destruct Hd as (c & Hc & Hd). eapply lower_c_scalar; [apply Hs; exact Hc|exact Hd].
Qed.
Lemma utf8_valid_spec_lower s : utf8_valid s = true -> utf8_valid (spec_lower cfg s) = true.
Proof.
  intros Hv. unfold utf8_valid, spec_lower. rewrite utf8_dec_enc; [reflexivity|].
  unfold utf8_valid, chars in *. destruct (utf8_dec s) as [cs|] eqn:E; [|discriminate].
  pose proof (utf8_dec_scalar (length s) s cs (le_n _) E) as Hs. rewrite Forall_forall in *. intros d Hd. apply in_flat_map in Hd.
  destruct Hd as (c & Hc & Hd). eapply lower_c_scalar; [apply Hs; exact Hc|exact Hd].
Qed.
Theorem spec_lower_idem s : utf8_valid s = true -> spec_lower cfg (spec_lower cfg s) = spec_lower cfg s.
Proof. intros Hv. unfold spec_lower at 1. rewrite chars_spec_lower by exact Hv. rewrite flat_lower_idem. reflexivity. Qed.
Theorem lowercase_str_idem s : utf8_valid s = true -> lowercase_str cfg (lowercase_str cfg s) = lowercase_str cfg s.
Proof.
  intros Hv. rewrite (lowercase_str_spec s Hv). rewrite lowercase_str_spec by (apply utf8_valid_spec_lower; exact Hv). apply spec_lower_idem. exact Hv.
Qed.
End L.
Print Assumptions lowercase_str_spec. Print Assumptions lowercase_str_idem.
