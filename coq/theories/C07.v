From Coq Require Import List NArith ZArith Bool Lia.
From Coq.Strings Require Import Byte.
From PM Require Import Base Lemmas Text TextLemmas Model Skeleton Segs.
Import ListNotations.
Local Open Scope N_scope.

Section C7. Variable cfg : config.
Context {T E : Type} (sh : shape T E).

(* the only thing C07 needs from a shape: its hook leaves namespace and subpath alone *)
Definition finish_keeps_segs : Prop := forall t p t1 p1, sh_finish sh t p = Ok (t1, p1) -> p_ns p1 = p_ns p /\ p_sub p1 = p_sub p.
Lemma build_keeps_segs t p t' p' : finish_keeps_segs -> build cfg sh t p = Ok (t', p') -> p_ns p' = p_ns p /\ p_sub p' = p_sub p.
Proof.
  intros FK. unfold build. destruct (sh_finish sh t p) as [[t1 p1]|e] eqn:Ef; [|discriminate]. apply FK in Ef.
  destruct (is_empty (p_name p1)); [discriminate|]. destruct (q_get cfg _ s_checksum) as [v|]; [|intros [= _ <-]; exact Ef].
  destruct (cs_try_from cfg v) as [m|]; [|discriminate]. destruct (cs_to_text m) as [txt|]; [|discriminate].
  destruct (q_insert cfg _ s_checksum txt); [|discriminate]. intros [= _ <-]. exact Ef.
Qed.

Definition raw_ns_pieces (r : raw) : list bytes := match r_ns r with Some n => ns_pieces n | None => [] end.
Definition raw_sub_pieces (r : raw) : list bytes := match r_sub r with Some n => sub_pieces n | None => [] end.
Definition good_ns_seg (d : bytes) : Prop := d <> [] /\ ~ In c_slash d /\ utf8_valid d = true.
Definition good_sub_seg (d : bytes) : Prop := d <> [] /\ ~ In c_slash d /\ is_dotseg d = false /\ utf8_valid d = true.

(* C07: the reported segments are exactly the decoded non-skipped raw pieces, and every one of them is a proper segment.
   No side condition on the configuration at all. *)
Theorem C07 s t p : finish_keeps_segs -> parse cfg sh s = Ok (t, p) ->
  exists r, WFr cfg r /\ s = asm r
   /\ p_ns p = join c_slash (map pdecode (raw_ns_pieces r)) /\ Forall good_ns_seg (map pdecode (raw_ns_pieces r))
   /\ p_sub p = join c_slash (map pdecode (raw_sub_pieces r)) /\ Forall good_sub_seg (map pdecode (raw_sub_pieces r)).
Proof.
  intros FK H. apply parse_sound in H. destruct H as (r & W & Hs & H). exists r. split; [exact W|]. split; [exact Hs|]. unfold checks in H.
  apply bind_ok in H. destruct H as (sub & H3 & H). apply lift_ok in H3.
  apply bind_ok in H. destruct H as (q & H4 & H).
  apply bind_ok in H. destruct H as (t0 & Ht & H).
  apply bind_ok in H. destruct H as (ver & H6 & H).
  apply bind_ok in H. destruct H as (ns & H7 & H). apply lift_ok in H7.
  apply bind_ok in H. destruct H as (name & Hn & H).
  destruct (build_keeps_segs _ _ _ _ FK H) as [S1 S4]. cbn [p_ns p_sub] in S1, S4. rewrite S1, S4.
  unfold raw_ns_pieces, raw_sub_pieces. split; [|split; [|split]].
  - destruct (r_ns r) as [n|]; cbn in H7; [apply decode_namespace_sound in H7; tauto|injection H7 as <-; reflexivity].
  - destruct (r_ns r) as [n|]; cbn in H7; [apply decode_namespace_sound in H7; tauto|constructor].
  - destruct (r_sub r) as [n|]; cbn in H3; [apply decode_subpath_sound in H3; tauto|injection H3 as <-; reflexivity].
  - destruct (r_sub r) as [n|]; cbn in H3; [apply decode_subpath_sound in H3; tauto|constructor].
Qed.
End C7.
Lemma G_keeps cfg : finish_keeps_segs (string_shape cfg).
Proof. intros t p t1 p1. cbn. unfold str_finish. destruct (valid_type cfg t); [intros [= _ <-]; auto|discriminate]. Qed.
Lemma P_keeps cfg : finish_keeps_segs (ptype_shape cfg).
Proof.
  intros t p t1 p1. cbn. unfold pt_finish. destruct t; try (intros [= _ <-]; auto).
  destruct (maven_ns_missing cfg (p_ns p)); [discriminate|intros [= _ <-]; auto].
Qed.
Print Assumptions C07.
