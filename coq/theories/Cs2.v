From Coq Require Import List NArith ZArith Bool Lia Sorted Permutation ZifyBool ZifyN.
From Coq.Strings Require Import Byte.
From PM Require Import Base Lemmas Text TextLemmas Model Quals Lower Lower2 Cs.
Import ListNotations.
Local Open Scope N_scope.

Lemma comma_ascii : bn c_comma < 128. Proof. vm_compute. reflexivity. Qed.
Lemma colon_ascii : bn c_colon < 128. Proof. vm_compute. reflexivity. Qed.

(* an ASCII byte occurs in a valid string iff its code point occurs among the characters *)
Lemma in_bytes_chars s b : utf8_valid s = true -> bn b < 128 -> (In b s <-> In (bn b) (chars s)).
Proof.
  intros Hv Hb. split.
  - intros Hin. apply in_split in Hin. destruct Hin as (x & y & ->). unfold utf8_valid, chars in *.
    destruct (utf8_dec (x ++ b :: y)) as [cs|] eqn:E; [|discriminate].
    destruct (utf8_dec_split_ascii (length x) x b y cs (le_n _) Hb E) as (ca & cb & _ & _ & ->). apply in_or_app. right. left. reflexivity.
  - intros Hin. rewrite <- (utf8_enc_chars s Hv). unfold utf8_enc. apply in_flat_map. exists (bn b). split; [exact Hin|].
    unfold enc1. replace (bn b <? 128) with true by lia. rewrite nb_bn. left. reflexivity.
Qed.

Section CS. Variable cfg : config.
Hypothesis Hasc : tbl_ascii_ok cfg = true.
Hypothesis Hscan : scan_lower_ne cfg = true.
Hypothesis Hfix : tbl_img_fixed cfg = true.
Hypothesis Hsc : tbl_img_scalar cfg = true.
(* lower-casing never produces a ',' out of something else *)
Definition tbl_no_comma : bool := forallb (fun e => negb (existsb (N.eqb 44) (snd e))) (lower_tbl cfg).
Hypothesis Hnc : tbl_no_comma = true.

Lemma lower_c_comma c : In 44 (lower_c cfg c) -> c = 44.
Proof.
  unfold lower_c. destruct (tbl_find (lower_tbl cfg) c) as [l|] eqn:E.
  - intros Hin. apply tbl_find_in in E. unfold tbl_no_comma in Hnc. rewrite forallb_forall in Hnc. specialize (Hnc _ E). cbn in Hnc.
    apply negb_true_iff in Hnc. assert (existsb (N.eqb 44) l = true) by (apply existsb_exists; exists 44; split; [exact Hin|apply N.eqb_refl]). congruence.
  - intros [<-|[]]. reflexivity.
Qed.
Lemma lowercase_no_comma a : utf8_valid a = true -> ~ In c_comma a -> ~ In c_comma (lowercase_str cfg a).
Proof.
  intros Hv Hn Hin. rewrite (lowercase_str_spec cfg Hasc Hscan a Hv) in Hin.
  apply (in_bytes_chars _ c_comma (utf8_valid_spec_lower cfg Hsc a Hv) comma_ascii) in Hin.
  rewrite (chars_spec_lower cfg Hsc a Hv) in Hin. apply in_flat_map in Hin. destruct Hin as (c & Hc & Hd).
  change (bn c_comma) with 44 in Hd. apply lower_c_comma in Hd. subst c. apply Hn.
  apply (in_bytes_chars a c_comma Hv comma_ascii). exact Hc.
Qed.

(* ---------- the parse loop ---------- *)
Definition alg_ok (a : bytes) : Prop := utf8_valid a = true /\ lowercase_str cfg a = a /\ ~ In c_comma a.
Definition cmap_ok (m : cmap) : Prop := NoDup (map fst m) /\ Forall (fun e => alg_ok (fst e)) m.

Lemma cm_get_none m k : ~ In k (map fst m) -> cm_get m k = None.
Proof. induction m as [|[a v] m IH]; cbn; [reflexivity|]. intros H. destruct (beqs a k) eqn:E; [apply beqs_true in E; subst; tauto|apply IH; tauto]. Qed.
Lemma cm_get_some_in m k v : cm_get m k = Some v -> In k (map fst m).
Proof. induction m as [|[a w] m IH]; cbn; [discriminate|]. destruct (beqs a k) eqn:E; [apply beqs_true in E; subst; auto|intros H; right; apply IH; exact H]. Qed.

End CS.
Print Assumptions lowercase_no_comma.
