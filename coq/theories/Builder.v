From Coq Require Import List NArith ZArith Bool Lia.
From Coq.Strings Require Import Byte.
From PM Require Import Base Lemmas Text TextLemmas Model Quals Quals2 Quals3 Quals4.
Import ListNotations.
Local Open Scope N_scope.

(* ---------------- GenericPurlBuilder: every public method is one record update ---------------- *)
Section B. Variable cfg : config.
Context {T : Type}.
Record bstate := { b_type : T; b_parts : parts }.
Inductive bop :=
| OType (t : T) | ONs (s : bytes) | OName (s : bytes) | OVer (s : bytes) | OSub (s : bytes)
| OQual (k v : bytes)            (* with_qualifier: may fail *)
| OUnqual (k : bytes) | OClearQuals.
Definition set_parts (b : bstate) (p : parts) := {| b_type := b_type b; b_parts := p |}.
Definition bstep (b : bstate) (o : bop) : result parse_error bstate :=
  let p := b_parts b in
  match o with
  | OType t => Ok {| b_type := t; b_parts := p |}
  | ONs s => Ok (set_parts b {| p_ns := s; p_name := p_name p; p_ver := p_ver p; p_quals := p_quals p; p_sub := p_sub p |})
  | OName s => Ok (set_parts b (with_name p s))
  | OVer s => Ok (set_parts b {| p_ns := p_ns p; p_name := p_name p; p_ver := s; p_quals := p_quals p; p_sub := p_sub p |})
  | OSub s => Ok (set_parts b {| p_ns := p_ns p; p_name := p_name p; p_ver := p_ver p; p_quals := p_quals p; p_sub := s |})
  | OQual k v => match q_insert cfg (p_quals p) k v with Ok q => Ok (set_parts b (with_quals p q)) | Err e => Err e end
  | OUnqual k => Ok (set_parts b (with_quals p (fst (q_remove cfg (p_quals p) k))))
  | OClearQuals => Ok (set_parts b (with_quals p []))
  end.
Fixpoint brun (b : bstate) (ops : list bop) : result parse_error bstate :=
  match ops with [] => Ok b | o :: t => match bstep b o with Ok b' => brun b' t | Err e => Err e end end.

(* which field an operation writes *)
Inductive fld := FT | FNs | FNm | FVr | FSb | FQ.
Definition wr (o : bop) : fld := match o with OType _ => FT | ONs _ => FNs | OName _ => FNm | OVer _ => FVr | OSub _ => FSb | _ => FQ end.
(* C09: calls on different fields commute *)
Theorem C09_commute b o1 o2 : wr o1 <> wr o2 ->
  (b1 <- bstep b o1 ;; bstep b1 o2) = (b2 <- bstep b o2 ;; bstep b2 o1).
Proof.
  intros H. destruct o1, o2; cbn in H; try congruence; cbn [bstep bind set_parts b_parts b_type with_name with_quals p_ns p_name p_ver p_quals p_sub]; try reflexivity;
    try (destruct (q_insert cfg _ _ _); reflexivity).
Qed.
(* C09: a later call on the same plain field overrides the earlier one *)
Theorem C09_override_name b s1 s2 : (b1 <- bstep b (OName s1) ;; bstep b1 (OName s2)) = bstep b (OName s2).
Proof. destruct b as [t [a n v q s]]. reflexivity. Qed.
Theorem C09_override_ns b s1 s2 : (b1 <- bstep b (ONs s1) ;; bstep b1 (ONs s2)) = bstep b (ONs s2).
Proof. destruct b as [t [a n v q s]]. reflexivity. Qed.
(* the qualifier invariant is kept by every history *)
Theorem C09_quals_inv (Hasc : tbl_ascii_ok cfg = true) (Hksp : key_special_ascii cfg = true) ops : forall b b',
  QInv cfg (p_quals (b_parts b)) -> brun b ops = Ok b' -> QInv cfg (p_quals (b_parts b')).
Proof.
  induction ops as [|o ops IH]; intros b b' HQ; cbn [brun]; [intros [= <-]; exact HQ|].
  destruct (bstep b o) as [b1|e] eqn:E; [|discriminate]. apply IH.
  destruct o; cbn [bstep] in E; try (injection E as <-; exact HQ).
  - destruct (q_insert cfg (p_quals (b_parts b)) k v) as [q|e] eqn:Ei; [|discriminate]. injection E as <-. cbn. eapply q_insert_inv; eassumption.
  - injection E as <-. cbn [b_parts set_parts p_quals with_quals]. destruct (valid_key cfg k) eqn:Hv.
    + apply (q_remove_spec cfg Hasc Hksp _ k HQ Hv).
    + rewrite (q_remove_invalid cfg _ _ Hv). exact HQ.
  - injection E as <-. cbn. apply QInv_nil.
Qed.
End B.
Print Assumptions C09_commute. Print Assumptions C09_quals_inv.
