From Coq Require Import List NArith ZArith Bool Lia Sorted.
From Coq.Strings Require Import Byte.
From PM Require Import Base Lemmas Text TextLemmas Model Skeleton Segs Quals Quals2 Quals3 Canon Canon2 DecQual Roundtrip ParseInv Lower Lower2 Lower3 Cs Cs2 Cs3 Cs4.
Import ListNotations.
Local Open Scope N_scope.

Section BG. Variable cfg : config.
Hypothesis Hasc : tbl_ascii_ok cfg = true.
Hypothesis Hksp : key_special_ascii cfg = true.
Hypothesis Hsa : scan_ascii_ok cfg = true.
Hypothesis Hfix : tbl_img_fixed cfg = true.
Hypothesis Hsc : tbl_img_scalar cfg = true.
Hypothesis Hnc : tbl_no_comma cfg = true.
Hypothesis Hck : valid_key cfg s_checksum = true.
Let G := string_shape cfg.

Lemma valid_type_mal t : valid_type cfg t = true -> valid_type cfg (make_ascii_lowercase t) = true.
Proof.
  unfold valid_type, make_ascii_lowercase. rewrite !andb_true_iff. intros [H1 H2]. split; [destruct t; [discriminate|reflexivity]|].
  rewrite forallb_forall in *. intros b Hb. apply in_map_iff in Hb. destruct Hb as (b0 & <- & Hb0). specialize (H2 b0 Hb0).
  rewrite lower_ascii_b_class. destruct (is_alnum b0) eqn:Ea; [reflexivity|]. rewrite lower_ascii_b_special by exact Ea. exact H2.
Qed.
Lemma filter_vals_id (q : quals) : vals_ok q -> q_retain (fun _ v => negb (is_empty v)) q = q.
Proof.
  unfold q_retain. induction 1 as [|[k v] q [Hne _] Hq IH]; [reflexivity|]. cbn in *. replace (is_empty v) with false by (destruct v; [congruence|reflexivity]).
  cbn. rewrite IH. reflexivity.
Qed.

Definition same_fields (p p' : parts) := p_ns p' = p_ns p /\ p_name p' = p_name p /\ p_ver p' = p_ver p /\ p_sub p' = p_sub p.

Theorem build_G_stable t p t' p' : fields_valid cfg p -> build cfg G t p = Ok (t', p') ->
  t' = make_ascii_lowercase t /\ valid_type cfg t' = true /\ p_name p' <> [] /\ fields_valid cfg p' /\ same_fields p p'
  /\ build cfg G t' p' = Ok (t', p').
Proof.
  intros (Vns & Vname & Vver & Vsub & HQ & HV). unfold build. cbn [sh_finish G string_shape]. unfold str_finish.
  destruct (valid_type cfg t) eqn:Evt; [|discriminate]. cbn [sh_inj].
  destruct (is_empty (p_name p)) eqn:En; [discriminate|]. rewrite (filter_vals_id _ HV).
  assert (Hvt' : valid_type cfg (make_ascii_lowercase t) = true) by (apply valid_type_mal; exact Evt).
  assert (Hne : p_name p <> []) by (apply is_empty_false; exact En).
  destruct (q_get cfg (p_quals p) s_checksum) as [v|] eqn:Eg.
  - pose proof (q_get_in cfg Hasc Hksp _ _ _ HQ Hck Eg) as Hin. unfold vals_ok in HV. rewrite Forall_forall in HV. destruct (HV _ Hin) as [_ Hvv]. cbn in Hvv.
    destruct (cs_try_from cfg v) as [m|e] eqn:Ep; [|discriminate]. destruct (cs_to_text m) as [txt|e] eqn:Et; [|discriminate].
    destruct (q_insert cfg (p_quals p) s_checksum txt) as [q2|e] eqn:Ei; [|discriminate]. intros [= <- <-].
    destruct (cs_fix cfg Hasc Hsa Hfix Hsc Hnc v m txt Hvv Ep Et) as (F1 & F2 & F3 & F4).
    pose proof (q_insert_inv cfg Hasc Hksp _ _ _ _ HQ Ei) as HQ2.
    assert (HV2 : vals_ok q2).
    { unfold vals_ok. refine (q_insert_vals cfg Hasc Hksp (fun v => v <> [] /\ utf8_valid v = true) (p_quals p) s_checksum txt q2 HQ _ (conj F3 F4) Ei).
      apply Forall_forall. exact HV. }
    pose proof (q_get_insert_same cfg Hasc Hksp _ _ _ _ HQ Ei) as Eg2.
    split; [reflexivity|]. split; [exact Hvt'|]. split; [exact Hne|].
    split; [unfold fields_valid; cbn [p_ns p_name p_ver p_sub p_quals with_quals]; tauto|].
    split; [unfold same_fields; cbn [p_ns p_name p_ver p_sub p_quals with_quals]; tauto|].
    unfold build; cbn [sh_finish sh_inj G string_shape]; unfold str_finish; cbn [p_name p_quals with_quals].
    rewrite Hvt'. cbn [p_name p_quals with_quals]. rewrite En. rewrite (filter_vals_id _ HV2). rewrite Eg2, F1, F2.
    rewrite (q_insert_same_id cfg Hasc Hksp _ _ _ HQ2 Hck Eg2). fold (lk t). rewrite lk_idem. reflexivity.
  - intros [= <- <-]. pose proof HV as HV'.
    split; [reflexivity|]. split; [exact Hvt'|]. split; [exact Hne|].
    split; [unfold fields_valid; cbn [p_ns p_name p_ver p_sub p_quals with_quals]; tauto|].
    split; [unfold same_fields; cbn [p_ns p_name p_ver p_sub p_quals with_quals]; tauto|].
    unfold build; cbn [sh_finish sh_inj G string_shape]; unfold str_finish; cbn [p_name p_quals with_quals].
    rewrite Hvt'. cbn [p_name p_quals with_quals]. rewrite En. rewrite (filter_vals_id _ HV'). rewrite Eg. fold (lk t). rewrite lk_idem. destruct p; reflexivity.
Qed.

(* C01 for the type-agnostic PURL *)
End BG.
Section BG1. Variable cfg : config.
Hypothesis R : rt_ok cfg.
Hypothesis Hsa : scan_ascii_ok cfg = true.
Hypothesis Hfix : tbl_img_fixed cfg = true.
Hypothesis Hsc : tbl_img_scalar cfg = true.
Hypothesis Hnc : tbl_no_comma cfg = true.
Hypothesis Hck : valid_key cfg s_checksum = true.
Let Hasc := rt_asc cfg R.
Let Hksp := rt_ksp cfg R.
Let G := string_shape cfg.
Theorem C01_G s t p : parse cfg G s = Ok (t, p) ->
  format_panics cfg G t = false /\ parse cfg G (format cfg G t p) = Ok (t, p).
Proof.
  intros H. apply parse_sound in H. destruct H as (r & _ & _ & H). unfold checks in H.
  apply bind_ok in H. destruct H as (sub & H3 & H). apply lift_ok in H3.
  apply bind_ok in H. destruct H as (q & H4 & H). apply lift_ok in H4.
  apply bind_ok in H. destruct H as (t0 & Ht & H). cbn [sh_from_str G string_shape] in Ht. injection Ht as <-.
  apply bind_ok in H. destruct H as (ver & H6 & H). apply lift_ok in H6.
  apply bind_ok in H. destruct H as (ns & H7 & H). apply lift_ok in H7.
  apply bind_ok in H. destruct H as (name & Hn & H). apply lift_ok in Hn.
  destruct (checks_fields cfg Hasc Hksp r sub q ver ns name H3 H4 H6 H7 Hn) as [FV SI].
  destruct (build_G_stable cfg Hasc Hksp Hsa Hfix Hsc Hnc Hck _ _ _ _ FV H) as (-> & Hvt & Hne & FV' & (S1 & S2 & S3 & S4) & Hb).
  split; [unfold format_panics; cbn [sh_type G string_shape]; rewrite Hvt; reflexivity|].
  rewrite (parse_format cfg G _ p R Hvt FV'). cbn [sh_from_str sh_type G string_shape bind].
  replace (norm_parts p) with p; [exact Hb|].
  unfold norm_parts. unfold seg_inv in SI. cbn [p_ns p_sub] in SI. destruct SI as [SI1 SI2].
  cbn [p_ns p_name p_ver p_sub] in S1, S4. rewrite S1, S4, SI1, SI2. rewrite <- S1, <- S4. destruct p; reflexivity.
Qed.

End BG1.
Print Assumptions C01_G.
