From Coq Require Import List NArith Bool.
From Coq.Strings Require Import Byte.
From PM Require Import Base Text Model.
Import ListNotations.
(* ---------------- C16: the serde form is the string form ----------------
   The serde data model as far as this crate looks at it.  A deserializer may hand a string to the visitor in three ways
   (transient &str, borrowed &'de str, owned String); serde's default visit_borrowed_str and visit_string forward to visit_str,
   and the crate's visitor implements visit_str only (checked on the source by the translator: exactly one visit_* method,
   deserialize_str, collect_str).  Every other kind of value reaches a default visit_* method, which is an error. *)
Section C16S. Variable cfg : config.
Context {T E : Type} (sh : shape T E).
Inductive str_flavour := Transient | Borrowed | Owned.
Inductive value := VStr (f : str_flavour) (s : bytes) | VOther.
Definition visit_str (s : bytes) : result E (T * parts) := parse cfg sh s.                 (* the one method the visitor implements *)
Definition visit (err_not_string : E) (v : value) : result E (T * parts) :=
  match v with
  | VStr Transient s => visit_str s
  | VStr Borrowed s => visit_str s          (* default visit_borrowed_str -> visit_str *)
  | VStr Owned s => visit_str s             (* default visit_string -> visit_str *)
  | VOther => Err err_not_string
  end.
Definition ser (x : T * parts) : value := VStr Owned (format cfg sh (fst x) (snd x)).      (* Serialize = collect_str(Display) *)
Definition de := visit.
Theorem C16_string_iff e f s : de e (VStr f s) = parse cfg sh s. Proof. destruct f; reflexivity. Qed.
Theorem C16_other e : de e VOther = Err e. Proof. reflexivity. Qed.
(* the JSON round trip is C01 *)
Theorem C16_roundtrip e x : parse cfg sh (format cfg sh (fst x) (snd x)) = Ok x -> de e (ser x) = Ok x.
Proof. intros H. exact H. Qed.
End C16S.
Print Assumptions C16_roundtrip.
