From Coq Require Import List NArith Bool Lia.
From Coq.Strings Require Import Byte.
From PM Require Import Base Text Model Lemmas TextLemmas.
Import ListNotations.
(* ---------------- C16: the serde form is the string form ----------------
   The serde data model as far as this crate looks at it.  A deserializer may hand a string to the visitor in three ways
   (transient &str, borrowed &'de str, owned String); serde's default visit_borrowed_str and visit_string forward to visit_str,
   and the crate's visitor implements visit_str only (checked on the source by the translator: exactly one visit_* method,
   deserialize_str, collect_str).  Every other kind of value reaches a default visit_* method, which is an error. *)
Section C16S. Variable cfg : config.
Context {T E : Type} (sh : shape T E).
Inductive str_flavour := Transient | Borrowed | Owned.
(* the other values of the serde data model this crate can be handed: a char (serde's default visit_char forwards to visit_str with the
   character's UTF-8 encoding), a byte array in any of its three flavours (default visit_bytes / visit_borrowed_bytes / visit_byte_buf:
   invalid type), everything else (default visit_*: invalid type) *)
Inductive value := VStr (f : str_flavour) (s : bytes) | VChar (c : N) | VBytes (b : bytes) | VOther.
Definition visit_str (s : bytes) : result E (T * parts) := parse cfg sh s.                 (* the one method the visitor implements *)
Definition visit (err_not_string : E) (v : value) : result E (T * parts) :=
  match v with
  | VStr Transient s => visit_str s
  | VStr Borrowed s => visit_str s          (* default visit_borrowed_str -> visit_str *)
  | VStr Owned s => visit_str s             (* default visit_string -> visit_str *)
  | VChar c => visit_str (enc1 c)            (* default visit_char -> visit_str *)
  | VBytes _ => Err err_not_string
  | VOther => Err err_not_string
  end.
Definition ser (x : T * parts) : value := VStr Owned (format cfg sh (fst x) (snd x)).      (* Serialize = collect_str(Display) *)
Definition de := visit.
Theorem C16_string_iff e f s : de e (VStr f s) = parse cfg sh s. Proof. destruct f; reflexivity. Qed.
Theorem C16_other e : de e VOther = Err e. Proof. reflexivity. Qed.
Theorem C16_bytes e b : de e (VBytes b) = Err e. Proof. reflexivity. Qed.
Theorem C16_char e c : de e (VChar c) = parse cfg sh (enc1 c). Proof. reflexivity. Qed.
(* the JSON round trip is C01 *)
Theorem C16_roundtrip e x : parse cfg sh (format cfg sh (fst x) (snd x)) = Ok x -> de e (ser x) = Ok x.
Proof. intros H. exact H. Qed.
End C16S.
Local Open Scope N_scope.
(* a single character never carries the scheme prefix: a char value is refused like any other string without `pkg:` *)
Lemma strip_pkg_enc1 c : strip_prefix s_pkg (enc1 c) = None.
Proof.
  unfold enc1, s_pkg.
  destruct (c <? 128); [cbn [strip_prefix]; destruct (beq _ _); reflexivity|].
  destruct (c <? 2048); [cbn [strip_prefix]; repeat (destruct (beq _ _); try reflexivity)|].
  destruct (c <? 65536); [cbn [strip_prefix]; repeat (destruct (beq _ _); try reflexivity)|].
  cbn [strip_prefix]. destruct (beq "p"%byte _); [|reflexivity].
  destruct (beq "k"%byte (nb (128 + (c / 4096) mod 64))) eqn:E; [|reflexivity].
  exfalso. apply beq_true in E.
  assert (H : bn (nb (128 + (c / 4096) mod 64)) = 128 + (c / 4096) mod 64).
  { apply bn_nb. pose proof (N.mod_upper_bound (c / 4096) 64). lia. }
  rewrite <- E in H. change (bn "k"%byte) with 107 in H. pose proof (N.mod_upper_bound (c / 4096) 64). lia.
Qed.
Print Assumptions C16_roundtrip.
