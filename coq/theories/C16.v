From Coq Require Import List NArith Bool.
From Coq.Strings Require Import Byte.
From PM Require Import Base Text Model.
Import ListNotations.
(* ---------------- C16: the serde form is the string form ---------------- *)
Section C16S. Variable cfg : config.
Context {T E : Type} (sh : shape T E).
Inductive value := VStr (s : bytes) | VOther.                 (* the serde data model, as far as this crate looks at it *)
Definition ser (x : T * parts) : value := VStr (format cfg sh (fst x) (snd x)).      (* Serialize = collect_str(Display) *)
Definition de (err_not_string : E) (v : value) : result E (T * parts) :=            (* Deserialize = visit_str -> from_str *)
  match v with VStr s => parse cfg sh s | VOther => Err err_not_string end.
Theorem C16_string_iff e s : de e (VStr s) = parse cfg sh s. Proof. reflexivity. Qed.
Theorem C16_other e : de e VOther = Err e. Proof. reflexivity. Qed.
(* the JSON round trip is C01 *)
Theorem C16_roundtrip e x : parse cfg sh (format cfg sh (fst x) (snd x)) = Ok x -> de e (ser x) = Ok x.
Proof. intros H. exact H. Qed.
End C16S.
Print Assumptions C16_roundtrip.
