From Coq Require Import List NArith ZArith Bool Lia Sorted.
From Coq.Strings Require Import Byte.
From PM Require Import Base Lemmas Text TextLemmas Model Skeleton Quals Canon DecQual Roundtrip.
Import ListNotations.

Section INJ. Variable cfg : config.
Context {T E : Type} (sh : shape T E).

(* a left inverse of asm: pure splitting, no decoding *)
Definition skel (s : bytes) : option raw :=
  match strip_prefix s_pkg s with None => None | Some s1 =>
  let s2 := trim_start c_slash s1 in
  let '(s3, sub) := xsplit_opt (dir_sub cfg) c_hash s2 in
  let '(s4, q) := xsplit_opt (dir_qual cfg) c_qm s3 in
  match split_once c_slash s4 with None => None | Some (ty, s5) =>
  let '(s6, ver) := xsplit_opt (dir_ver cfg) c_at s5 in
  let '(ns, name) := rsplit_optl c_slash s6 in
  Some {| r_lead := length s1 - length s2; r_ty := ty; r_ns := ns; r_name := name; r_ver := ver; r_q := q; r_sub := sub |}
  end end.

Lemma rsplit_optl_optl c o b : ~ In c b -> rsplit_optl c (optl o c ++ b) = (o, b).
Proof.
  intros H. unfold rsplit_optl. destruct o as [v|]; cbn.
  - rewrite <- app_assoc. cbn. rewrite rsplit_once_app by exact H. reflexivity.
  - rewrite rsplit_once_none by exact H. reflexivity.
Qed.

Theorem skel_asm r : cfg_ok cfg -> WFr cfg r -> skel (asm r) = Some r.
Proof.
  intros [C1 C2 C3] [Hty Hns Hat Hqm Hhash]. unfold noc, noco, sep_ok in *.
  assert (Hal : is_alnum c_slash = false /\ is_alnum c_hash = false /\ is_alnum c_qm = false) by (vm_compute; auto).
  destruct Hal as (Ha1 & Ha2 & Ha3).
  pose proof (valid_type_no cfg _ c_slash Hty Ha1 C1) as T1.
  pose proof (valid_type_no cfg _ c_hash Hty Ha2 C2) as T2.
  pose proof (valid_type_no cfg _ c_qm Hty Ha3 C3) as T3.
  destruct r as [lead ty ns name ver q sub]. cbn [r_lead r_ty r_ns r_name r_ver r_q r_sub] in *.
  unfold skel, asm. cbn [r_lead r_ty r_ns r_name r_ver r_q r_sub]. rewrite strip_prefix_app.
  set (pth := path {| r_lead := lead; r_ty := ty; r_ns := ns; r_name := name; r_ver := ver; r_q := q; r_sub := sub |}) in *.
  set (rest := ty ++ c_slash :: pth ++ opt c_at ver ++ opt c_qm q ++ opt c_hash sub).
  assert (Htrim : trim_start c_slash (repeat c_slash lead ++ rest) = rest).
  { apply trim_start_repeat. intros u. unfold rest. destruct ty as [|x ty']; [discriminate Hty|]. cbn. intros [= -> _]. apply T1. left. reflexivity. }
  rewrite Htrim. rewrite app_length, repeat_length. replace (lead + length rest - length rest)%nat with lead by lia.
  set (b4 := ty ++ c_slash :: pth ++ opt c_at ver). set (b3 := b4 ++ opt c_qm q).
  replace rest with (b3 ++ opt c_hash sub) by (unfold rest, b3, b4; rewrite <- !app_assoc; cbn; rewrite <- !app_assoc; reflexivity).
  assert (Hin4 : forall c, In c b4 -> In c ty \/ c = c_slash \/ In c pth \/ c = c_at \/ match ver with Some v => In c v | None => False end).
  { unfold b4. intros c Hin. apply in_app_or in Hin. destruct Hin as [Hin|[Hin|Hin]]; auto.
    apply in_app_or in Hin. destruct Hin as [Hin|Hin]; auto. apply in_opt in Hin. tauto. }
  assert (Hin3 : forall c, In c b3 -> In c b4 \/ c = c_qm \/ match q with Some v => In c v | None => False end).
  { unfold b3. intros c Hin. apply in_app_or in Hin. destruct Hin as [Hin|Hin]; auto. apply in_opt in Hin. tauto. }
  assert (Hb3 : noc c_hash pth /\ noco c_hash ver /\ noco c_hash q -> ~ In c_hash b3).
  { unfold noc, noco. intros (H1 & H2 & H3) Hin. apply Hin3 in Hin. destruct Hin as [Hin|[Hin|Hin]]; [|discriminate Hin|destruct q; tauto].
    apply Hin4 in Hin. destruct Hin as [Hin|[Hin|[Hin|[Hin|Hin]]]]; try tauto; try discriminate Hin. destruct ver; tauto. }
  assert (Hb4 : noc c_qm pth /\ noco c_qm ver -> ~ In c_qm b4).
  { unfold noc, noco. intros (H1 & H2) Hin. apply Hin4 in Hin. destruct Hin as [Hin|[Hin|[Hin|[Hin|Hin]]]]; try tauto; try discriminate Hin. destruct ver; tauto. }
  rewrite xsplit_opt_opt.
  2:{ destruct sub as [sp|]; [destruct (dir_sub cfg); [exact Hhash|apply Hb3; exact Hhash]|apply Hb3; exact Hhash]. }
  unfold b3. rewrite xsplit_opt_opt.
  2:{ destruct q as [qs|]; [destruct (dir_qual cfg); [exact Hqm|apply Hb4; exact Hqm]|apply Hb4; exact Hqm]. }
  unfold b4. rewrite split_once_app by exact T1.
  rewrite xsplit_opt_opt.
  2:{ destruct ver as [v|]; [destruct (dir_ver cfg); exact Hat|exact Hat]. }
  unfold pth, path. cbn [r_ns r_name]. rewrite rsplit_optl_optl by exact Hns. reflexivity.
Qed.
Corollary asm_inj r1 r2 : cfg_ok cfg -> WFr cfg r1 -> WFr cfg r2 -> asm r1 = asm r2 -> r1 = r2.
Proof. intros C W1 W2 H. pose proof (skel_asm r1 C W1) as E1. rewrite H, (skel_asm r2 C W2) in E1. congruence. Qed.
End INJ.
Print Assumptions asm_inj.
