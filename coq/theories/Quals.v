From Coq Require Import List NArith ZArith Bool Lia Sorted ZifyBool ZifyN.
From Coq.Strings Require Import Byte.
From PM Require Import Base Lemmas Text TextLemmas Model.
Import ListNotations.
Local Open Scope N_scope.

(* ---------- byte-string order ---------- *)
Lemma bcmp_refl a : bcmp a a = Eq.
Proof. induction a as [|x a IH]; cbn; [reflexivity|]. rewrite N.compare_refl. exact IH. Qed.
Lemma bcmp_eq a b : bcmp a b = Eq <-> a = b.
Proof.
  split; [|intros ->; apply bcmp_refl]. revert b. induction a as [|x a IH]; intros [|y b]; cbn; try discriminate; [reflexivity|].
  destruct (N.compare (bn x) (bn y)) eqn:E; try discriminate. apply N.compare_eq in E. apply bn_inj in E. subst y.
  intros H. f_equal. apply IH. exact H.
Qed.
Lemma bcmp_antisym a b : bcmp b a = CompOpp (bcmp a b).
Proof.
  revert b. induction a as [|x a IH]; intros [|y b]; cbn; try reflexivity.
  rewrite (N.compare_antisym (bn x) (bn y)). destruct (N.compare (bn x) (bn y)); cbn; auto.
Qed.
Lemma bcmp_lt_trans a b c : bcmp a b = Lt -> bcmp b c = Lt -> bcmp a c = Lt.
Proof.
  revert b c. induction a as [|x a IH]; intros [|y b] [|z c]; cbn; try discriminate; try reflexivity.
  destruct (N.compare (bn x) (bn y)) eqn:E1; try discriminate; destruct (N.compare (bn y) (bn z)) eqn:E2; try discriminate; intros H1 H2.
  - apply N.compare_eq in E1, E2. rewrite E1, E2, N.compare_refl. eapply IH; eassumption.
  - apply N.compare_eq in E1. rewrite E1, E2. reflexivity.
  - apply N.compare_eq in E2. rewrite <- E2, E1. reflexivity.
  - rewrite N.compare_lt_iff in *. replace (N.compare (bn x) (bn z)) with Lt; [reflexivity|]. symmetry. apply N.compare_lt_iff. lia.
Qed.
Lemma lcmp_map_bn a b : lcmp (map bn a) (map bn b) = bcmp a b.
Proof. revert b. induction a as [|x a IH]; intros [|y b]; cbn; try reflexivity. rewrite IH. reflexivity. Qed.

Section Q. Variable cfg : config.
Definition ascii_lower_n (c : N) : N := if inr 65 90 c then c + 32 else c.
Definition tbl_ascii_ok : bool :=
  forallb (fun c => leqb (lower_c cfg c) [ascii_lower_n c]) (map N.of_nat (seq 0 128)).
Definition key_special_ascii : bool := forallb (fun b => bn b <? 128) (key_special cfg).
Hypothesis Hasc : tbl_ascii_ok = true.
Hypothesis Hksp : key_special_ascii = true.

Lemma leqb_eq a b : leqb a b = true -> a = b.
Proof. revert b. induction a as [|x a IH]; intros [|y b]; cbn; try discriminate; [reflexivity|]. rewrite andb_true_iff, N.eqb_eq. intros [-> H]. f_equal. apply IH. exact H. Qed.
Lemma lower_c_ascii c : c < 128 -> lower_c cfg c = [ascii_lower_n c].
Proof.
  intros H. unfold tbl_ascii_ok in Hasc. rewrite forallb_forall in Hasc. apply leqb_eq. apply Hasc.
  apply in_map_iff. exists (N.to_nat c). split; [lia|]. apply in_seq. lia.
Qed.
Lemma utf8_dec_ascii k : is_ascii_str k = true -> utf8_dec k = Some (map bn k).
Proof.
  induction k as [|b k IH]; [reflexivity|]. cbn [is_ascii_str forallb]. rewrite andb_true_iff. intros [Hb Hk].
  rewrite utf8_dec_ascii_cons by lia. rewrite (IH Hk). reflexivity.
Qed.
Lemma chars_ascii k : is_ascii_str k = true -> chars k = map bn k.
Proof. intros H. unfold chars. rewrite utf8_dec_ascii by exact H. reflexivity. Qed.
Lemma bn_lower_ascii_b b : bn b < 128 -> bn (lower_ascii_b b) = ascii_lower_n (bn b).
Proof.
  intros H. unfold lower_ascii_b, is_upper_ascii, ascii_lower_n. destruct (inr 65 90 (bn b)) eqn:E; [|reflexivity].
  apply bn_nb. unfold inr in E. lia.
Qed.
Lemma lower_chars_ascii k : is_ascii_str k = true -> flat_map (lower_c cfg) (map bn k) = map bn (make_ascii_lowercase k).
Proof.
  induction k as [|b k IH]; [reflexivity|]. cbn [is_ascii_str forallb]. rewrite andb_true_iff. intros [Hb Hk].
  cbn [map flat_map make_ascii_lowercase]. rewrite lower_c_ascii by lia. rewrite bn_lower_ascii_b by lia. cbn. f_equal. apply IH. exact Hk.
Qed.
Lemma alnum_ascii b : is_alnum b = true -> bn b < 128.
Proof. unfold is_alnum, is_upper_ascii, is_lower_ascii, is_digit, inr. lia. Qed.
Lemma valid_key_ascii k : valid_key cfg k = true -> is_ascii_str k = true.
Proof.
  unfold valid_key, is_ascii_str. rewrite andb_true_iff, !forallb_forall. intros [_ H] b Hb. specialize (H b Hb).
  apply orb_true_iff in H. destruct H as [H|H]; [apply alnum_ascii in H; lia|].
  unfold key_special_ascii in Hksp. rewrite forallb_forall in Hksp. apply Hksp. apply mem_In. exact H.
Qed.
Definition lk (k : bytes) := make_ascii_lowercase k.
Lemma qkey_cmp_valid stored k : is_ascii_str stored = true -> valid_key cfg k = true -> qkey_cmp cfg stored k = bcmp stored (lk k).
Proof.
  intros Hs Hk. unfold qkey_cmp. pose proof (valid_key_ascii k Hk) as Ha.
  rewrite (chars_ascii stored Hs), (chars_ascii k Ha), lower_chars_ascii by assumption. apply lcmp_map_bn.
Qed.

(* ---------- the collection invariant ---------- *)
Definition klt (a b : bytes) : Prop := bcmp a b = Lt.
Definition canon_key (k : bytes) : Prop := valid_key cfg k = true /\ lk k = k.
Definition QInv (q : quals) : Prop := StronglySorted klt (map fst q) /\ Forall canon_key (map fst q).

Lemma lower_ascii_b_idem b : lower_ascii_b (lower_ascii_b b) = lower_ascii_b b.
Proof. destruct b; reflexivity. Qed.
Lemma lk_idem k : lk (lk k) = lk k.
Proof. unfold lk, make_ascii_lowercase. rewrite map_map. apply map_ext. intros b. apply lower_ascii_b_idem. Qed.
Lemma lower_ascii_b_class b : is_alnum (lower_ascii_b b) = is_alnum b.
Proof. destruct b; reflexivity. Qed.
Lemma lower_ascii_b_special b : is_alnum b = false -> lower_ascii_b b = b.
Proof. destruct b; cbn; try reflexivity; discriminate. Qed.
Lemma valid_key_lk k : valid_key cfg k = true -> valid_key cfg (lk k) = true.
Proof.
  unfold valid_key, lk, make_ascii_lowercase. rewrite !andb_true_iff. intros [H1 H2]. split; [destruct k; [discriminate|reflexivity]|].
  rewrite forallb_forall in *. intros b Hb. apply in_map_iff in Hb. destruct Hb as (b0 & <- & Hb0). specialize (H2 b0 Hb0).
  rewrite lower_ascii_b_class. destruct (is_alnum b0) eqn:Ea; [reflexivity|]. rewrite lower_ascii_b_special by exact Ea. exact H2.
Qed.
Lemma into_key_lk m k : check_key cfg k = Ok m -> into_key m = lk k /\ mixed_str m = k /\ valid_key cfg k = true.
Proof.
  unfold check_key. destruct (valid_key cfg k) eqn:Ev; [|discriminate]. destruct (forallb is_lower_ascii k) eqn:El; intros [= <-]; cbn; repeat split.
  unfold lk, make_ascii_lowercase. rewrite forallb_forall in El. clear Ev. induction k as [|b k IH]; [reflexivity|].
  cbn [map]. rewrite <- IH by (intros x Hx; apply El; right; exact Hx). f_equal.
  specialize (El b (or_introl eq_refl)). unfold lower_ascii_b, is_upper_ascii, is_lower_ascii, inr in *.
  replace ((65 <=? bn b) && (bn b <=? 90)) with false by lia. reflexivity.
Qed.

(* ---------- search on a sorted list ---------- *)
Lemma search_from_spec q : QInv q -> forall k i, valid_key cfg k = true ->
  match search_from cfg q k i with
  | Found j => exists pre v post, q = pre ++ (lk k, v) :: post /\ j = (i + length pre)%nat
  | NotFound j => exists pre post, q = pre ++ post /\ j = (i + length pre)%nat
                   /\ Forall (fun kv => klt (fst kv) (lk k)) pre /\ Forall (fun kv => klt (lk k) (fst kv)) post
  end.
Proof.
  induction q as [|[qk qv] t IH]; intros [Hs Hc] k i Hk; cbn [search_from].
  - exists [], []. repeat split; try constructor. cbn. lia.
  - cbn [map fst] in Hs, Hc. inversion Hs as [|? ? Hs' Hlt]; subst. inversion Hc as [|? ? [Hqv Hql] Hc']; subst.
    rewrite qkey_cmp_valid by (try apply valid_key_ascii; assumption).
    destruct (bcmp qk (lk k)) eqn:Ecmp.
    + apply bcmp_eq in Ecmp. subst qk. exists [], qv, t. split; [reflexivity|]. cbn. lia.
    + specialize (IH (conj Hs' Hc') k (S i) Hk). destruct (search_from cfg t k (S i)) as [j|j].
      * destruct IH as (pre & v & post & -> & ->). exists ((qk, qv) :: pre), v, post. split; [reflexivity|]. cbn. lia.
      * destruct IH as (pre & post & -> & -> & H1 & H2). exists ((qk, qv) :: pre), post. repeat split; [cbn; lia| |exact H2].
        constructor; [exact Ecmp|exact H1].
    + exists [], ((qk, qv) :: t). repeat split; [cbn; lia|constructor|].
      assert (Hk' : klt (lk k) qk) by (unfold klt; rewrite bcmp_antisym, Ecmp; reflexivity).
      constructor; [exact Hk'|]. rewrite Forall_map in Hlt. eapply Forall_impl; [|exact Hlt]. intros [a b] Hab. cbn in *.
      eapply bcmp_lt_trans; eassumption.
Qed.

(* inserting at the end when all stored keys are smaller: the situation of decode_quals on a canonical string *)
Lemma search_append q k : QInv q -> valid_key cfg k = true -> Forall (fun kv => klt (fst kv) (lk k)) q ->
  search_from cfg q k 0 = NotFound (length q).
Proof.
  intros HQ Hk Hall. pose proof (search_from_spec q HQ k 0%nat Hk) as S. destruct (search_from cfg q k 0) as [j|j].
  - destruct S as (pre & v & post & -> & _). apply Forall_app in Hall. destruct Hall as [_ Hall]. inversion Hall as [|? ? Hbad _]; subst.
    unfold klt in Hbad. cbn in Hbad. rewrite bcmp_refl in Hbad. discriminate.
  - destruct S as (pre & post & -> & -> & H1 & H2). destruct post as [|[pk pv] post]; [rewrite app_nil_r; reflexivity|].
    apply Forall_app in Hall. destruct Hall as [_ Hall]. inversion Hall as [|? ? Hb1 _]; subst. inversion H2 as [|? ? Hb2 _]; subst.
    unfold klt in *. cbn in *. rewrite bcmp_antisym, Hb1 in Hb2. discriminate.
Qed.
End Q.
