From Coq Require Import List NArith ZArith Bool Lia ZifyBool ZifyN.
From Coq.Strings Require Import Byte.
From PM Require Import Base Lemmas Text TextLemmas Model Quals.
Import ListNotations.
Local Open Scope N_scope.

(* ---------- make_ascii_lowercase seen at the level of scalar values ---------- *)
Definition alow (c : N) : N := if c <? 128 then ascii_lower_n c else c.
Lemma lower_ascii_b_hi b : 128 <= bn b -> lower_ascii_b b = b.
Proof. intros H. unfold lower_ascii_b, is_upper_ascii, inr. replace ((65 <=? bn b) && (bn b <=? 90)) with false by lia. reflexivity. Qed.
Lemma bn_lower_lo b : bn b < 128 -> bn (lower_ascii_b b) = ascii_lower_n (bn b) /\ bn (lower_ascii_b b) < 128.
Proof.
  intros H. unfold lower_ascii_b, is_upper_ascii, ascii_lower_n, inr. destruct ((65 <=? bn b) && (bn b <=? 90)) eqn:E.
  - rewrite bn_nb by lia. lia. - lia.
Qed.
Lemma cont_hi b : cont b = true -> 128 <= bn b. Proof. unfold cont, inr. lia. Qed.
Lemma utf8_dec_lowercase : forall n s, (length s <= n)%nat ->
  utf8_dec (make_ascii_lowercase s) = option_map (map alow) (utf8_dec s).
Proof.
  induction n as [|n IH]; intros s Hlen; [destruct s; [reflexivity|cbn in Hlen; lia]|].
  destruct s as [|b0 t]; [reflexivity|]. cbn [length] in Hlen. cbn [make_ascii_lowercase map].
  destruct (bn b0 <? 128) eqn:E1.
  { destruct (bn_lower_lo b0 ltac:(lia)) as [H1 H2]. rewrite !utf8_dec_ascii_cons by lia.
    fold (make_ascii_lowercase t). rewrite IH by lia. rewrite H1. destruct (utf8_dec t); cbn; [|reflexivity].
    unfold alow at 2. rewrite E1. reflexivity. }
  rewrite (lower_ascii_b_hi b0) by lia. cbn [utf8_dec]. rewrite E1.
  assert (Hal : forall c, 128 <= c -> alow c = c) by (intros c Hc; unfold alow; replace (c <? 128) with false by lia; reflexivity).
  destruct (inr 194 223 (bn b0)) eqn:E2.
  { destruct t as [|b1 t1]; [reflexivity|]. cbn [map]. destruct (cont b1) eqn:Ec.
    - rewrite (lower_ascii_b_hi b1) by (apply cont_hi; exact Ec). rewrite Ec. fold (make_ascii_lowercase t1).
      rewrite IH by (cbn in Hlen; lia). destruct (utf8_dec t1); cbn; [|reflexivity]. rewrite Hal; [reflexivity|]. unfold inr, cont in *. lia.
    - destruct (bn b1 <? 128) eqn:Eb.
      + destruct (bn_lower_lo b1 ltac:(lia)) as [_ H2]. replace (cont (lower_ascii_b b1)) with false by (unfold cont, inr; lia). reflexivity.
      + rewrite (lower_ascii_b_hi b1) by lia. rewrite Ec. reflexivity. }
  destruct (inr 224 239 (bn b0)) eqn:E3.
  { destruct t as [|b1 [|b2 t2]]; try reflexivity. cbn [map].
    assert (Hb : forall b lo hi, 128 <= lo -> inr lo hi (bn (lower_ascii_b b)) = inr lo hi (bn b)).
    { intros b lo hi Hlo. destruct (bn b <? 128) eqn:Eb; [destruct (bn_lower_lo b ltac:(lia)) as [_ H2]; unfold inr; lia|rewrite lower_ascii_b_hi by lia; reflexivity]. }
    assert (Hc : forall b, cont (lower_ascii_b b) = cont b) by (intros b; unfold cont; apply Hb; lia).
    rewrite Hb by (destruct (bn b0 =? 224); lia). rewrite Hc.
    destruct (_ && cont b2) eqn:Ec; [|reflexivity].
    apply andb_true_iff in Ec. destruct Ec as [Ec1 Ec2].
    rewrite (lower_ascii_b_hi b1) by (unfold inr in Ec1; destruct (bn b0 =? 224); lia). rewrite (lower_ascii_b_hi b2) by (apply cont_hi; exact Ec2).
    fold (make_ascii_lowercase t2). rewrite IH by (cbn in Hlen; lia). destruct (utf8_dec t2); cbn; [|reflexivity].
    rewrite Hal; [reflexivity|]. unfold inr, cont in *. destruct (bn b0 =? 224) eqn:?; lia. }
  destruct (inr 240 244 (bn b0)) eqn:E4; [|reflexivity].
  destruct t as [|b1 [|b2 [|b3 t3]]]; try reflexivity. cbn [map].
  assert (Hb : forall b lo hi, 128 <= lo -> inr lo hi (bn (lower_ascii_b b)) = inr lo hi (bn b)).
  { intros b lo hi Hlo. destruct (bn b <? 128) eqn:Eb; [destruct (bn_lower_lo b ltac:(lia)) as [_ H2]; unfold inr; lia|rewrite lower_ascii_b_hi by lia; reflexivity]. }
  assert (Hc : forall b, cont (lower_ascii_b b) = cont b) by (intros b; unfold cont; apply Hb; lia).
  rewrite Hb by (destruct (bn b0 =? 240); lia). rewrite !Hc.
  destruct (_ && cont b2 && cont b3) eqn:Ec; [|reflexivity].
  apply andb_true_iff in Ec. destruct Ec as [Ec Ec3]. apply andb_true_iff in Ec. destruct Ec as [Ec1 Ec2].
  rewrite (lower_ascii_b_hi b1) by (unfold inr in Ec1; destruct (bn b0 =? 240); lia).
  rewrite (lower_ascii_b_hi b2) by (apply cont_hi; exact Ec2). rewrite (lower_ascii_b_hi b3) by (apply cont_hi; exact Ec3).
  fold (make_ascii_lowercase t3). rewrite IH by (cbn in Hlen; lia). destruct (utf8_dec t3); cbn; [|reflexivity].
  rewrite Hal; [reflexivity|]. unfold inr, cont in *. destruct (bn b0 =? 240) eqn:?; lia.
Qed.
Lemma chars_lowercase s : utf8_valid s = true -> chars (make_ascii_lowercase s) = map alow (chars s).
Proof. unfold utf8_valid, chars. rewrite (utf8_dec_lowercase (length s) s (le_n _)). destruct (utf8_dec s); [reflexivity|discriminate]. Qed.
Lemma utf8_valid_lowercase s : utf8_valid s = true -> utf8_valid (make_ascii_lowercase s) = true.
Proof. unfold utf8_valid. rewrite (utf8_dec_lowercase (length s) s (le_n _)). destruct (utf8_dec s); [reflexivity|discriminate]. Qed.
Print Assumptions chars_lowercase.

(* ---------- decode then encode is the identity ---------- *)
Lemma utf8_enc_dec : forall n s cs, (length s <= n)%nat -> utf8_dec s = Some cs -> utf8_enc cs = s.
Proof.
  induction n as [|n IH]; intros s cs Hlen; [destruct s; [intros [= <-]; reflexivity|cbn in Hlen; lia]|].
  destruct s as [|b0 t]; [intros [= <-]; reflexivity|]. cbn [length] in Hlen. cbn [utf8_dec].
  pose proof (bn_bound b0) as B0.
  destruct (bn b0 <? 128) eqn:E1.
  { destruct (utf8_dec t) as [r|] eqn:Er; [|discriminate]. intros [= <-]. cbn [utf8_enc flat_map]. unfold enc1. rewrite E1.
    cbn [app]. rewrite nb_bn. f_equal. apply (IH t r); [lia|exact Er]. }
  destruct (inr 194 223 (bn b0)) eqn:E2.
  { destruct t as [|b1 t1]; [discriminate|]. destruct (cont b1) eqn:Ec; [|discriminate].
    destruct (utf8_dec t1) as [r|] eqn:Er; [|discriminate]. intros [= <-]. cbn [utf8_enc flat_map].
    pose proof (bn_bound b1) as B1. unfold cont, inr in *. set (c := (bn b0 - 192) * 64 + (bn b1 - 128)).
    unfold enc1. replace (c <? 128) with false by (unfold c; lia). replace (c <? 2048) with true by (unfold c; lia).
    replace (192 + c / 64) with (bn b0) by (unfold c; lia). replace (128 + c mod 64) with (bn b1) by (unfold c; lia).
    rewrite !nb_bn. cbn [app]. do 2 f_equal. apply (IH t1 r); [cbn in Hlen; lia|exact Er]. }
  destruct (inr 224 239 (bn b0)) eqn:E3.
  { destruct t as [|b1 [|b2 t2]]; try discriminate. destruct (_ && cont b2) eqn:Ec; [|discriminate].
    destruct (utf8_dec t2) as [r|] eqn:Er; [|discriminate]. intros [= <-]. cbn [utf8_enc flat_map].
    pose proof (bn_bound b1) as B1. pose proof (bn_bound b2) as B2. apply andb_true_iff in Ec. destruct Ec as [Ec1 Ec2].
    unfold cont, inr in *. set (c := (bn b0 - 224) * 4096 + (bn b1 - 128) * 64 + (bn b2 - 128)).
    assert (Hc1 : 128 <= bn b1 <= 191) by (destruct (bn b0 =? 224), (bn b0 =? 237); lia).
    assert (Hlo : 2048 <= c) by (unfold c; destruct (bn b0 =? 224) eqn:?; lia).
    unfold enc1. replace (c <? 128) with false by lia. replace (c <? 2048) with false by lia. replace (c <? 65536) with true by (unfold c; lia).
    replace (224 + c / 4096) with (bn b0) by (unfold c; lia). replace (128 + c / 64 mod 64) with (bn b1) by (unfold c; lia).
    replace (128 + c mod 64) with (bn b2) by (unfold c; lia).
    rewrite !nb_bn. cbn [app]. do 3 f_equal. apply (IH t2 r); [cbn in Hlen; lia|exact Er]. }
  destruct (inr 240 244 (bn b0)) eqn:E4; [|discriminate].
  destruct t as [|b1 [|b2 [|b3 t3]]]; try discriminate. destruct (_ && cont b2 && cont b3) eqn:Ec; [|discriminate].
  destruct (utf8_dec t3) as [r|] eqn:Er; [|discriminate]. intros [= <-]. cbn [utf8_enc flat_map].
  pose proof (bn_bound b1) as B1. pose proof (bn_bound b2) as B2. pose proof (bn_bound b3) as B3.
  apply andb_true_iff in Ec. destruct Ec as [Ec Ec3]. apply andb_true_iff in Ec. destruct Ec as [Ec1 Ec2].
  unfold cont, inr in *. set (c := (bn b0 - 240) * 262144 + (bn b1 - 128) * 4096 + (bn b2 - 128) * 64 + (bn b3 - 128)).
  assert (Hc1 : 128 <= bn b1 <= 191) by (destruct (bn b0 =? 240), (bn b0 =? 244); lia).
  assert (Hlo : 65536 <= c) by (unfold c; destruct (bn b0 =? 240) eqn:?; lia).
  unfold enc1. replace (c <? 128) with false by lia. replace (c <? 2048) with false by lia. replace (c <? 65536) with false by lia.
  replace (240 + c / 262144) with (bn b0) by (unfold c; lia). replace (128 + c / 4096 mod 64) with (bn b1) by (unfold c; lia).
  replace (128 + c / 64 mod 64) with (bn b2) by (unfold c; lia). replace (128 + c mod 64) with (bn b3) by (unfold c; lia).
  rewrite !nb_bn. cbn [app]. do 4 f_equal. apply (IH t3 r); [cbn in Hlen; lia|exact Er].
Qed.
Lemma utf8_enc_chars s : utf8_valid s = true -> utf8_enc (chars s) = s.
Proof. unfold utf8_valid, chars. destruct (utf8_dec s) as [cs|] eqn:E; [|discriminate]. intros _. apply (utf8_enc_dec (length s) s cs (le_n _) E). Qed.
(* decoded characters are scalar values *)
Lemma utf8_dec_scalar : forall n s cs, (length s <= n)%nat -> utf8_dec s = Some cs -> Forall (fun c => is_scalar c = true) cs.
Proof.
  induction n as [|n IH]; intros s cs Hlen; [destruct s; [intros [= <-]; constructor|cbn in Hlen; lia]|].
  destruct s as [|b0 t]; [intros [= <-]; constructor|]. cbn [length] in Hlen. cbn [utf8_dec]. pose proof (bn_bound b0) as B0.
  destruct (bn b0 <? 128) eqn:E1.
  { destruct (utf8_dec t) as [r|] eqn:Er; [|discriminate]. intros [= <-]. constructor; [unfold is_scalar; lia|apply (IH t r); [lia|exact Er]]. }
  destruct (inr 194 223 (bn b0)) eqn:E2.
  { destruct t as [|b1 t1]; [discriminate|]. destruct (cont b1) eqn:Ec; [|discriminate]. destruct (utf8_dec t1) as [r|] eqn:Er; [|discriminate].
    intros [= <-]. pose proof (bn_bound b1). unfold cont, inr in *. constructor; [unfold is_scalar; lia|apply (IH t1 r); [cbn in Hlen; lia|exact Er]]. }
  destruct (inr 224 239 (bn b0)) eqn:E3.
  { destruct t as [|b1 [|b2 t2]]; try discriminate. destruct (_ && cont b2) eqn:Ec; [|discriminate]. destruct (utf8_dec t2) as [r|] eqn:Er; [|discriminate].
    intros [= <-]. pose proof (bn_bound b1). pose proof (bn_bound b2). apply andb_true_iff in Ec. destruct Ec as [Ec1 Ec2]. unfold cont, inr in *.
    constructor; [unfold is_scalar; destruct (bn b0 =? 224) eqn:?, (bn b0 =? 237) eqn:?; lia|apply (IH t2 r); [cbn in Hlen; lia|exact Er]]. }
  destruct (inr 240 244 (bn b0)) eqn:E4; [|discriminate].
  destruct t as [|b1 [|b2 [|b3 t3]]]; try discriminate. destruct (_ && cont b2 && cont b3) eqn:Ec; [|discriminate]. destruct (utf8_dec t3) as [r|] eqn:Er; [|discriminate].
  intros [= <-]. pose proof (bn_bound b1). pose proof (bn_bound b2). pose proof (bn_bound b3).
  apply andb_true_iff in Ec. destruct Ec as [Ec Ec3]. apply andb_true_iff in Ec. destruct Ec as [Ec1 Ec2]. unfold cont, inr in *.
  constructor; [unfold is_scalar; destruct (bn b0 =? 240) eqn:?, (bn b0 =? 244) eqn:?; lia|apply (IH t3 r); [cbn in Hlen; lia|exact Er]].
Qed.
Print Assumptions utf8_enc_chars. Print Assumptions utf8_dec_scalar.
