(* Further property-level theorems: structure of build() (reused by C04, C08, C12, C14), the stored checksum reads back through the
   typed accessor (C12), the whole canonical string is printable ASCII and its keys ascend (C03), the family of user-written shapes used by
   the correspondence check is sane (C04/C14). *)
From Coq Require Import List NArith ZArith Bool Lia Sorted.
From Coq.Strings Require Import Byte.
From PM Require Import Base Lemmas Text TextLemmas Model Skeleton Quals Quals2 Quals3 Quals4 DecQual Roundtrip Lower2 Lower3 Cs Cs2 Cs3 Cs4 C03 C04 C08rel C14 Assemble Exec Final.
Import ListNotations.
Local Open Scope N_scope.

Section MORE. Variable cfg : config.

(* ---------------- the structure of build(), for every shape ---------------- *)
Definition nonempty_quals (q : quals) : quals := q_retain (fun _ v => negb (is_empty v)) q.
Inductive build_view {T} (t1 : T) (p1 : parts) (t' : T) (p' : parts) : Prop :=
| BVplain : q_get cfg (nonempty_quals (p_quals p1)) s_checksum = None -> t' = t1 -> p' = with_quals p1 (nonempty_quals (p_quals p1)) -> build_view t1 p1 t' p'
| BVcs v m txt q2 : q_get cfg (nonempty_quals (p_quals p1)) s_checksum = Some v -> cs_try_from cfg v = Ok m -> cs_to_text m = Ok txt ->
    q_insert cfg (nonempty_quals (p_quals p1)) s_checksum txt = Ok q2 -> t' = t1 -> p' = with_quals p1 q2 -> build_view t1 p1 t' p'.
Theorem build_cases {T E} (sh : shape T E) t p t' p' : build cfg sh t p = Ok (t', p') ->
  exists t1 p1, sh_finish sh t p = Ok (t1, p1) /\ p_name p1 <> [] /\ build_view t1 p1 t' p'.
Proof.
  unfold build. destruct (sh_finish sh t p) as [[t1 p1]|e]; [|discriminate]. intros H. exists t1, p1. split; [reflexivity|].
  destruct (is_empty (p_name p1)) eqn:En; [discriminate|]. split; [apply is_empty_false; exact En|].
  fold (nonempty_quals (p_quals p1)) in H. destruct (q_get cfg (nonempty_quals (p_quals p1)) s_checksum) as [v|] eqn:Eg.
  - destruct (cs_try_from cfg v) as [m|] eqn:E1; [|discriminate]. destruct (cs_to_text m) as [txt|] eqn:E2; [|discriminate].
    destruct (q_insert cfg _ s_checksum txt) as [q2|] eqn:E3; [|discriminate]. injection H as <- <-.
    eapply BVcs; try eassumption; reflexivity.
  - injection H as <- <-. apply BVplain; [exact Eg|reflexivity|reflexivity].
Qed.
(* the other four fields are exactly what the hook left *)
Corollary build_keeps_hook_fields {T E} (sh : shape T E) t p t' p' : build cfg sh t p = Ok (t', p') ->
  exists t1 p1, sh_finish sh t p = Ok (t1, p1) /\ t' = t1 /\ p_ns p' = p_ns p1 /\ p_name p' = p_name p1 /\ p_ver p' = p_ver p1 /\ p_sub p' = p_sub p1.
Proof.
  intros H. destruct (build_cases sh t p t' p' H) as (t1 & p1 & Ef & _ & V). exists t1, p1. split; [exact Ef|].
  destruct V as [_ -> ->|v m txt q2 _ _ _ _ -> ->]; repeat split; reflexivity.
Qed.

(* ---------------- C08: the builder applies the same rule as the parser ---------------- *)
Theorem C08_build_rule t p t' p' : build cfg (ptype_shape cfg) t p = Ok (t', p') ->
  t' = t /\ p_name p' = rule cfg t (p_name p) /\ p_ns p' = p_ns p /\ p_ver p' = p_ver p /\ p_sub p' = p_sub p.
Proof.
  intros H. destruct (build_keeps_hook_fields _ t p t' p' H) as (t1 & p1 & Ef & -> & H1 & H2 & H3 & H4).
  cbn [sh_finish ptype_shape] in Ef. apply (pt_finish_rule cfg) in Ef. destruct Ef as [-> ->].
  rewrite H1, H2, H3, H4. repeat split; reflexivity.
Qed.

(* ---------------- C12: the stored checksum reads back through the typed accessor and re-serialises to itself ---------------- *)
Section CS.
Hypothesis Hasc : tbl_ascii_ok cfg = true.
Hypothesis Hksp : key_special_ascii cfg = true.
Hypothesis Hsa : scan_ascii_ok cfg = true.
Hypothesis Hfix : tbl_img_fixed cfg = true.
Hypothesis Hsc : tbl_img_scalar cfg = true.
Hypothesis Hnc : tbl_no_comma cfg = true.
Hypothesis Hck : valid_key cfg s_checksum = true.
Theorem C12_stored_checksum_round_trips {T E} (sh : shape T E) t p t' p' : hook_sane cfg sh -> QInv cfg (p_quals p) -> vals_utf8 (p_quals p) ->
  build cfg sh t p = Ok (t', p') -> forall v, q_get cfg (p_quals p') s_checksum = Some v ->
  exists m, cs_try_from cfg v = Ok m /\ cs_to_text m = Ok v /\ v <> [].
Proof.
  intros HS HQ HU H v Hv. destruct (build_cases sh t p t' p' H) as (t1 & p1 & Ef & _ & V).
  destruct (HS _ _ _ _ HQ HU Ef) as [HQ1 HU1].
  assert (HQq : QInv cfg (nonempty_quals (p_quals p1))) by (apply QInv_filter; exact HQ1).
  assert (HUq : vals_utf8 (nonempty_quals (p_quals p1))) by (apply filter_utf8; exact HU1).
  destruct V as [Eg _ ->|w m txt q2 Eg E1 E2 E3 _ ->]; cbn [p_quals with_quals] in Hv.
  - rewrite Eg in Hv. discriminate.
  - pose proof (q_get_insert_same cfg Hasc Hksp _ _ _ _ HQq E3) as Eg2. rewrite Eg2 in Hv. injection Hv as <-.
    pose proof (q_get_in cfg Hasc Hksp _ _ _ HQq Hck Eg) as Hin.
    assert (Hwv : utf8_valid w = true). { unfold vals_utf8 in HUq. rewrite Forall_forall in HUq. exact (HUq _ Hin). }
    destruct (cs_fix cfg Hasc Hsa Hfix Hsc Hnc w m txt Hwv E1 E2) as (F1 & F2 & F3 & _).
    exists (canon_m m). split; [exact F1|split; [exact F2|exact F3]].
Qed.
End CS.

(* ---------------- C03: the whole canonical string ---------------- *)
Section PR.
Hypothesis Hsets : sets_exact cfg = true.
Hypothesis Htsp : forallb (fun b => printable b) (type_special cfg) = true.
Lemma alnum_printable b : is_alnum b = true -> printable b = true.
Proof. destruct b; vm_compute; intros H; try reflexivity; discriminate H. Qed.
Lemma valid_type_printable t : valid_type cfg t = true -> Forall (fun b => printable b = true) t.
Proof.
  unfold valid_type. rewrite andb_true_iff. intros [_ H]. rewrite forallb_forall in H. apply Forall_forall. intros b Hb. specialize (H b Hb).
  apply orb_true_iff in H. destruct H as [H|H]; [apply alnum_printable; exact H|]. rewrite forallb_forall in Htsp. apply Htsp. apply mem_In. exact H.
Qed.
Lemma Forall_join c (l : list bytes) (Q : byte -> Prop) : Q c -> Forall (Forall Q) l -> Forall Q (join c l).
Proof.
  intros Hc. induction l as [|x l IH]; intros H; [constructor|]. inversion H as [|? ? Hx Hl]; subst. destruct l as [|y l']; [exact Hx|].
  change (join c (x :: y :: l')) with (x ++ c :: join c (y :: l')). apply Forall_app. split; [exact Hx|]. constructor; [exact Hc|apply IH; exact Hl].
Qed.
Theorem C03_printable {T E} (sh : shape T E) t p : valid_type cfg (sh_type sh t) = true -> Forall (fun b => printable b = true) (format cfg sh t p).
Proof.
  intros Hv. rewrite (C03_shape cfg sh t p).
  assert (HP : forall pos x, Forall (fun b => printable b = true) (penc (set_of cfg pos) x)) by (intros; apply (penc_printable cfg Hsets)).
  repeat (apply Forall_app; split).
  - repeat constructor.
  - apply valid_type_printable. exact Hv.
  - repeat constructor.
  - destruct (is_empty (p_ns p)); [constructor|]. apply Forall_app. split; [apply HP|repeat constructor].
  - apply HP.
  - destruct (is_empty (p_ver p)); [constructor|]. constructor; [reflexivity|apply HP].
  - destruct (p_quals p) as [|kv q]; [constructor|]. constructor; [reflexivity|]. apply Forall_join; [reflexivity|].
    apply Forall_forall. intros it Hit. apply in_map_iff in Hit. destruct Hit as (kv' & <- & _). apply Forall_app. split; [apply HP|]. constructor; [reflexivity|apply HP].
  - destruct (is_empty (p_sub p)); [constructor|]. constructor; [reflexivity|apply HP].
Qed.
End PR.
(* the key=value pairs appear in strictly ascending key order *)
Theorem C03_keys_ascending q : QInv cfg q -> StronglySorted (fun a b => bcmp a b = Lt) (map fst q).
Proof. intros [H _]. exact H. Qed.

(* ---------------- the family of user-written shapes is sane (so C04 applies to every member) ---------------- *)
Section FAM.
Hypothesis Hasc : tbl_ascii_ok cfg = true.
Hypothesis Hksp : key_special_ascii cfg = true.
Lemma q_set_sane q k v : QInv cfg q -> vals_utf8 q -> utf8_valid v = true -> QInv cfg (q_set cfg q k v) /\ vals_utf8 (q_set cfg q k v).
Proof.
  intros HQ HU Hv. split; [apply (q_set_inv cfg Hasc Hksp); exact HQ|]. unfold q_set. destruct (q_insert cfg q k v) as [q'|] eqn:E; [|exact HU].
  exact (q_insert_vals cfg Hasc Hksp (fun v => utf8_valid v = true) q k v q' HQ HU Hv E).
Qed.
Lemma fam_hook1_sane tp hk tp' : QInv cfg (p_quals (snd tp)) -> vals_utf8 (p_quals (snd tp)) -> fam_hook1 cfg tp hk = Ok tp' ->
  QInv cfg (p_quals (snd tp')) /\ vals_utf8 (p_quals (snd tp')).
Proof.
  destruct tp as [t p]. cbn [snd]. intros HQ HU. destruct hk; cbn [fam_hook1]; intros H; try discriminate H; injection H as <-; cbn [snd p_quals with_name with_quals]; try (split; assumption);
    try (split; [apply QInv_nil|constructor]);
    apply q_set_sane; try assumption; reflexivity.
Qed.
Theorem fam_sane c r hks : hook_sane cfg (fam_shape cfg c r hks).
Proof.
  intros t p t1 p1 HQ HU. cbn [sh_finish fam_shape].
  assert (G : forall tp tp', QInv cfg (p_quals (snd tp)) -> vals_utf8 (p_quals (snd tp)) -> fam_hook cfg hks tp = Ok tp' -> QInv cfg (p_quals (snd tp')) /\ vals_utf8 (p_quals (snd tp'))).
  { induction hks as [|hk hks IH]; intros tp tp' H1 H2; cbn [fam_hook]; [intros [= <-]; split; assumption|].
    destruct (fam_hook1 cfg tp hk) as [tp1|] eqn:E; [|discriminate]. destruct (fam_hook1_sane tp hk tp1 H1 H2 E) as [H3 H4]. apply IH; assumption. }
  intros H. exact (G (t, p) (t1, p1) HQ HU H).
Qed.
End FAM.
End MORE.
