From Coq Require Import List NArith ZArith Bool Lia Sorted.
From Coq.Strings Require Import Byte.
From PM Require Import Base Lemmas Text TextLemmas Model Skeleton Quals Canon DecQual Roundtrip Inj.
Import ListNotations.

Section INJ2. Variable cfg : config.
Hypothesis R : rt_ok cfg.

Lemma penc_inj S a b : mem c_pct S = true -> penc S a = penc S b -> a = b.
Proof. intros HS H. rewrite <- (pdecode_penc S a HS), <- (pdecode_penc S b HS), H. reflexivity. Qed.
Lemma nonempty_opt_inj S a b : mem c_pct S = true -> nonempty_opt a (penc S) = nonempty_opt b (penc S) -> a = b.
Proof.
  intros HS. unfold nonempty_opt. destruct (is_empty a) eqn:Ea, (is_empty b) eqn:Eb; try discriminate.
  - apply is_empty_true in Ea, Eb. congruence.
  - intros [= H]. apply (penc_inj S); assumption.
Qed.
Definition keys_valid (q : quals) : Prop := Forall (fun kv => valid_key cfg (fst kv) = true) q.
Lemma item_inj kv1 kv2 : valid_key cfg (fst kv1) = true -> valid_key cfg (fst kv2) = true -> item cfg kv1 = item cfg kv2 -> kv1 = kv2.
Proof.
  destruct R. destruct kv1 as [k1 v1], kv2 as [k2 v2]. cbn [fst]. intros H1 H2. unfold item. cbn [fst snd].
  rewrite (penc_key cfg rt_kp k1 H1), (penc_key cfg rt_kp k2 H2). intros H.
  assert (E : split_once c_eq (k1 ++ c_eq :: penc (set_query cfg) v1) = split_once c_eq (k2 ++ c_eq :: penc (set_query cfg) v2)) by (rewrite H; reflexivity).
  rewrite (split_once_app c_eq k1) in E by (apply (key_no_eq cfg rt_keq); assumption).
  rewrite (split_once_app c_eq k2) in E by (apply (key_no_eq cfg rt_keq); assumption).
  injection E as Ek Ev. subst k2. f_equal. apply (penc_inj (set_query cfg)); assumption.
Qed.
Lemma map_item_inj q1 q2 : keys_valid q1 -> keys_valid q2 -> map (item cfg) q1 = map (item cfg) q2 -> q1 = q2.
Proof.
  intros H1. revert q2. induction H1 as [|kv q1 Hk Hq IH]; intros [|kv2 q2] H2; cbn; try discriminate; [reflexivity|].
  inversion H2; subst. intros [= Hi Hm]. f_equal; [apply item_inj; assumption|apply IH; assumption].
Qed.
Lemma item_no_amp kv : ~ In c_amp (item cfg kv).
Proof.
  destruct R. unfold item. intros Hin. apply in_app_or in Hin. destruct Hin as [Hin|[Hin|Hin]]; [|discriminate Hin|];
    revert Hin; apply penc_nosep; cbn; tauto || assumption.
Qed.
Lemma quals_raw_inj q1 q2 : keys_valid q1 -> keys_valid q2 -> quals_raw cfg q1 = quals_raw cfg q2 -> q1 = q2.
Proof.
  intros H1 H2. unfold quals_raw. destruct q1 as [|a q1], q2 as [|b q2]; try discriminate; [reflexivity|]. intros [= H].
  apply map_item_inj; try assumption.
  assert (Hall : forall q, Forall (fun p => ~ In c_amp p) (map (item cfg) q)).
  { intros q. apply Forall_forall. intros x Hx. apply in_map_iff in Hx. destruct Hx as (kv & <- & _). apply item_no_amp. }
  assert (E : split c_amp (join c_amp (map (item cfg) (a :: q1))) = split c_amp (join c_amp (map (item cfg) (b :: q2)))) by (apply f_equal; exact H).
  rewrite (split_join c_amp (map (item cfg) (a :: q1))) in E by (try discriminate; apply Hall).
  rewrite (split_join c_amp (map (item cfg) (b :: q2))) in E by (try discriminate; apply Hall). exact E.
Qed.

(* C19: the canonical string determines the value *)
Theorem format_inj_G t1 p1 t2 p2 : valid_type cfg t1 = true -> valid_type cfg t2 = true ->
  keys_valid (p_quals p1) -> keys_valid (p_quals p2) ->
  format cfg (string_shape cfg) t1 p1 = format cfg (string_shape cfg) t2 p2 -> t1 = t2 /\ p1 = p2.
Proof.
  intros V1 V2 K1 K2 H. rewrite !format_is_asm in H. pose proof R as R'. destruct R'.
  apply (asm_inj cfg) in H; [|assumption|apply canon_wf; assumption|apply canon_wf; assumption].
  unfold canon in H. cbn [sh_type string_shape] in H. injection H as Ht Hns Hname Hver Hq Hsub.
  split; [exact Ht|]. apply (nonempty_opt_inj (set_path cfg)) in Hns; [|assumption]. apply (penc_inj (set_seg cfg)) in Hname; [|assumption].
  apply (nonempty_opt_inj (set_path cfg)) in Hver; [|assumption]. apply (nonempty_opt_inj (set_frag cfg)) in Hsub; [|assumption]. apply quals_raw_inj in Hq; [|assumption|assumption].
  destruct p1 as [n1 m1 v1 q1 s1], p2 as [n2 m2 v2 q2 s2]; cbn [p_ns p_name p_ver p_quals p_sub] in *; subst; reflexivity.
Qed.
End INJ2.
Print Assumptions format_inj_G.
