From Coq Require Import List NArith ZArith Bool Lia Sorted Permutation.
From Coq.Strings Require Import Byte.
From PM Require Import Base Lemmas Text TextLemmas Model Quals Quals2 Quals3 Cs.
Import ListNotations.
Local Open Scope N_scope.

Section Q4. Variable cfg : config.
Hypothesis Hasc : tbl_ascii_ok cfg = true.
Hypothesis Hksp : key_special_ascii cfg = true.

(* lookups are membership of the pair under the lower-cased key *)
Theorem q_get_iff q k v : QInv cfg q -> valid_key cfg k = true -> (q_get cfg q k = Some v <-> In (lk k, v) q).
Proof.
  intros HQ Hk. split; [apply q_get_in; assumption|]. intros Hin. pose proof (q_get_spec cfg Hasc Hksp q k HQ Hk) as S.
  destruct (q_get cfg q k) as [w|].
  - destruct S as (pre & post & E). apply in_split in Hin. destruct Hin as (pre' & post' & E'). destruct HQ as [Hs _].
    destruct (sorted_key_unique q Hs _ _ _ _ _ _ _ E E') as (_ & -> & _). reflexivity.
  - exfalso. apply S. apply in_map_iff. exists (lk k, v). auto.
Qed.
Theorem q_get_invalid q k : valid_key cfg k = false -> q_get cfg q k = None.
Proof. intros H. unfold q_get, check_key. rewrite H. reflexivity. Qed.
Theorem q_insert_invalid q k v : valid_key cfg k = false -> q_insert cfg q k v = Err EInvalidQualifier.
Proof. intros H. unfold q_insert, check_key. rewrite H. reflexivity. Qed.
Theorem q_remove_invalid q k : valid_key cfg k = false -> q_remove cfg q k = (q, None).
Proof. intros H. unfold q_remove, check_key. rewrite H. reflexivity. Qed.

Theorem q_get_none_iff q k : QInv cfg q -> valid_key cfg k = true -> (q_get cfg q k = None <-> ~ In (lk k) (map fst q)).
Proof.
  intros HQ Hk. pose proof (q_get_spec cfg Hasc Hksp q k HQ Hk) as S. destruct (q_get cfg q k) as [w|]; split; try tauto; try discriminate.
  intros Hn. exfalso. apply Hn. destruct S as (pre & post & ->). rewrite map_app. apply in_or_app. right. left. reflexivity.
Qed.
Lemma mid_key_absent pre k v post : QInv cfg (pre ++ (k, v) :: post) -> ~ In k (map fst (pre ++ post)).
Proof.
  intros [Hs _]. rewrite map_app in *. cbn [map fst] in Hs. apply StronglySorted_app_inv in Hs. destruct Hs as (_ & Hs2 & Hs3).
  inversion Hs2 as [|? ? _ Hgt]; subst. intros Hin. apply in_app_or in Hin. destruct Hin as [Hin|Hin].
  - rewrite Forall_forall in Hs3. specialize (Hs3 k Hin). inversion Hs3; subst. eapply klt_irrefl; eassumption.
  - rewrite Forall_forall in Hgt. eapply klt_irrefl. apply Hgt. exact Hin.
Qed.
(* remove *)
Theorem q_remove_spec q k : QInv cfg q -> valid_key cfg k = true ->
  QInv cfg (fst (q_remove cfg q k)) /\ snd (q_remove cfg q k) = q_get cfg q k /\ q_get cfg (fst (q_remove cfg q k)) k = None
  /\ (forall k' v, lk k' <> lk k -> (In (lk k', v) (fst (q_remove cfg q k)) <-> In (lk k', v) q)).
Proof.
  intros HQ Hk. unfold q_remove. unfold q_get at 1. destruct (check_key cfg k) as [m|e] eqn:Ec; [|unfold check_key in Ec; rewrite Hk in Ec; destruct (forallb is_lower_ascii k); discriminate].
  destruct (into_key_lk cfg m k Ec) as (_ & Hms & _). unfold search. rewrite Hms.
  pose proof (search_from_spec cfg Hasc Hksp q HQ k 0%nat Hk) as S. destruct (search_from cfg q k 0) as [j|j]; cbn [fst snd].
  - destruct S as (pre & v & post & -> & ->). cbn [Nat.add]. rewrite remove_at_app, nth_error_app_mid. cbn [option_map snd].
    pose proof (QInv_remove cfg _ _ _ HQ) as HQ'. split; [exact HQ'|]. split; [reflexivity|]. split.
    + apply (q_get_none_iff _ k HQ' Hk). eapply mid_key_absent. exact HQ.
    + intros k' v' Hne. rewrite !in_app_iff. cbn [In]. split; [tauto|]. intros [H|[H|H]]; auto. injection H as H _. congruence.
  - destruct S as (pre & post & -> & _ & H1 & H2). split; [exact HQ|]. split; [reflexivity|]. split; [|intros; tauto].
    apply (q_get_none_iff _ k HQ Hk). rewrite map_app. intros Hin. apply in_app_or in Hin. destruct Hin as [Hin|Hin]; apply in_map_iff in Hin; destruct Hin as ([a b] & Ha & Hin); cbn in Ha; subst a.
    + rewrite Forall_forall in H1. exact (klt_irrefl _ (H1 _ Hin)).
    + rewrite Forall_forall in H2. exact (klt_irrefl _ (H2 _ Hin)).
Qed.

(* canonical form: two collections with the same lookups are the same list, hence ==, cmp and hash agree *)
Lemma QInv_nodup q : QInv cfg q -> NoDup q.
Proof.
  intros [Hs _]. induction q as [|[k v] q IH]; [constructor|]. cbn in Hs. inversion Hs as [|? ? Hs' Hall]; subst. constructor; [|apply IH; exact Hs'].
  intros Hin. rewrite Forall_forall in Hall. apply (klt_irrefl k). apply Hall. apply (in_map fst _ _ Hin).
Qed.
Theorem C11_canon q1 q2 : QInv cfg q1 -> QInv cfg q2 -> (forall k, valid_key cfg k = true -> q_get cfg q1 k = q_get cfg q2 k) -> q1 = q2.
Proof.
  intros H1 H2 Hget. apply sorted_perm_unique.
  - destruct H1 as [Hs _]. clear - Hs. induction q1 as [|x q IH]; [constructor|]. cbn in Hs. inversion Hs; subst. constructor; [apply IH; assumption|]. rewrite Forall_map in H2. exact H2.
  - destruct H2 as [Hs _]. clear - Hs. induction q2 as [|x q IH]; [constructor|]. cbn in Hs. inversion Hs; subst. constructor; [apply IH; assumption|]. rewrite Forall_map in H2. exact H2.
  - apply NoDup_Permutation; [apply QInv_nodup; exact H1|apply QInv_nodup; exact H2|].
    assert (Hsub : forall qa qb, QInv cfg qa -> QInv cfg qb -> (forall k, valid_key cfg k = true -> q_get cfg qa k = q_get cfg qb k) -> forall x, In x qa -> In x qb).
    { intros qa qb Ha Hb Hg [k v] Hin. destruct Ha as [Hsa Hca]. assert (Hck : canon_key cfg k) by (rewrite Forall_forall in Hca; apply Hca; apply (in_map fst _ _ Hin)).
      destruct Hck as [Hvk Hlk]. rewrite <- Hlk in Hin |- *. apply (q_get_iff qb k v Hb Hvk). rewrite <- Hg by exact Hvk. apply (q_get_iff qa k v (conj Hsa Hca) Hvk). exact Hin. }
    intros x. split; [apply Hsub; assumption|apply Hsub; try assumption]. intros k Hk. symmetry. apply Hget. exact Hk.
Qed.
End Q4.
Print Assumptions C11_canon. Print Assumptions q_remove_spec.
