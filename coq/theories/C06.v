From Coq Require Import List NArith ZArith Bool Lia.
From Coq.Strings Require Import Byte.
From PM Require Import Base Lemmas Text TextLemmas Model Quals Quals2.
Import ListNotations.
Local Open Scope N_scope.

(* ---------------- C06: the crate's own panic sites ---------------- *)
Section C6. Variable cfg : config.
Hypothesis Hasc : tbl_ascii_ok cfg = true.
Hypothesis Hksp : key_special_ascii cfg = true.

(* binary_search result used as an index: self.qualifiers[i], Vec::remove(i), OccupiedEntry *)
Theorem search_found_in_bounds q k j : QInv cfg q -> valid_key cfg k = true -> search_from cfg q k 0 = Found j -> (j < length q)%nat.
Proof.
  intros HQ Hk H. pose proof (search_from_spec cfg Hasc Hksp q HQ k 0%nat Hk) as S. rewrite H in S.
  destruct S as (pre & v & post & -> & ->). rewrite app_length. cbn. lia.
Qed.
(* binary_search result used as an insertion point: Vec::insert(i, _) *)
Theorem search_notfound_in_bounds q k j : QInv cfg q -> valid_key cfg k = true -> search_from cfg q k 0 = NotFound j -> (j <= length q)%nat.
Proof.
  intros HQ Hk H. pose proof (search_from_spec cfg Hasc Hksp q HQ k 0%nat Hk) as S. rewrite H in S.
  destruct S as (pre & post & -> & -> & _). rewrite app_length. cbn. lia.
Qed.
(* the comparator's unwrap: partial_cmp is total (it is `Some (chars.cmp(..))` in the source; here: qkey_cmp is a function) *)
(* the capacity subtraction *)
Theorem cap_no_underflow m : cap_saturating cfg = true -> cs_cap_panics cfg m = false.
Proof. intros H. unfold cs_cap_panics. rewrite H. reflexivity. Qed.
Theorem cap_underflow_iff m : cap_saturating cfg = false -> (cs_cap_panics cfg m = true <-> m = []).
Proof. intros H. unfold cs_cap_panics. rewrite H. destruct m; cbn; split; congruence. Qed.
(* Display panics exactly on an invalid type string; never after a successful build with a built-in shape *)
Theorem display_no_panic_G t p t' p' : build cfg (string_shape cfg) t p = Ok (t', p') -> format_panics cfg (string_shape cfg) t' = false.
Proof.
  unfold build. cbn [sh_finish string_shape]. unfold str_finish. destruct (valid_type cfg t) eqn:Ev; [|discriminate].
  intros H. assert (t' = make_ascii_lowercase t).
  { destruct (is_empty (p_name p)); [discriminate|]. destruct (q_get cfg _ _); [|injection H as <- _; reflexivity].
    destruct (cs_try_from cfg _); [|discriminate]. destruct (cs_to_text _); [|discriminate]. destruct (q_insert cfg _ _ _); [|discriminate]. injection H as <- _. reflexivity. }
  subst t'. unfold format_panics. cbn [sh_type string_shape]. apply negb_false_iff.
  unfold valid_type, make_ascii_lowercase in *. rewrite andb_true_iff in *. destruct Ev as [H1 H2]. split; [destruct t; [discriminate|reflexivity]|].
  rewrite forallb_forall in *. intros b Hb. apply in_map_iff in Hb. destruct Hb as (b0 & <- & Hb0). specialize (H2 b0 Hb0).
  rewrite lower_ascii_b_class. destruct (is_alnum b0) eqn:Ea; [reflexivity|]. rewrite lower_ascii_b_special by exact Ea. exact H2.
Qed.
Theorem display_no_panic_P t : format_panics cfg (ptype_shape cfg) t = false.
Proof. destruct t; reflexivity. Qed.
End C6.
Print Assumptions search_found_in_bounds. Print Assumptions display_no_panic_G.
