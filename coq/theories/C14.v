From Coq Require Import List NArith ZArith Bool Lia.
From Coq.Strings Require Import Byte.
From PM Require Import Base Lemmas Text TextLemmas Model Skeleton.
Import ListNotations.
Local Open Scope N_scope.

(* ---------------- C14: the calls made to a user-supplied shape ---------------- *)
Section C14S. Variable cfg : config.
Context {T E : Type} (sh : shape T E).
Inductive call := CFromStr (ty : bytes) | CFinish (t : T) (p : parts).
Definition logged (A : Type) : Type := (list call * A)%type.

(* build and parse with every use of the shape recorded; same definitions, one extra component *)
Definition build_w (t : T) (p : parts) : logged (result E (T * parts)) := ([CFinish t p], build cfg sh t p).
Definition parse_w (s : bytes) : logged (result E (T * parts)) :=
  match strip_prefix s_pkg s with None => ([], Err (sh_inj sh EScheme)) | Some s1 =>
  let s2 := trim_start c_slash s1 in
  match take_sub cfg s2 with Err e => ([], Err (sh_inj sh e)) | Ok x3 =>
  match take_quals cfg (fst x3) with Err e => ([], Err (sh_inj sh e)) | Ok x4 =>
  if is_empty (fst x4) then ([], Err (sh_inj sh (EMissing FType))) else
  match split_once c_slash (fst x4) with None => ([], Err (sh_inj sh (EMissing FName))) | Some (ty, s5) =>
  if negb (valid_type cfg ty) then ([], Err (sh_inj sh EInvalidType)) else
  match sh_from_str sh ty with Err e => ([CFromStr ty], Err e) | Ok t =>
  match take_ver cfg s5 with Err e => ([CFromStr ty], Err (sh_inj sh e)) | Ok x6 =>
  match take_ns (fst x6) with Err e => ([CFromStr ty], Err (sh_inj sh e)) | Ok x7 =>
  match decode (fst x7) with Err e => ([CFromStr ty], Err (sh_inj sh e)) | Ok name =>
  let p := {| p_ns := snd x7; p_name := name; p_ver := snd x6; p_quals := snd x4; p_sub := snd x3 |} in
  (CFromStr ty :: fst (build_w t p), snd (build_w t p))
  end end end end end end end end.

Theorem C14_erase s : snd (parse_w s) = parse cfg sh s.
Proof.
  unfold parse_w, parse. destruct (strip_prefix s_pkg s); [|reflexivity].
  destruct (take_sub _) as [x3|]; [|reflexivity]. cbn [lift bind]. destruct (take_quals cfg _) as [x4|]; [|reflexivity]. cbn [lift bind].
  destruct (is_empty _); [reflexivity|]. destruct (split_once c_slash _) as [[ty s5]|]; [|reflexivity]. destruct (negb _); [reflexivity|].
  destruct (sh_from_str sh ty); [|reflexivity]. cbn [bind]. destruct (take_ver cfg s5); [|reflexivity]. cbn [lift bind].
  destruct (take_ns _); [|reflexivity]. cbn [lift bind]. destruct (decode _); reflexivity.
Qed.
(* at most one conversion, with a valid type substring; the hook only after it succeeded, and at most once *)
Theorem C14_calls s : match fst (parse_w s) with
  | [] => True
  | [CFromStr ty] => valid_type cfg ty = true
  | [CFromStr ty; CFinish t p] => valid_type cfg ty = true /\ sh_from_str sh ty = Ok t
  | _ => False end.
Proof.
  unfold parse_w. destruct (strip_prefix s_pkg s); [|exact I]. destruct (take_sub _); [|exact I]. destruct (take_quals cfg _); [|exact I].
  destruct (is_empty _); [exact I|]. destruct (split_once c_slash _) as [[ty s5]|]; [|exact I]. destruct (negb (valid_type cfg ty)) eqn:Ev; [exact I|].
  apply negb_false_iff in Ev. destruct (sh_from_str sh ty) eqn:Ef; [|exact Ev]. destruct (take_ver cfg s5); [|exact Ev]. destruct (take_ns _); [|exact Ev].
  destruct (decode _); [|exact Ev]. cbn. auto.
Qed.
(* the type substring is passed exactly as written: it is the text between the leading slashes and the first '/' *)
Theorem C14_arg s ty rest : fst (parse_w s) = CFromStr ty :: rest -> exists r, s = asm r /\ r_ty r = ty.
Proof.
  intros H. destruct (parse_w s) as [l res] eqn:Ew. cbn in H. subst l.
  (* the log is non-empty only after the skeleton has been split; reuse the splitting lemmas *)
  unfold parse_w in Ew. destruct (strip_prefix s_pkg s) as [s1|] eqn:E0; [|discriminate]. apply strip_prefix_some in E0.
  destruct (trim_start_spec c_slash s1) as (lead & E1 & _). set (s2 := trim_start c_slash s1) in *. clearbody s2.
  rewrite (take_sub_opt cfg) in Ew. pose proof (xsplit_opt_spec (dir_sub cfg) c_hash s2) as S3. destruct (xsplit_opt (dir_sub cfg) c_hash s2) as [s3 sub]. destruct S3 as (E3 & _).
  destruct (oget sub decode_subpath); cbn [bind] in Ew; [|discriminate]. cbn [fst snd] in Ew.
  rewrite (take_quals_opt cfg) in Ew. pose proof (xsplit_opt_spec (dir_qual cfg) c_qm s3) as S4. destruct (xsplit_opt (dir_qual cfg) c_qm s3) as [s4 q]. destruct S4 as (E4 & _).
  destruct (match q with Some qs => _ | None => _ end); cbn [bind] in Ew; [|discriminate]. cbn [fst snd] in Ew.
  destruct (is_empty s4); [discriminate|]. destruct (split_once c_slash s4) as [[ty' s5]|] eqn:E5; [|discriminate]. apply split_once_some in E5. destruct E5 as [E5 _].
  destruct (negb (valid_type cfg ty')); [discriminate|].
  pose proof (xsplit_opt_spec (dir_ver cfg) c_at s5) as S6. destruct (xsplit_opt (dir_ver cfg) c_at s5) as [s6 ver]. destruct S6 as (E6 & _).
  pose proof (rsplit_optl_spec c_slash s6) as S7. destruct (rsplit_optl c_slash s6) as [ns name]. destruct S7 as (E7 & _).
  assert (Hty : ty' = ty).
  { destruct (sh_from_str sh ty'); [|injection Ew as Ew _; congruence]. destruct (take_ver cfg s5); [|injection Ew as Ew _; congruence].
    destruct (take_ns _); [|injection Ew as Ew _; congruence]. destruct (decode _); injection Ew as Ew _; congruence. }
  subst ty'. exists {| r_lead := lead; r_ty := ty; r_ns := ns; r_name := name; r_ver := ver; r_q := q; r_sub := sub |}. split; [|reflexivity].
  unfold asm, path. cbn [r_lead r_ty r_ns r_name r_ver r_q r_sub]. subst s s1 s2 s3 s4 s5 s6. rewrite <- !app_assoc. cbn [app]. rewrite <- !app_assoc. reflexivity.
Qed.
(* build() invokes the hook exactly once, first, and returns its error unchanged *)
Theorem C14_build_once t p : fst (build_w t p) = [CFinish t p]. Proof. reflexivity. Qed.
Theorem C14_finish_error t p e : sh_finish sh t p = Err e -> build cfg sh t p = Err e.
Proof. intros H. unfold build. rewrite H. reflexivity. Qed.
Theorem C14_from_str_error r e : cfg_ok cfg -> WFr cfg r ->
  (exists d, oget (r_sub r) decode_subpath = @Ok parse_error _ d) ->
  (exists d, (match r_q r with Some qs => decode_quals cfg (split c_amp qs) [] | None => Ok [] end) = @Ok parse_error _ d) ->
  sh_from_str sh (r_ty r) = Err e -> parse cfg sh (asm r) = Err e.
Proof.
  intros C W [d1 E1] [d2 E2] H. rewrite parse_skeleton by assumption. unfold checks. rewrite E1. cbn [lift bind]. rewrite E2. cbn [lift bind]. rewrite H. reflexivity.
Qed.
End C14S.
Print Assumptions C14_calls. Print Assumptions C14_arg. Print Assumptions C14_erase.
