From Coq Require Import List NArith ZArith Bool Lia Sorted.
From Coq.Strings Require Import Byte.
From PM Require Import Base Lemmas Text TextLemmas Model Quals.
Import ListNotations.
Local Open Scope N_scope.

Section Q2. Variable cfg : config.
Hypothesis Hasc : tbl_ascii_ok cfg = true.
Hypothesis Hksp : key_special_ascii cfg = true.

Lemma insert_at_app (pre post : quals) x : insert_at (pre ++ post) (length pre) x = pre ++ x :: post.
Proof. induction pre as [|y pre IH]; cbn; [destruct post; reflexivity|]. rewrite IH. reflexivity. Qed.
Lemma set_nth_app (pre post : quals) k v w : set_nth (pre ++ (k, v) :: post) (length pre) w = pre ++ (k, w) :: post.
Proof. induction pre as [|[a b] pre IH]; cbn; [reflexivity|]. rewrite IH. reflexivity. Qed.
Lemma remove_at_app (pre post : quals) x : remove_at (pre ++ x :: post) (length pre) = pre ++ post.
Proof. induction pre as [|y pre IH]; cbn; [reflexivity|]. rewrite IH. reflexivity. Qed.
Lemma nth_error_app_mid (pre post : quals) x : nth_error (pre ++ x :: post) (length pre) = Some x.
Proof. induction pre as [|y pre IH]; cbn; [reflexivity|exact IH]. Qed.

Lemma StronglySorted_app_inv {A} (R : A -> A -> Prop) a b : StronglySorted R (a ++ b) ->
  StronglySorted R a /\ StronglySorted R b /\ Forall (fun x => Forall (R x) b) a.
Proof.
  induction a as [|x a IH]; cbn; intros H; [repeat split; [constructor|exact H|constructor]|].
  inversion H; subst. destruct (IH H2) as (H4 & H5 & H6). apply Forall_app in H3. destruct H3 as [H7 H8].
  repeat split; [constructor; assumption|assumption|constructor; assumption].
Qed.
Lemma StronglySorted_app {A} (R : A -> A -> Prop) a b : StronglySorted R a -> StronglySorted R b ->
  Forall (fun x => Forall (R x) b) a -> StronglySorted R (a ++ b).
Proof.
  induction a as [|x a IH]; cbn; intros Ha Hb Hab; [exact Hb|]. inversion Ha; subst. inversion Hab; subst.
  constructor; [apply IH; assumption|]. apply Forall_app. split; assumption.
Qed.

Lemma QInv_insert pre post k v : QInv cfg (pre ++ post) -> canon_key cfg k ->
  Forall (fun kv => klt (fst kv) k) pre -> Forall (fun kv => klt k (fst kv)) post -> QInv cfg (pre ++ (k, v) :: post).
Proof.
  unfold QInv. rewrite !map_app. cbn [map fst]. intros [Hs Hc] Hk Hpre Hpost.
  apply StronglySorted_app_inv in Hs. destruct Hs as (S1 & S2 & S3). apply Forall_app in Hc. destruct Hc as [C1 C2]. split.
  - apply StronglySorted_app; [exact S1| |].
    + constructor; [exact S2|]. rewrite Forall_map. exact Hpost.
    + rewrite Forall_map in *. rewrite Forall_forall in *. intros kv Hkv. constructor; [apply Hpre; exact Hkv|]. specialize (S3 kv Hkv). exact S3.
  - apply Forall_app. split; [exact C1|]. constructor; assumption.
Qed.
Lemma QInv_set pre post k v w : QInv cfg (pre ++ (k, v) :: post) -> QInv cfg (pre ++ (k, w) :: post).
Proof. unfold QInv. rewrite !map_app. cbn [map fst]. tauto. Qed.
Lemma QInv_remove pre post x : QInv cfg (pre ++ x :: post) -> QInv cfg (pre ++ post).
Proof.
  unfold QInv. rewrite !map_app. cbn [map]. intros [Hs Hc]. apply StronglySorted_app_inv in Hs. destruct Hs as (S1 & S2 & S3).
  apply Forall_app in Hc. destruct Hc as [C1 C2]. inversion S2; subst. inversion C2; subst. split.
  - apply StronglySorted_app; [assumption|assumption|]. eapply Forall_impl; [|exact S3]. intros a Ha. inversion Ha; subst. assumption.
  - apply Forall_app. split; assumption.
Qed.
Lemma QInv_filter f q : QInv cfg q -> QInv cfg (filter f q).
Proof.
  unfold QInv. intros [Hs Hc]. induction q as [|[k v] q IH]; cbn; [split; constructor|].
  cbn in Hs, Hc. inversion Hs; subst. inversion Hc; subst. destruct (IH H1 H4) as [I1 I2].
  destruct (f (k, v)); cbn; [|split; assumption]. split; [|constructor; assumption].
  constructor; [exact I1|]. rewrite Forall_map in *. rewrite Forall_forall in *. intros kv Hkv. apply H2. apply filter_In in Hkv. tauto.
Qed.
Lemma QInv_nil : QInv cfg []. Proof. split; constructor. Qed.

(* q_insert / q_get / q_remove against the invariant *)
Theorem q_insert_inv q k v q' : QInv cfg q -> q_insert cfg q k v = Ok q' -> QInv cfg q'.
Proof.
  intros HQ. unfold q_insert. destruct (check_key cfg k) as [m|e] eqn:Ec; [|discriminate]. cbn [bind].
  destruct (into_key_lk cfg m k Ec) as (Hik & Hms & Hvk). unfold search. rewrite Hms.
  pose proof (search_from_spec cfg Hasc Hksp q HQ k 0%nat Hvk) as S. destruct (search_from cfg q k 0) as [j|j].
  - destruct S as (pre & w & post & -> & ->). intros [= <-]. rewrite set_nth_app. eapply QInv_set. exact HQ.
  - destruct S as (pre & post & -> & -> & H1 & H2). intros [= <-]. rewrite insert_at_app, Hik. apply QInv_insert; try assumption.
    split; [apply valid_key_lk; exact Hvk|apply lk_idem].
Qed.
End Q2.
