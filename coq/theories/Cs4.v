From Coq Require Import List NArith ZArith Bool Lia Sorted Permutation.
From Coq.Strings Require Import Byte.
From PM Require Import Base Lemmas Text TextLemmas Model Quals Lower Lower2 Lower3 Cs Cs2 Cs3 LowerAny.
Import ListNotations.
Local Open Scope N_scope.

(* hex digits *)
Lemma hexdigit_lower b : is_hexdigit b = true -> is_hexdigit (lower_ascii_b b) = true /\ bn b < 128 /\ b <> c_comma /\ b <> c_colon /\ lower_ascii_b (lower_ascii_b b) = lower_ascii_b b.
Proof. destruct b; cbn; try discriminate; intros _; repeat split; try discriminate; vm_compute; reflexivity. Qed.
Lemma hex_ok_mal h : hex_ok h = true -> hex_ok (make_ascii_lowercase h) = true.
Proof.
  unfold hex_ok. rewrite !andb_true_iff. intros [H1 H2]. unfold make_ascii_lowercase. rewrite map_length. split; [|exact H2].
  rewrite forallb_forall in *. intros b Hb. apply in_map_iff in Hb. destruct Hb as (b0 & <- & Hb0). apply hexdigit_lower. apply H1. exact Hb0.
Qed.
Lemma hex_ok_chars h : hex_ok h = true -> forall b, In b (make_ascii_lowercase h) -> is_hexdigit b = true.
Proof.
  unfold hex_ok. rewrite andb_true_iff, forallb_forall. intros [H1 _] b Hb. apply in_map_iff in Hb. destruct Hb as (b0 & <- & Hb0).
  apply hexdigit_lower. apply H1. exact Hb0.
Qed.
Lemma mal_idem h : make_ascii_lowercase (make_ascii_lowercase h) = make_ascii_lowercase h.
Proof. apply lk_idem. Qed.

Section CS4. Variable cfg : config.
Hypothesis Hasc : tbl_ascii_ok cfg = true.
Hypothesis Hsa : scan_ascii_ok cfg = true.
Hypothesis Hfix : tbl_img_fixed cfg = true.
Hypothesis Hsc : tbl_img_scalar cfg = true.
Hypothesis Hnc : tbl_no_comma cfg = true.

Lemma utf8_valid_ascii_str s : is_ascii_str s = true -> utf8_valid s = true.
Proof. intros H. unfold utf8_valid. rewrite (utf8_dec_ascii cfg s H). reflexivity. Qed.
Definition entry (e : bytes * bytes) : bytes := fst e ++ c_colon :: make_ascii_lowercase (snd e).
Definition canon_m (m : cmap) : cmap := map (fun e => (fst e, make_ascii_lowercase (snd e))) (cs_sort m).
Definition alg_ok (a : bytes) : Prop := utf8_valid a = true /\ lowercase_str cfg a = a /\ ~ In c_comma a.

Lemma cs_to_text_ok m txt : cs_to_text m = Ok txt ->
  Forall (fun e => hex_ok (snd e) = true) m /\ txt = join c_comma (map entry (cs_sort m)).
Proof.
  unfold cs_to_text. destruct (forallb (fun e => hex_ok (snd e)) m) eqn:E; [|discriminate]. intros [= <-]. split; [|reflexivity].
  apply Forall_forall. rewrite forallb_forall in E. exact E.
Qed.

Lemma parsed_algs_ok v m : utf8_valid v = true -> cs_try_from cfg v = Ok m ->
  m <> [] /\ NoDup (map fst m) /\ Forall (fun e => alg_ok (fst e)) m.
Proof.
  intros Hv H. unfold cs_try_from in H. apply cs_parse_items_sound in H. destruct H as (es & HF & -> & Hnd). cbn [app] in *.
  split; [|split; [apply Hnd; constructor|]].
  - destruct (split c_comma v) eqn:Es; [exfalso; eapply split_nonnil; eassumption|]. inversion HF; subst. discriminate.
  - clear Hnd. pose proof (utf8_valid_split c_comma v comma_ascii Hv) as Hval. pose proof (split_pieces c_comma v) as Hnoc.
    revert HF Hval Hnoc. generalize (split c_comma v). intros items HF. induction HF as [|it e items es Hit HF IH]; intros Hval Hnoc; [constructor|].
    inversion Hval as [|? ? Hv1 Hv2]; subst. inversion Hnoc as [|? ? Hn1 Hn2]; subst. constructor; [|apply IH; assumption].
    unfold parse_item in Hit. destruct (rsplit_once c_colon it) as [[alg hex]|] eqn:Er; [|discriminate]. injection Hit as <-. cbn [fst].
    apply rsplit_once_some in Er. destruct Er as [-> _]. apply utf8_valid_split_ascii in Hv1; [|apply colon_ascii]. destruct Hv1 as [Hva _].
    assert (Hna : ~ In c_comma alg) by (intros Hin; apply Hn1; apply in_or_app; left; exact Hin).
    split; [|split].
    + apply utf8_valid_lowercase_any; assumption.
    + apply lowercase_str_idem_any; assumption.
    + apply lowercase_no_comma_any; assumption.
Qed.

Lemma entry_no_comma e : alg_ok (fst e) -> hex_ok (snd e) = true -> ~ In c_comma (entry e).
Proof.
  intros (_ & _ & Ha) Hh Hin. unfold entry in Hin. apply in_app_or in Hin. destruct Hin as [Hin|[Hin|Hin]]; [tauto|discriminate Hin|].
  apply (hex_ok_chars _ Hh) in Hin. discriminate Hin.
Qed.
Lemma parse_item_entry e : alg_ok (fst e) -> hex_ok (snd e) = true ->
  parse_item cfg (entry e) = Some (fst e, make_ascii_lowercase (snd e)).
Proof.
  intros (_ & Hid & _) Hh. unfold parse_item, entry. rewrite rsplit_once_app; [rewrite Hid; reflexivity|].
  intros Hin. apply (hex_ok_chars _ Hh) in Hin. discriminate Hin.
Qed.
Lemma sorted_map_keys (l : cmap) f : (forall e, fst (f e) = fst e) -> StronglySorted klt' l -> StronglySorted klt' (map f l).
Proof.
  intros Hf. induction 1 as [|x l Hs IH Hall]; cbn; constructor; [exact IH|]. rewrite Forall_map. eapply Forall_impl; [|exact Hall].
  intros y Hy. unfold klt' in *. rewrite !Hf. exact Hy.
Qed.

(* C12: the text of a typed value parses back to the same entries (sorted, hex lower-cased) *)
Theorem cs_text_parse m txt : m <> [] -> NoDup (map fst m) -> Forall (fun e => alg_ok (fst e)) m -> cs_to_text m = Ok txt ->
  cs_try_from cfg txt = Ok (canon_m m) /\ cs_to_text (canon_m m) = Ok txt /\ txt <> [] /\ utf8_valid txt = true.
Proof.
  intros Hne Hnd Halg Ht. unfold canon_m. destruct (cs_to_text_ok m txt Ht) as [Hhex ->].
  pose proof (cs_sort_perm m) as Hperm. pose proof (cs_sort_sorted m Hnd) as Hsorted.
  assert (Halg' : Forall (fun e => alg_ok (fst e)) (cs_sort m)) by (eapply Permutation_Forall; [symmetry; exact Hperm|exact Halg]).
  assert (Hhex' : Forall (fun e => hex_ok (snd e) = true) (cs_sort m)) by (eapply Permutation_Forall; [symmetry; exact Hperm|exact Hhex]).
  assert (Hne' : cs_sort m <> []) by (intros E; rewrite E in Hperm; apply Permutation_nil in Hperm; congruence).
  set (sm := cs_sort m) in *. clearbody sm.
  assert (Hkeys : map fst (map (fun e => (fst e, make_ascii_lowercase (snd e))) sm) = map fst sm) by (rewrite map_map; reflexivity).
  split; [|split; [|split]].
  - unfold cs_try_from. rewrite split_join.
    + change (map (fun e => (fst e, make_ascii_lowercase (snd e))) sm) with ([] ++ map (fun e => (fst e, make_ascii_lowercase (snd e))) sm).
      apply cs_parse_items_complete.
      * clear - Halg' Hhex'. induction sm as [|e sm IH]; [constructor|]. inversion Halg'; subst. inversion Hhex'; subst. cbn [map]. constructor; [apply parse_item_entry; assumption|apply IH; assumption].
      * cbn [app]. rewrite Hkeys. eapply Permutation_NoDup; [apply Permutation_map; symmetry; exact Hperm|exact Hnd].
    + destruct sm; [congruence|discriminate].
    + clear - Halg' Hhex'. induction sm as [|e sm IH]; [constructor|]. inversion Halg'; subst. inversion Hhex'; subst. cbn [map]. constructor; [apply entry_no_comma; assumption|apply IH; assumption].
  - unfold cs_to_text.
    replace (forallb (fun e => hex_ok (snd e)) (map (fun e => (fst e, make_ascii_lowercase (snd e))) sm)) with true.
    2:{ symmetry. apply forallb_forall. intros e He. apply in_map_iff in He. destruct He as (e0 & <- & He0). cbn. apply hex_ok_mal.
        rewrite Forall_forall in Hhex'. apply Hhex'. exact He0. }
    rewrite cs_sort_id by (apply sorted_map_keys; [reflexivity|exact Hsorted]).
    f_equal. f_equal. rewrite map_map. apply map_ext. intros e. unfold entry. cbn. rewrite mal_idem. reflexivity.
  - destruct sm as [|e sm]; [congruence|]. cbn [map]. unfold entry at 1. destruct (map entry sm); cbn; destruct (fst e); discriminate.
  - apply utf8_valid_join; [apply comma_ascii|]. apply Forall_forall. intros x Hx. apply in_map_iff in Hx. destruct Hx as (e & <- & He).
    rewrite Forall_forall in Halg', Hhex'. destruct (Halg' e He) as (Hva & _). unfold entry. apply utf8_valid_app; [exact Hva|].
    rewrite utf8_valid_ascii_cons by apply colon_ascii. apply utf8_valid_ascii_str. unfold is_ascii_str. apply forallb_forall. intros b Hb.
    apply (hex_ok_chars _ (Hhex' e He)) in Hb. apply hexdigit_lower in Hb. destruct Hb as (_ & Hb & _). apply N.ltb_lt. exact Hb.
Qed.
Theorem cs_fix v m txt : utf8_valid v = true -> cs_try_from cfg v = Ok m -> cs_to_text m = Ok txt ->
  cs_try_from cfg txt = Ok (canon_m m) /\ cs_to_text (canon_m m) = Ok txt /\ txt <> [] /\ utf8_valid txt = true.
Proof. intros Hv Hp Ht. destruct (parsed_algs_ok v m Hv Hp) as (Hne & Hnd & Halg). apply cs_text_parse; assumption. Qed.

(* C12: hex encoding of bytes round-trips, and an inserted entry is found under the lower-cased algorithm *)
End CS4.
Print Assumptions cs_fix.
Lemma hex_rt_lower b : hexval (hexL (bn b / 16)) = Some (bn b / 16) /\ hexval (hexL (bn b mod 16)) = Some (bn b mod 16)
                 /\ nb (16 * (bn b / 16) + bn b mod 16) = b.
Proof. destruct b; vm_compute; repeat split. Qed.
Theorem hex_decode_encode bs : hex_decode (hex_encode bs) = Some bs.
Proof.
  induction bs as [|b bs IH]; [reflexivity|]. cbn [hex_encode flat_map app]. fold (hex_encode bs). cbn [hex_decode].
  destruct (hex_rt_lower b) as (H1 & H2 & H3). rewrite H1, H2, IH, H3. reflexivity.
Qed.
Print Assumptions cs_text_parse. Print Assumptions hex_decode_encode.
