From Coq Require Import List NArith ZArith Bool Lia ZifyBool ZifyN.
From Coq.Strings Require Import Byte.
From PM Require Import Base Lemmas Text.
Import ListNotations.
Local Open Scope N_scope.
Ltac Zify.zify_post_hook ::= Z.div_mod_to_equations.

(* ---------- bytes as numbers ---------- *)
Lemma bn_bound b : bn b <= 255.
Proof. unfold bn. pose proof (Byte.to_N_bounded b). lia. Qed.
Lemma bn_nb n : n <= 255 -> bn (nb n) = n.
Proof. intros H. unfold bn, nb. destruct (Byte.of_N n) eqn:E. - apply Byte.to_of_N in E. exact E. - apply Byte.of_N_None_iff in E. lia. Qed.
Lemma nb_bn b : nb (bn b) = b.
Proof. unfold nb, bn. rewrite Byte.of_to_N. reflexivity. Qed.
Lemma bn_inj a b : bn a = bn b -> a = b.
Proof. intros H. rewrite <- (nb_bn a), <- (nb_bn b), H. reflexivity. Qed.

(* ---------- percent codec ---------- *)
Lemma hex_rt b : hexval (hexU (bn b / 16)) = Some (bn b / 16) /\ hexval (hexU (bn b mod 16)) = Some (bn b mod 16)
                 /\ nb (16 * (bn b / 16) + bn b mod 16) = b.
Proof. destruct b; vm_compute; repeat split. Qed.
Lemma pdecode_enc_byte S b rest : mem c_pct S = true -> pdecode (enc_byte S b ++ rest) = b :: pdecode rest.
Proof.
  intros HS. unfold enc_byte. destruct (should_encode S b) eqn:E.
  - cbn [app pdecode]. rewrite beq_refl. destruct (hex_rt b) as (H1 & H2 & H3). rewrite H1, H2, H3. reflexivity.
  - cbn [app pdecode]. destruct (beq b c_pct) eqn:Eb; [|reflexivity].
    apply beq_true in Eb. subst b. unfold should_encode in E. rewrite HS, orb_true_r in E. discriminate.
Qed.
Lemma pdecode_penc S l : mem c_pct S = true -> pdecode (penc S l) = l.
Proof. intros HS. induction l as [|b l IH]; [reflexivity|]. cbn [penc flat_map]. rewrite pdecode_enc_byte by assumption. f_equal. exact IH. Qed.
Lemma penc_app S a b : penc S (a ++ b) = penc S a ++ penc S b.
Proof. apply flat_map_app. Qed.
Lemma pdecode_nonempty s : s <> [] -> pdecode s <> [].
Proof.
  destruct s as [|b t]; [congruence|intros _]. cbn [pdecode].
  destruct (beq b c_pct); [|discriminate]. destruct t as [|h [|lo t']]; try discriminate.
  destruct (hexval h), (hexval lo); discriminate.
Qed.
Lemma pdecode_nil_iff s : pdecode s = [] <-> s = [].
Proof. split; [|intros ->; reflexivity]. intros H. destruct s; [reflexivity|]. exfalso. eapply pdecode_nonempty; [|exact H]. discriminate. Qed.
Lemma penc_nil_iff S s : penc S s = [] <-> s = [].
Proof. split; [|intros ->; reflexivity]. destruct s as [|b t]; [reflexivity|]. cbn. unfold enc_byte. destruct (should_encode S b); discriminate. Qed.
(* the characters of an encoded string *)
Definition is_hexU_byte (c : byte) : bool := inr 48 57 (bn c) || inr 65 70 (bn c).
Lemma hexU_is n : n < 16 -> is_hexU_byte (hexU n) = true.
Proof. intros H. assert (Hc : n = 0 \/ n = 1 \/ n = 2 \/ n = 3 \/ n = 4 \/ n = 5 \/ n = 6 \/ n = 7 \/ n = 8 \/ n = 9 \/ n = 10 \/ n = 11 \/ n = 12 \/ n = 13 \/ n = 14 \/ n = 15) by lia.
  repeat (destruct Hc as [->|Hc]; [reflexivity|]). subst. reflexivity. Qed.
Lemma in_penc S x c : In c (penc S x) -> c = c_pct \/ is_hexU_byte c = true \/ (In c x /\ should_encode S c = false).
Proof.
  induction x as [|b x IH]; cbn [penc flat_map]; [intros []|]. intros H. apply in_app_or in H. destruct H as [H|H].
  - unfold enc_byte in H. destruct (should_encode S b) eqn:E.
    + pose proof (bn_bound b). destruct H as [<-|[<-|[<-|[]]]]; [left; reflexivity|right; left; apply hexU_is; lia|right; left; apply hexU_is; lia].
    + destruct H as [<-|[]]. right. right. split; [left; reflexivity|exact E].
  - destruct (IH H) as [?|[?|[? ?]]]; auto. right. right. split; [right; assumption|assumption].
Qed.
Lemma penc_no S x c : c <> c_pct -> is_hexU_byte c = false -> should_encode S c = true -> ~ In c (penc S x).
Proof. intros H1 H2 H3 Hin. apply in_penc in Hin. destruct Hin as [?|[?|[_ ?]]]; congruence. Qed.
Lemma penc_join S c ps : should_encode S c = false -> penc S (join c ps) = join c (map (penc S) ps).
Proof.
  intros Hc. induction ps as [|p ps IH]; [reflexivity|]. destruct ps as [|q ps]; [reflexivity|].
  change (join c (p :: q :: ps)) with (p ++ c :: join c (q :: ps)). rewrite penc_app.
  change (penc S (c :: join c (q :: ps))) with (enc_byte S c ++ penc S (join c (q :: ps))).
  unfold enc_byte. rewrite Hc. cbn [app]. rewrite IH. reflexivity.
Qed.

Lemma decode_ok s d : decode s = Ok d -> d = pdecode s /\ utf8_valid d = true.
Proof. unfold decode. destruct (utf8_valid (pdecode s)) eqn:E; [|discriminate]. intros [= <-]. auto. Qed.
Lemma decode_penc S x : mem c_pct S = true -> utf8_valid x = true -> decode (penc S x) = Ok x.
Proof. intros HS Hv. unfold decode. rewrite pdecode_penc by assumption. rewrite Hv. reflexivity. Qed.

(* ---------- UTF-8 ---------- *)
Lemma utf8_dec_ascii_cons b t : bn b < 128 -> utf8_dec (b :: t) = option_map (cons (bn b)) (utf8_dec t).
Proof. intros H. cbn [utf8_dec]. replace (bn b <? 128) with true by lia. reflexivity. Qed.
Lemma utf8_valid_ascii_cons b t : bn b < 128 -> utf8_valid (b :: t) = utf8_valid t.
Proof. intros H. unfold utf8_valid. rewrite utf8_dec_ascii_cons by assumption. destruct (utf8_dec t); reflexivity. Qed.

Ltac disc := let H := fresh in intros H; discriminate H.
(* splitting at an ASCII byte: strong induction on the length of the prefix *)
Lemma utf8_dec_split_ascii : forall n a c b cs, (length a <= n)%nat -> bn c < 128 ->
  utf8_dec (a ++ c :: b) = Some cs ->
  exists ca cb, utf8_dec a = Some ca /\ utf8_dec b = Some cb /\ cs = ca ++ bn c :: cb.
Proof.
  induction n as [|n IH]; intros a c b cs Hlen Hc.
  - destruct a; [|cbn in Hlen; lia]. cbn [app]. rewrite utf8_dec_ascii_cons by assumption.
    destruct (utf8_dec b) as [cb|]; [|disc]. intros [= <-]. exists [], cb. auto.
  - destruct a as [|b0 t].
    { cbn [app]. rewrite utf8_dec_ascii_cons by assumption.
      destruct (utf8_dec b) as [cb|]; [|disc]. intros [= <-]. exists [], cb. auto. }
    cbn [length] in Hlen. cbn [app utf8_dec]. assert (Hcc : cont c = false) by (unfold cont, inr; lia).
    destruct (bn b0 <? 128) eqn:E1.
    { destruct (utf8_dec (t ++ c :: b)) as [r|] eqn:Er; [|disc]. intros [= <-].
      destruct (IH t c b r ltac:(lia) Hc Er) as (ca & cb & H1 & H2 & ->). exists (bn b0 :: ca), cb. rewrite H1. auto. }
    destruct (inr 194 223 (bn b0)) eqn:E2.
    { destruct t as [|b1 t1]; cbn [app]; [rewrite Hcc; cbv iota; disc|].
      destruct (cont b1) eqn:Ec; [|disc].
      destruct (utf8_dec (t1 ++ c :: b)) as [r|] eqn:Er; [|disc]. intros [= <-].
      destruct (IH t1 c b r ltac:(cbn in Hlen; lia) Hc Er) as (ca & cb & H1 & H2 & ->).
      eexists (_ :: ca), cb. rewrite H1. cbn. auto. }
    destruct (inr 224 239 (bn b0)) eqn:E3.
    { assert (Hlo : forall lo hi, 128 <= lo -> inr lo hi (bn c) = false) by (intros; unfold inr; lia).
      destruct t as [|b1 [|b2 t2]]; cbn [app].
      - destruct b as [|b2 t2]; [disc|]. rewrite Hlo by (destruct (bn b0 =? 224); lia). cbn [andb]. disc.
      - rewrite Hcc, andb_false_r. cbv iota. disc.
      - destruct (_ && cont b2) eqn:Ec; [|disc].
        destruct (utf8_dec (t2 ++ c :: b)) as [r|] eqn:Er; [|disc]. intros [= <-].
        destruct (IH t2 c b r ltac:(cbn in Hlen; lia) Hc Er) as (ca & cb & H1 & H2 & ->).
        eexists (_ :: ca), cb. rewrite H1. cbn. auto. }
    destruct (inr 240 244 (bn b0)) eqn:E4; [|disc].
    { assert (Hlo : forall lo hi, 128 <= lo -> inr lo hi (bn c) = false) by (intros; unfold inr; lia).
      destruct t as [|b1 [|b2 [|b3 t3]]]; cbn [app].
      - destruct b as [|b2 [|b3 t3]]; try disc. rewrite Hlo by (destruct (bn b0 =? 240); lia). cbn [andb]. disc.
      - destruct b as [|b3 t3]; [disc|]. rewrite Hcc, andb_false_r. cbn [andb]. disc.
      - rewrite Hcc, andb_false_r. cbv iota. disc.
      - destruct (_ && cont b2 && cont b3) eqn:Ec; [|disc].
        destruct (utf8_dec (t3 ++ c :: b)) as [r|] eqn:Er; [|disc]. intros [= <-].
        destruct (IH t3 c b r ltac:(cbn in Hlen; lia) Hc Er) as (ca & cb & H1 & H2 & ->).
        eexists (_ :: ca), cb. rewrite H1. cbn. auto. }
Qed.
Lemma utf8_valid_split_ascii a c b : bn c < 128 -> utf8_valid (a ++ c :: b) = true -> utf8_valid a = true /\ utf8_valid b = true.
Proof.
  intros Hc. unfold utf8_valid. destruct (utf8_dec (a ++ c :: b)) as [cs|] eqn:E; [|disc]. intros _.
  destruct (utf8_dec_split_ascii (length a) a c b cs (le_n _) Hc E) as (ca & cb & -> & -> & _). auto.
Qed.
(* concatenation of valid strings *)
Lemma utf8_dec_app : forall n a b ca, (length a <= n)%nat -> utf8_dec a = Some ca -> utf8_dec (a ++ b) = option_map (app ca) (utf8_dec b).
Proof.
  induction n as [|n IH]; intros a b ca Hlen.
  - destruct a; [|cbn in Hlen; lia]. intros [= <-]. cbn. destruct (utf8_dec b); reflexivity.
  - destruct a as [|b0 t]; [intros [= <-]; cbn; destruct (utf8_dec b); reflexivity|].
    cbn [length] in Hlen. cbn [app utf8_dec].
    destruct (bn b0 <? 128).
    { destruct (utf8_dec t) as [r|] eqn:Er; [|disc]. intros [= <-]. rewrite (IH t b r) by (auto; lia).
      destruct (utf8_dec b); reflexivity. }
    destruct (inr 194 223 (bn b0)).
    { destruct t as [|b1 t1]; [disc|]. cbn [app]. destruct (cont b1); [|disc].
      destruct (utf8_dec t1) as [r|] eqn:Er; [|disc]. intros [= <-]. rewrite (IH t1 b r) by (auto; cbn in Hlen; lia).
      destruct (utf8_dec b); reflexivity. }
    destruct (inr 224 239 (bn b0)).
    { destruct t as [|b1 [|b2 t2]]; try disc. cbn [app]. destruct (_ && cont b2); [|disc].
      destruct (utf8_dec t2) as [r|] eqn:Er; [|disc]. intros [= <-]. rewrite (IH t2 b r) by (auto; cbn in Hlen; lia).
      destruct (utf8_dec b); reflexivity. }
    destruct (inr 240 244 (bn b0)); [|disc].
    destruct t as [|b1 [|b2 [|b3 t3]]]; try disc. cbn [app]. destruct (_ && cont b2 && cont b3); [|disc].
    destruct (utf8_dec t3) as [r|] eqn:Er; [|disc]. intros [= <-]. rewrite (IH t3 b r) by (auto; cbn in Hlen; lia).
    destruct (utf8_dec b); reflexivity.
Qed.
Lemma utf8_valid_app a b : utf8_valid a = true -> utf8_valid b = true -> utf8_valid (a ++ b) = true.
Proof.
  unfold utf8_valid. destruct (utf8_dec a) as [ca|] eqn:Ea; [|disc]. intros _.
  rewrite (utf8_dec_app (length a) a b ca (le_n _) Ea). destruct (utf8_dec b); [reflexivity|disc].
Qed.
Lemma utf8_valid_join c ps : bn c < 128 -> Forall (fun p => utf8_valid p = true) ps -> utf8_valid (join c ps) = true.
Proof.
  intros Hc H. induction H as [|p ps Hp Hps IH]; [reflexivity|]. destruct ps as [|q ps]; [exact Hp|].
  change (join c (p :: q :: ps)) with (p ++ c :: join c (q :: ps)). apply utf8_valid_app; [exact Hp|].
  rewrite utf8_valid_ascii_cons by assumption. exact IH.
Qed.
Lemma utf8_valid_split c s : bn c < 128 -> utf8_valid s = true -> Forall (fun p => utf8_valid p = true) (split c s).
Proof.
  intros Hc. remember (length s) as n eqn:Hn. revert s Hn. induction n as [n IH] using lt_wf_ind. intros s Hn Hv.
  destruct (in_dec Byte.byte_eq_dec c s) as [Hin|Hnin].
  - apply in_split in Hin. destruct Hin as (a & b & ->).
    (* choose the first occurrence: use split_app_gen to avoid needing ~In c a *)
    rewrite split_app_gen. apply utf8_valid_split_ascii in Hv; [|assumption]. destruct Hv as [Ha Hb].
    apply Forall_app. split; (eapply IH; [|reflexivity|assumption]); subst n; rewrite app_length; cbn; lia.
  - rewrite split_nosep by assumption. constructor; [assumption|constructor].
Qed.
Print Assumptions utf8_valid_split.

(* encode/decode of scalar values *)
Definition is_scalar (c : N) := (c <? 55296) || ((57344 <=? c) && (c <? 1114112)).
Lemma utf8_dec_enc1 c r : is_scalar c = true -> utf8_dec (enc1 c ++ r) = option_map (cons c) (utf8_dec r).
Proof.
  intros Hs. unfold is_scalar in Hs. unfold enc1.
  destruct (c <? 128) eqn:E1.
  { cbn [app utf8_dec]. rewrite bn_nb by lia. rewrite E1. reflexivity. }
  destruct (c <? 2048) eqn:E2.
  { cbn [app utf8_dec]. unfold cont, inr. rewrite !bn_nb by lia.
    replace (192 + c / 64 <? 128) with false by lia.
    replace ((194 <=? 192 + c / 64) && (192 + c / 64 <=? 223)) with true by lia.
    replace ((128 <=? 128 + c mod 64) && (128 + c mod 64 <=? 191)) with true by lia.
    replace ((192 + c / 64 - 192) * 64 + (128 + c mod 64 - 128)) with c by lia. reflexivity. }
  destruct (c <? 65536) eqn:E3.
  { cbn [app utf8_dec]. unfold cont, inr. rewrite !bn_nb by lia.
    replace (224 + c / 4096 <? 128) with false by lia.
    replace ((194 <=? 224 + c / 4096) && (224 + c / 4096 <=? 223)) with false by lia.
    replace ((224 <=? 224 + c / 4096) && (224 + c / 4096 <=? 239)) with true by lia.
    match goal with |- (if ?g then _ else _) = _ => replace g with true by (destruct (224 + c / 4096 =? 224) eqn:?, (224 + c / 4096 =? 237) eqn:?; lia) end.
    match goal with |- option_map (cons ?x) _ = _ => replace x with c by lia end. reflexivity. }
  cbn [app utf8_dec]. unfold cont, inr. rewrite !bn_nb by lia.
  replace (240 + c / 262144 <? 128) with false by lia.
  replace ((194 <=? 240 + c / 262144) && (240 + c / 262144 <=? 223)) with false by lia.
  replace ((224 <=? 240 + c / 262144) && (240 + c / 262144 <=? 239)) with false by lia.
  replace ((240 <=? 240 + c / 262144) && (240 + c / 262144 <=? 244)) with true by lia.
  match goal with |- (if ?g then _ else _) = _ => replace g with true by (destruct (240 + c / 262144 =? 240) eqn:?, (240 + c / 262144 =? 244) eqn:?; lia) end.
  match goal with |- option_map (cons ?x) _ = _ => replace x with c by lia end. reflexivity.
Qed.
Lemma utf8_dec_enc cs : Forall (fun c => is_scalar c = true) cs -> utf8_dec (utf8_enc cs) = Some cs.
Proof.
  induction 1 as [|c cs Hc Hcs IH]; [reflexivity|]. cbn [utf8_enc flat_map]. rewrite utf8_dec_enc1 by assumption.
  unfold utf8_enc in IH. rewrite IH. reflexivity.
Qed.
Print Assumptions utf8_dec_enc.
