From Coq Require Import List NArith Bool.
From Coq.Strings Require Import Byte.
From PM Require Import Base Text.
Import ListNotations.
Local Open Scope N_scope.

Definition B (s : list byte) : bytes := s.
Definition c_slash : byte := "/"%byte. Definition c_hash : byte := "#"%byte. Definition c_qm : byte := "?"%byte.
Definition c_at : byte := "@"%byte. Definition c_amp : byte := "&"%byte. Definition c_eq : byte := "="%byte.
Definition c_colon : byte := ":"%byte. Definition c_comma : byte := ","%byte. Definition c_dot : byte := "."%byte.
Definition c_dash : byte := "-"%byte.
Definition s_pkg : bytes := ["p"; "k"; "g"; ":"]%byte.
Definition s_dot : bytes := [c_dot]. Definition s_dotdot : bytes := [c_dot; c_dot].
Definition s_checksum : bytes := ["c";"h";"e";"c";"k";"s";"u";"m"]%byte.

(* ---------------- configuration: constants and variation points read from the source ---------------- *)
Record config := {
  set_path : bytes; set_seg : bytes; set_query : bytes; set_frag : bytes;
  type_special : bytes; key_special : bytes; dash_chars : bytes;
  lower_tbl : list (N * list N);   (* char::to_lowercase, non-identity entries *)
  upper_rng : list (N * N);        (* char::is_uppercase, inclusive ranges *)
  fold_tbl : list (N * list N);    (* unicase fold, non-identity entries *)
  scan_lower_ne : bool;            (* lib.rs scan condition: true = to_lowercase().ne([c]), false = is_uppercase() *)
  cap_saturating : bool;           (* well_known.rs capacity: true = saturating_sub(1), false = - 1 *)
  maven_ns_segments : bool;        (* package_type.rs maven check: true = no non-empty segment, false = is_empty() *)
  dir_sub : bool; dir_qual : bool; dir_ver : bool;   (* parse.rs: true = rsplit_once (last occurrence), false = split_once, at '#', '?', '@' *)
  typed_keys : list bytes;         (* KEY of the str_ref_qualifier! types, in source order: RepositoryUrl, DownloadUrl, VcsUrl, FileName, gem::Platform, maven::Classifier, maven::Type *)
}.

Section M.
Variable cfg : config.

(* ---------------- Unicode case mapping (std tables) ---------------- *)
(* the dumped tables are in ascending code-point order (checked in gen/Tables.v), so the look-up may stop at the first larger key *)
Fixpoint tbl_find (t : list (N * list N)) (c : N) : option (list N) :=
  match t with [] => None | (k, v) :: r => if k =? c then Some v else if c <? k then None else tbl_find r c end.
Definition lower_c (c : N) : list N := match tbl_find (lower_tbl cfg) c with Some l => l | None => [c] end.
Definition fold_c (c : N) : list N := match tbl_find (fold_tbl cfg) c with Some l => l | None => [c] end.
Definition is_uppercase (c : N) : bool := existsb (fun r => inr (fst r) (snd r) c) (upper_rng cfg).
Fixpoint leqb (a b : list N) : bool :=
  match a, b with [], [] => true | x :: a', y :: b' => (x =? y) && leqb a' b' | _, _ => false end.
Definition chars (s : bytes) : list N := match utf8_dec s with Some cs => cs | None => [] end.

Inductive lstate := SLower | SMixedAscii | SMixedUnicode.
Definition scan_hit (c : N) : bool := if scan_lower_ne cfg then negb (leqb (lower_c c) [c]) else is_uppercase c.
Fixpoint scan (cs : list N) (st : lstate) : lstate :=
  match cs with
  | [] => st
  | c :: t => if scan_hit c then (if c <? 128 then scan t SMixedAscii else SMixedUnicode) else scan t st
  end.
(* lib.rs lowercase_in_place / copy_as_lowercase (same algorithm) *)
Definition lowercase_str (s : bytes) : bytes :=
  match scan (chars s) SLower with
  | SLower => s
  | SMixedAscii => make_ascii_lowercase s
  | SMixedUnicode => utf8_enc (flat_map lower_c (chars s))
  end.
(* the specification: every character replaced by its lower-case mapping *)
Definition spec_lower (s : bytes) : bytes := utf8_enc (flat_map lower_c (chars s)).

(* ---------------- validity of type and key ---------------- *)
Definition valid_type (t : bytes) : bool :=
  negb (is_empty t) && forallb (fun b => is_alnum b || mem b (type_special cfg)) t.
Definition valid_key (k : bytes) : bool :=
  negb (is_empty k) && forallb (fun b => is_alnum b || mem b (key_special cfg)) k.

(* ---------------- Qualifiers: sorted Vec<(QualifierKey, SmallString)> ---------------- *)
Definition quals := list (bytes * bytes).
Inductive mixed := KLower (k : bytes) | KMixed (k : bytes).
Definition mixed_str (m : mixed) := match m with KLower k | KMixed k => k end.
Definition check_key (k : bytes) : result parse_error mixed :=
  if valid_key k then Ok (if forallb is_lower_ascii k then KLower k else KMixed k) else Err EInvalidQualifier.
Definition into_key (m : mixed) : bytes := match m with KLower k => k | KMixed k => make_ascii_lowercase k end.
Fixpoint lcmp (a b : list N) : comparison :=
  match a, b with [], [] => Eq | [], _ => Lt | _, [] => Gt
  | x :: a', y :: b' => match N.compare x y with Eq => lcmp a' b' | c => c end end.
(* QualifierKey::partial_cmp(other): self.chars().cmp(other.chars().flat_map(to_lowercase)) *)
Definition qkey_cmp (stored other : bytes) : comparison := lcmp (chars stored) (flat_map lower_c (chars other)).
(* slice::binary_search_by on a strictly sorted slice: Ok(i) / Err(i) *)
Inductive sres := Found (i : nat) | NotFound (i : nat).
Fixpoint search_from (q : quals) (k : bytes) (i : nat) : sres :=
  match q with
  | [] => NotFound i
  | (qk, _) :: t => match qkey_cmp qk k with Lt => search_from t k (S i) | Eq => Found i | Gt => NotFound i end
  end.
Definition search (q : quals) (m : mixed) := search_from q (mixed_str m) 0.
Fixpoint set_nth (q : quals) (i : nat) (v : bytes) : quals :=
  match q, i with [], _ => [] | (k, _) :: t, O => (k, v) :: t | x :: t, S j => x :: set_nth t j v end.
Fixpoint insert_at (q : quals) (i : nat) (kv : bytes * bytes) : quals :=
  match i, q with O, _ => kv :: q | S j, x :: t => x :: insert_at t j kv | S _, [] => [kv] end.
Fixpoint remove_at (q : quals) (i : nat) : quals :=
  match q, i with [], _ => [] | _ :: t, O => t | x :: t, S j => x :: remove_at t j end.
Definition q_get (q : quals) (k : bytes) : option bytes :=
  match check_key k with Err _ => None | Ok m =>
    match search q m with Found i => option_map snd (nth_error q i) | NotFound _ => None end end.
Definition q_insert (q : quals) (k v : bytes) : result parse_error quals :=
  m <- check_key k ;;
  match search q m with
  | Found i => Ok (set_nth q i v)
  | NotFound i => Ok (insert_at q i (into_key m, v))
  end.
Definition q_remove (q : quals) (k : bytes) : quals * option bytes :=
  match check_key k with Err _ => (q, None) | Ok m =>
    match search q m with Found i => (remove_at q i, option_map snd (nth_error q i)) | NotFound _ => (q, None) end end.
Definition q_retain (f : bytes -> bytes -> bool) (q : quals) : quals := filter (fun kv => f (fst kv) (snd kv)) q.

(* ---------------- Checksum (well_known.rs) ---------------- *)
Definition cmap := list (bytes * bytes).   (* HashMap: unique keys; iteration order unspecified *)
Fixpoint cm_get (m : cmap) (k : bytes) : option bytes :=
  match m with [] => None | (a, v) :: t => if beqs a k then Some v else cm_get t k end.
Fixpoint cm_set (m : cmap) (k v : bytes) : cmap :=   (* HashMap::insert *)
  match m with [] => [(k, v)] | (a, w) :: t => if beqs a k then (a, v) :: t else (a, w) :: cm_set t k v end.
Definition cm_remove (m : cmap) (k : bytes) : cmap := filter (fun e => negb (beqs (fst e) k)) m.
Fixpoint cs_parse_items (items : list bytes) (m : cmap) : result parse_error cmap :=
  match items with
  | [] => Ok m
  | h :: t =>
    match rsplit_once c_colon h with
    | None => Err EInvalidQualifier
    | Some (alg, hex) =>
      let a := lowercase_str alg in
      match cm_get m a with Some _ => Err EInvalidQualifier | None => cs_parse_items t (m ++ [(a, hex)]) end
    end
  end.
Definition cs_try_from (v : bytes) : result parse_error cmap := cs_parse_items (split c_comma v) [].
Fixpoint ins_sorted (e : bytes * bytes) (l : cmap) : cmap :=
  match l with [] => [e] | x :: t => match bcmp (fst e) (fst x) with Gt => x :: ins_sorted e t | _ => e :: x :: t end end.
Definition cs_sort (m : cmap) : cmap := fold_right ins_sorted [] m.
Definition hex_ok (h : bytes) : bool := forallb is_hexdigit h && (N.of_nat (length h) mod 2 =? 0).
Definition cs_cap_panics (m : cmap) : bool := negb (cap_saturating cfg) && match m with [] => true | _ => false end.
Definition cs_to_text (m : cmap) : result parse_error bytes :=
  if forallb (fun e => hex_ok (snd e)) m
  then Ok (join c_comma (map (fun e => fst e ++ c_colon :: make_ascii_lowercase (snd e)) (cs_sort m)))
  else Err EInvalidQualifier.
Definition cs_insert_raw (m : cmap) (alg v : bytes) : cmap :=
  match cm_get m alg with Some _ => cm_set m alg v | None => cm_set m (lowercase_str alg) v end.
Definition hex_encode (bs : bytes) : bytes := flat_map (fun b => [hexL (bn b / 16); hexL (bn b mod 16)]) bs.
Fixpoint hex_decode (h : bytes) : option bytes :=
  match h with
  | [] => Some []
  | a :: (b :: t) => match hexval a, hexval b, hex_decode t with Some x, Some y, Some r => Some (nb (16 * x + y) :: r) | _, _, _ => None end
  | _ => None
  end.

(* ---------------- PurlParts / shapes / build ---------------- *)
Record parts := { p_ns : bytes; p_name : bytes; p_ver : bytes; p_quals : quals; p_sub : bytes }.
Definition parts0 := {| p_ns := []; p_name := []; p_ver := []; p_quals := []; p_sub := [] |}.
Record shape (T E : Type) := {
  sh_from_str : bytes -> result E T;
  sh_finish : T -> parts -> result E (T * parts);
  sh_type : T -> bytes;
  sh_inj : parse_error -> E;
}.
Arguments sh_from_str {T E}. Arguments sh_finish {T E}. Arguments sh_type {T E}. Arguments sh_inj {T E}.

Definition with_quals (p : parts) (q : quals) : parts :=
  {| p_ns := p_ns p; p_name := p_name p; p_ver := p_ver p; p_quals := q; p_sub := p_sub p |}.
Definition with_name (p : parts) (n : bytes) : parts :=
  {| p_ns := p_ns p; p_name := n; p_ver := p_ver p; p_quals := p_quals p; p_sub := p_sub p |}.

Definition build {T E} (sh : shape T E) (t : T) (p : parts) : result E (T * parts) :=
  match sh_finish sh t p with
  | Err e => Err e
  | Ok (t1, p1) =>
    if is_empty (p_name p1) then Err (sh_inj sh (EMissing FName)) else
    let q1 := q_retain (fun _ v => negb (is_empty v)) (p_quals p1) in
    match q_get q1 s_checksum with
    | None => Ok (t1, with_quals p1 q1)
    | Some v =>
      match cs_try_from v with
      | Err e => Err (sh_inj sh e)
      | Ok m => match cs_to_text m with
                | Err e => Err (sh_inj sh e)
                | Ok txt => match q_insert q1 s_checksum txt with
                            | Err e => Err (sh_inj sh e)
                            | Ok q2 => Ok (t1, with_quals p1 q2) end
                end
      end
    end
  end.

(* built-in string shapes: String, Cow (owned/borrowed), SmartString: same function *)
Definition str_finish (t : bytes) (p : parts) : result parse_error (bytes * parts) :=
  if valid_type t then Ok (make_ascii_lowercase t, p) else Err EInvalidType.
Definition cow_borrowed_finish (t : bytes) (p : parts) : result parse_error (bytes * parts) :=
  if valid_type t then Ok (if forallb is_lower_ascii t then t else make_ascii_lowercase t, p) else Err EInvalidType.
Definition string_shape : shape bytes parse_error :=
  {| sh_from_str := fun s => Ok s; sh_finish := str_finish; sh_type := fun t => t; sh_inj := fun e => e |}.

(* PackageType *)
Inductive ptype := Cargo | Gem | Golang | Maven | Npm | NuGet | PyPI.
Inductive package_error := PMissing (f : field) | PParse (e : parse_error) | PUnsupportedType.
Definition all_ptypes := [Cargo; Gem; Golang; Maven; Npm; NuGet; PyPI].
Definition pt_name (t : ptype) : bytes :=
  match t with
  | Cargo => ["c";"a";"r";"g";"o"] | Gem => ["g";"e";"m"] | Golang => ["g";"o";"l";"a";"n";"g"]
  | Maven => ["m";"a";"v";"e";"n"] | Npm => ["n";"p";"m"] | NuGet => ["n";"u";"g";"e";"t"] | PyPI => ["p";"y";"p";"i"]
  end%byte.
Definition is_ascii_str (s : bytes) := forallb (fun b => bn b <? 128) s.
(* UniCase eq: Ascii/Ascii = eq_ignore_ascii_case; otherwise compare fold sequences *)
Definition unicase_eq (key s : bytes) : bool :=
  if is_ascii_str s then beqs (make_ascii_lowercase key) (make_ascii_lowercase s)
  else leqb (flat_map fold_c (chars key)) (flat_map fold_c (chars s)).
Definition pt_from_str (s : bytes) : option ptype := find (fun t => unicase_eq (pt_name t) s) all_ptypes.
Definition is_dash (c : N) : bool := existsb (fun b => bn b =? c) (dash_chars cfg).
Fixpoint pypi_go (cs : list N) (in_dash : bool) : list N :=
  match cs with
  | [] => []
  | c :: t => if is_dash c then (if in_dash then pypi_go t true else bn c_dash :: pypi_go t true)
              else lower_c c ++ pypi_go t false
  end.
Definition fix_pypi_name (n : bytes) : bytes :=
  if existsb is_dash (chars n) then utf8_enc (pypi_go (chars n) false) else lowercase_str n.
Definition maven_ns_missing (ns : bytes) : bool :=
  if maven_ns_segments cfg then forallb is_empty (split c_slash ns) else is_empty ns.
Definition pt_finish (t : ptype) (p : parts) : result package_error (ptype * parts) :=
  match t with
  | Cargo | Gem | Npm | Golang => Ok (t, p)
  | Maven => if maven_ns_missing (p_ns p) then Err (PMissing FNamespace) else Ok (t, p)
  | NuGet => Ok (t, with_name p (lowercase_str (p_name p)))
  | PyPI => Ok (t, with_name p (fix_pypi_name (p_name p)))
  end.
Definition ptype_shape : shape ptype package_error :=
  {| sh_from_str := fun s => match pt_from_str s with Some t => Ok t | None => Err PUnsupportedType end;
     sh_finish := pt_finish; sh_type := pt_name; sh_inj := PParse |}.

(* ---------------- parse.rs ---------------- *)
Fixpoint rebuild_segs (segs : list bytes) (skip : bytes -> bool) (bad : bytes -> bool) (acc : bytes) : result parse_error bytes :=
  match segs with
  | [] => Ok acc
  | s :: t =>
    if skip s then rebuild_segs t skip bad acc else
    match decode s with
    | Err e => Err e
    | Ok d => if bad d then Err EInvalidEscape
              else rebuild_segs t skip bad (if is_empty acc then d else acc ++ c_slash :: d)
    end
  end.
Definition is_dotseg (s : bytes) := beqs s s_dot || beqs s s_dotdot.
Definition decode_subpath (s : bytes) : result parse_error bytes :=
  rebuild_segs (split c_slash (trim c_slash s)) (fun s => is_empty s || is_dotseg s)
               (fun d => mem c_slash d || is_dotseg d) [].
Definition decode_namespace (s : bytes) : result parse_error bytes :=
  rebuild_segs (split c_slash (trim c_slash s)) is_empty (fun d => mem c_slash d) [].
Fixpoint decode_quals (items : list bytes) (q : quals) : result parse_error quals :=
  match items with
  | [] => Ok q
  | it :: t =>
    match split_once c_eq it with
    | None => Err EInvalidQualifier
    | Some (k, v) =>
      m <- check_key k ;;
      match search q m with
      | Found _ => Err EInvalidQualifier
      | NotFound i => d <- decode v ;;
                 if is_empty d then decode_quals t q else decode_quals t (insert_at q i (into_key m, d))
      end
    end
  end.

Definition xsplit_once (d : bool) (c : byte) (s : bytes) := if d then rsplit_once c s else split_once c s.
Definition take_sub (s : bytes) : result parse_error (bytes * bytes) :=
  match xsplit_once (dir_sub cfg) c_hash s with
  | Some (a, b) => sp <- decode_subpath b ;; Ok (a, sp)
  | None => Ok (s, []) end.
Definition take_quals (s : bytes) : result parse_error (bytes * quals) :=
  match xsplit_once (dir_qual cfg) c_qm s with
  | Some (a, b) => q <- decode_quals (split c_amp b) [] ;; Ok (a, q)
  | None => Ok (s, []) end.
Definition take_ver (s : bytes) : result parse_error (bytes * bytes) :=
  match xsplit_once (dir_ver cfg) c_at s with
  | Some (a, b) => v <- decode b ;; Ok (a, v)
  | None => Ok (s, []) end.
Definition take_ns (s : bytes) : result parse_error (bytes * bytes) :=
  match rsplit_once c_slash s with
  | Some (a, b) => ns <- decode_namespace a ;; Ok (b, ns)
  | None => Ok (s, []) end.
Definition lift {T E A} (sh : shape T E) (r : result parse_error A) : result E A :=
  match r with Ok a => Ok a | Err e => Err (sh_inj sh e) end.

Definition parse {T E} (sh : shape T E) (s : bytes) : result E (T * parts) :=
  match strip_prefix s_pkg s with None => Err (sh_inj sh EScheme) | Some s1 =>
  let s2 := trim_start c_slash s1 in
  x3 <- lift sh (take_sub s2) ;;
  x4 <- lift sh (take_quals (fst x3)) ;;
  if is_empty (fst x4) then Err (sh_inj sh (EMissing FType)) else
  match split_once c_slash (fst x4) with None => Err (sh_inj sh (EMissing FName)) | Some (ty, s5) =>
  if negb (valid_type ty) then Err (sh_inj sh EInvalidType) else
  t <- sh_from_str sh ty ;;
  x6 <- lift sh (take_ver s5) ;;
  x7 <- lift sh (take_ns (fst x6)) ;;
  name <- lift sh (decode (fst x7)) ;;
  build sh t {| p_ns := snd x7; p_name := name; p_ver := snd x6; p_quals := snd x4; p_sub := snd x3 |}
  end end.

(* ---------------- format.rs ---------------- *)
Definition fmt_quals (q : quals) : bytes :=
  match q with
  | [] => []
  | _ => c_qm :: join c_amp (map (fun kv => penc (set_query cfg) (fst kv) ++ c_eq :: penc (set_query cfg) (snd kv)) q)
  end.
Definition format_panics {T E} (sh : shape T E) (t : T) : bool := negb (valid_type (sh_type sh t)).
Definition format {T E} (sh : shape T E) (t : T) (p : parts) : bytes :=
  s_pkg ++ sh_type sh t ++ [c_slash]
  ++ (if is_empty (p_ns p) then [] else penc (set_path cfg) (p_ns p) ++ [c_slash])
  ++ penc (set_seg cfg) (p_name p)
  ++ (if is_empty (p_ver p) then [] else c_at :: penc (set_path cfg) (p_ver p))
  ++ fmt_quals (p_quals p)
  ++ (if is_empty (p_sub p) then [] else c_hash :: penc (set_frag cfg) (p_sub p)).

(* ---------------- lib.rs combined names ---------------- *)
Definition combined_split (t : ptype) (s : bytes) : option bytes * bytes :=
  match t with
  | Cargo | Gem | NuGet | PyPI => (None, s)
  | Golang | Npm => match rsplit_once c_slash s with Some (a, b) => (Some a, b) | None => (None, s) end
  | Maven => match split_once c_colon s with Some (a, b) => (Some a, b) | None => (None, s) end
  end.
Definition combined_name (t : ptype) (p : parts) : bytes :=
  match t with
  | Cargo | Gem | NuGet | PyPI => p_name p
  | Golang | Npm => if is_empty (p_ns p) then p_name p else p_ns p ++ c_slash :: p_name p
  | Maven => if is_empty (p_ns p) then p_name p else p_ns p ++ c_colon :: p_name p
  end.
End M.
Arguments sh_from_str {T E}. Arguments sh_finish {T E}. Arguments sh_type {T E}. Arguments sh_inj {T E}.
