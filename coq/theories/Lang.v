From Coq Require Import List NArith ZArith Bool Lia Sorted.
From Coq.Strings Require Import Byte.
From PM Require Import Base Lemmas Text TextLemmas Model Skeleton Segs Quals Quals2 Quals3 Canon DecQual C02q C02.
Import ListNotations.
Local Open Scope N_scope.

(* ---------------- the accepted language, exactly ----------------
   C02 says: every legal spelling parses to the components it denotes.  This file proves the converse: every string the parser accepts IS a
   legal spelling (in the sense of C02.spelling_ok) - nothing else gets through, however it is written.  Together:
      parse s = Ok x   <->   exists a legal spelling sp of s whose type converts and whose components build to x. *)
Section LANG. Variable cfg : config.
Hypothesis Hcfg : cfg_ok cfg.
Hypothesis Hasc : tbl_ascii_ok cfg = true.
Hypothesis Hksp : key_special_ascii cfg = true.
Hypothesis Hk_eq : mem c_eq (key_special cfg) = false.
Hypothesis Hk_amp : mem c_amp (key_special cfg) = false.
Context {T E : Type} (sh : shape T E).

(* reading an item `key=value` back *)
Definition unitem (it : bytes) : bytes * bytes := match split_once c_eq it with Some kv => kv | None => (it, []) end.

Lemma keys_not_in pre post k : Forall (fun kv : bytes * bytes => klt (fst kv) k) pre -> Forall (fun kv : bytes * bytes => klt k (fst kv)) post ->
  ~ In k (map fst (pre ++ post)).
Proof.
  intros H1 H2 Hin. rewrite map_app in Hin. apply in_app_or in Hin. destruct Hin as [Hin|Hin]; apply in_map_iff in Hin; destruct Hin as (kv & <- & Hkv).
  - rewrite Forall_forall in H1. apply (klt_irrefl (fst kv)). apply H1. exact Hkv.
  - rewrite Forall_forall in H2. apply (klt_irrefl (fst kv)). apply H2. exact Hkv.
Qed.

Theorem decode_quals_sound items : forall acc seen q, QInv cfg acc -> (forall k, In k (map fst acc) <-> In k seen) ->
  decode_quals cfg items acc = Ok q ->
  map raw_item (map unitem items) = items /\ Forall (item_ok cfg) (map unitem items) /\ order_ok seen (map unitem items).
Proof.
  induction items as [|it items IH]; intros acc seen q HQ Hseen H; cbn [map decode_quals order_ok]; [repeat split; constructor|].
  cbn [decode_quals] in H. unfold unitem at 1 3 5. destruct (split_once c_eq it) as [[k v]|] eqn:Es; [|discriminate].
  apply split_once_some in Es. destruct Es as [-> Hnk].
  apply bind_ok in H. destruct H as (m & Ec & H). destruct (into_key_lk cfg m k Ec) as (Hik & Hms & Hk).
  unfold search in H. rewrite Hms in H.
  pose proof (search_from_spec cfg Hasc Hksp acc HQ k 0%nat Hk) as S. destruct (search_from cfg acc k 0) as [j|j]; [discriminate|].
  destruct S as (pre & post & -> & -> & H1 & H2).
  apply bind_ok in H. destruct H as (d & Ed & H). apply decode_ok in Ed. destruct Ed as [-> Hv].
  assert (Hnew : ~ In (lk k) seen) by (intros Hin; apply Hseen in Hin; revert Hin; apply keys_not_in; assumption).
  destruct (is_empty (pdecode v)) eqn:Ee.
  - destruct (IH _ seen _ HQ Hseen H) as (I1 & I2 & I3). split; [|split].
    + unfold raw_item at 1. cbn [fst snd]. f_equal. exact I1.
    + constructor; [split; assumption|exact I2].
    + split; [exact Hnew|exact I3].
  - cbn [Nat.add] in H. rewrite insert_at_app, Hik in H.
    assert (HQ' : QInv cfg (pre ++ (lk k, pdecode v) :: post)).
    { apply QInv_insert; try assumption. split; [apply valid_key_lk; exact Hk|apply lk_idem]. }
    assert (Hseen' : forall k', In k' (map fst (pre ++ (lk k, pdecode v) :: post)) <-> In k' (lk k :: seen)).
    { intros k'. rewrite map_app. cbn [map fst]. rewrite in_app_iff. cbn [In]. specialize (Hseen k'). rewrite map_app, in_app_iff in Hseen. tauto. }
    destruct (IH _ _ _ HQ' Hseen' H) as (I1 & I2 & I3). split; [|split].
    + unfold raw_item at 1. cbn [fst snd]. f_equal. exact I1.
    + constructor; [split; assumption|exact I2].
    + split; [exact Hnew|exact I3].
Qed.

Lemma unitem_no_amp it : ~ In c_amp it -> ~ In c_amp (snd (unitem it)).
Proof.
  unfold unitem. destruct (split_once c_eq it) as [[k v]|] eqn:Es; [|cbn; tauto].
  apply split_once_some in Es. destruct Es as [-> _]. cbn [snd]. intros H Hin. apply H. apply in_or_app. right. right. exact Hin.
Qed.

(* the spelling read off a skeleton *)
Definition sp_of (r : raw) : @spelling :=
  {| sp_lead := r_lead r; sp_ty := r_ty r;
     sp_ns := match r_ns r with Some n => split c_slash n | None => [] end;
     sp_name := r_name r; sp_ver := r_ver r;
     sp_q := option_map (fun qs => map unitem (split c_amp qs)) (r_q r);
     sp_sub := option_map (split c_slash) (r_sub r) |}.

Theorem accepted_is_legal_spelling s x : parse cfg sh s = Ok x ->
  exists sp, spelling_ok cfg sp /\ s = asm (raw_of sp).
Proof.
  intros H. destruct (parse_sound cfg sh s x H) as (r & W & -> & Hc). unfold checks in Hc.
  apply bind_ok in Hc. destruct Hc as (sub & Hsub & Hc). apply lift_ok in Hsub.
  apply bind_ok in Hc. destruct Hc as (q & Hq & Hc). apply lift_ok in Hq.
  apply bind_ok in Hc. destruct Hc as (t & Ht & Hc).
  apply bind_ok in Hc. destruct Hc as (ver & Hver & Hc). apply lift_ok in Hver.
  apply bind_ok in Hc. destruct Hc as (ns & Hns & Hc). apply lift_ok in Hns.
  apply bind_ok in Hc. destruct Hc as (name & Hname & Hc). apply lift_ok in Hname.
  (* the qualifier items, once *)
  assert (HQ : match r_q r with Some qs => map raw_item (map unitem (split c_amp qs)) = split c_amp qs /\ Forall (item_ok cfg) (map unitem (split c_amp qs))
                                        /\ order_ok [] (map unitem (split c_amp qs)) | None => True end).
  { destruct (r_q r) as [qs|]; [|exact I]. apply (decode_quals_sound _ [] [] q); [apply QInv_nil|cbn; tauto|exact Hq]. }
  assert (Hraw : raw_of (sp_of r) = r).
  { destruct r as [lead ty rns rname rver rq rsub]. unfold raw_of, sp_of. cbn [sp_lead sp_ty sp_ns sp_name sp_ver sp_q sp_sub r_lead r_ty r_ns r_name r_ver r_q r_sub] in *. f_equal.
    - destruct rns as [n|]; [|reflexivity]. unfold ns_raw. destruct (split c_slash n) eqn:En; [exfalso; revert En; apply split_nonnil|]. rewrite <- En, join_split. reflexivity.
    - destruct rq as [qs|]; [|reflexivity]. cbn [option_map]. destruct HQ as (-> & _). rewrite join_split. reflexivity.
    - destruct rsub as [sb|]; [|reflexivity]. cbn [option_map]. rewrite join_split. reflexivity. }
  exists (sp_of r). split; [|rewrite Hraw; reflexivity].
  constructor.
  - rewrite Hraw. exact W.
  - cbn [sp_of sp_ns]. destruct (r_ns r); [apply split_pieces|constructor].
  - cbn [sp_of sp_ns]. destruct (r_ns r) as [n|]; [|constructor]. cbn [oget] in Hns. apply decode_namespace_sound in Hns. destruct Hns as [_ Hall].
    unfold ns_pieces in Hall. rewrite Forall_map in Hall. eapply Forall_impl; [|exact Hall]. intros p (_ & H2 & H3). split; assumption.
  - cbn [sp_of sp_name]. apply decode_ok in Hname. destruct Hname as [-> Hv]. exact Hv.
  - cbn [sp_of sp_ver]. destruct (r_ver r) as [v|]; [|exact I]. cbn [oget] in Hver. apply decode_ok in Hver. destruct Hver as [-> Hv]. exact Hv.
  - cbn [sp_of sp_q]. destruct (r_q r) as [qs|]; [|exact I]. cbn [option_map]. destruct HQ as (_ & I2 & I3). repeat split; try assumption.
    + destruct (split c_amp qs) eqn:En; [exfalso; revert En; apply split_nonnil|discriminate].
    + rewrite Forall_map. eapply Forall_impl; [|apply split_pieces]. intros it Hit. apply unitem_no_amp. exact Hit.
  - cbn [sp_of sp_sub]. destruct (r_sub r); [apply split_pieces|exact I].
  - cbn [sp_of sp_sub]. destruct (r_sub r) as [sb|]; [|exact I]. cbn [option_map oget] in *. apply decode_subpath_sound in Hsub. destruct Hsub as [_ Hall].
    unfold sub_pieces in Hall. rewrite Forall_map in Hall. eapply Forall_impl; [|exact Hall]. intros p (_ & H2 & H3 & H4). repeat split; assumption.
Qed.

(* the accepted language, exactly *)
Theorem accepted_iff s x : parse cfg sh s = Ok x <->
  exists sp, spelling_ok cfg sp /\ s = asm (raw_of sp) /\ (t <- sh_from_str sh (sp_ty sp) ;; build cfg sh t (parts_of sp)) = Ok x.
Proof.
  split.
  - intros H. destruct (accepted_is_legal_spelling s x H) as (sp & Hok & ->). exists sp. split; [exact Hok|split; [reflexivity|]].
    rewrite <- (C02 cfg Hcfg Hasc Hksp Hk_eq Hk_amp sh sp Hok). exact H.
  - intros (sp & Hok & -> & H). rewrite (C02 cfg Hcfg Hasc Hksp Hk_eq Hk_amp sh sp Hok). exact H.
Qed.
(* contrapositive, the form C05 uses: a string that is no legal spelling is refused, whatever the shape *)
Corollary not_a_spelling_is_refused s : (forall sp, spelling_ok cfg sp -> s <> asm (raw_of sp)) -> exists e, parse cfg sh s = Err e.
Proof.
  intros H. destruct (parse cfg sh s) as [x|e] eqn:Ep; [|eauto]. exfalso.
  destruct (accepted_is_legal_spelling s x Ep) as (sp & Hok & Hs). exact (H sp Hok Hs).
Qed.
End LANG.
Print Assumptions accepted_iff.
