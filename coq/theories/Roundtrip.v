From Coq Require Import List NArith ZArith Bool Lia Sorted.
From Coq.Strings Require Import Byte.
From PM Require Import Base Lemmas Text TextLemmas Model Skeleton Segs Quals Canon Canon2 DecQual.
Import ListNotations.

Section R. Variable cfg : config.
Context {T E : Type} (sh : shape T E).

(* every side condition on the constants read from the source that the round trip needs *)
Record rt_ok : Prop := {
  rt_cfg : cfg_ok cfg;
  rt_sets : sets_ok cfg;
  rt_asc : tbl_ascii_ok cfg = true;
  rt_ksp : key_special_ascii cfg = true;
  rt_kp : keychars_plain cfg = true;
  rt_keq : mem c_eq (key_special cfg) = false;
  rt_amp : mem c_amp (set_query cfg) = true;
  rt_pct_path : mem c_pct (set_path cfg) = true;
  rt_pct_seg : mem c_pct (set_seg cfg) = true;
  rt_pct_query : mem c_pct (set_query cfg) = true;
  rt_pct_frag : mem c_pct (set_frag cfg) = true;
  rt_slash_path : should_encode (set_path cfg) c_slash = false;
  rt_slash_frag : should_encode (set_frag cfg) c_slash = false;
  rt_dot_frag : should_encode (set_frag cfg) c_dot = false;
}.

Definition norm_parts (p : parts) : parts :=
  {| p_ns := join c_slash (ns_pieces (p_ns p)); p_name := p_name p; p_ver := p_ver p; p_quals := p_quals p;
     p_sub := join c_slash (sub_pieces (p_sub p)) |}.
Definition fields_valid (p : parts) : Prop :=
  utf8_valid (p_ns p) = true /\ utf8_valid (p_name p) = true /\ utf8_valid (p_ver p) = true /\ utf8_valid (p_sub p) = true
  /\ QInv cfg (p_quals p) /\ vals_ok (p_quals p).

Lemma ns_pieces_nil : ns_pieces [] = []. Proof. reflexivity. Qed.
Lemma sub_pieces_nil : sub_pieces [] = []. Proof. reflexivity. Qed.

Theorem parse_format t p : rt_ok -> valid_type cfg (sh_type sh t) = true -> fields_valid p ->
  parse cfg sh (format cfg sh t p) = (t' <- sh_from_str sh (sh_type sh t) ;; build cfg sh t' (norm_parts p)).
Proof.
  intros R Hty (Vns & Vname & Vver & Vsub & HQ & HV). destruct R.
  rewrite format_is_asm. rewrite parse_skeleton by (try assumption; apply canon_wf; assumption).
  unfold checks, canon, nonempty_opt, norm_parts. cbn [r_ty r_ns r_name r_ver r_q r_sub].
  (* subpath *)
  replace (oget (if is_empty (p_sub p) then None else Some (penc (set_frag cfg) (p_sub p))) decode_subpath)
    with (@Ok parse_error _ (join c_slash (sub_pieces (p_sub p)))).
  2:{ destruct (p_sub p) as [|b s] eqn:Es; [reflexivity|]. cbn [is_empty oget]. symmetry. rewrite <- Es in *. apply decode_subpath_penc; assumption. }
  cbn [lift bind].
  (* qualifiers *)
  replace (match quals_raw cfg (p_quals p) with Some qs => decode_quals cfg (split c_amp qs) [] | None => Ok [] end)
    with (@Ok parse_error _ (p_quals p)).
  2:{ unfold quals_raw. destruct (p_quals p) as [|kv q] eqn:Eq; [reflexivity|]. symmetry. rewrite <- Eq in *.
      apply decode_quals_items; try assumption. rewrite Eq. discriminate. }
  cbn [lift bind]. destruct (sh_from_str sh (sh_type sh t)) as [t'|e]; [|reflexivity]. cbn [bind].
  (* version *)
  replace (oget (if is_empty (p_ver p) then None else Some (penc (set_path cfg) (p_ver p))) decode) with (@Ok parse_error _ (p_ver p)).
  2:{ destruct (p_ver p) as [|b s] eqn:Es; [reflexivity|]. cbn [is_empty oget]. symmetry. rewrite <- Es in *. apply decode_penc; assumption. }
  cbn [lift bind].
  (* namespace *)
  replace (oget (if is_empty (p_ns p) then None else Some (penc (set_path cfg) (p_ns p))) decode_namespace)
    with (@Ok parse_error _ (join c_slash (ns_pieces (p_ns p)))).
  2:{ destruct (p_ns p) as [|b s] eqn:Es; [reflexivity|]. cbn [is_empty oget]. symmetry. rewrite <- Es in *. apply decode_namespace_penc; assumption. }
  cbn [lift bind].
  rewrite decode_penc by assumption. cbn [lift bind]. reflexivity.
Qed.
End R.
Print Assumptions parse_format.
