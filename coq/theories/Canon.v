From Coq Require Import List NArith Bool Lia.
From Coq.Strings Require Import Byte.
From PM Require Import Base Lemmas Text TextLemmas Model Skeleton.
Import ListNotations.

Section C. Variable cfg : config.
Context {T E : Type} (sh : shape T E).

Definition item (kv : bytes * bytes) : bytes := penc (set_query cfg) (fst kv) ++ c_eq :: penc (set_query cfg) (snd kv).
Definition quals_raw (q : quals) : option bytes := match q with [] => None | _ :: _ => Some (join c_amp (map item q)) end.
Definition nonempty_opt (s : bytes) (f : bytes -> bytes) : option bytes := if is_empty s then None else Some (f s).
Definition canon (t : T) (p : parts) : raw :=
  {| r_lead := 0; r_ty := sh_type sh t;
     r_ns := nonempty_opt (p_ns p) (penc (set_path cfg));
     r_name := penc (set_seg cfg) (p_name p);
     r_ver := nonempty_opt (p_ver p) (penc (set_path cfg));
     r_q := quals_raw (p_quals p);
     r_sub := nonempty_opt (p_sub p) (penc (set_frag cfg)) |}.

Theorem format_is_asm t p : format cfg sh t p = asm (canon t p).
Proof.
  unfold format, asm, canon, path, nonempty_opt, fmt_quals, quals_raw. cbn [r_lead r_ty r_ns r_name r_ver r_q r_sub repeat app].
  f_equal. f_equal. cbn [app]. f_equal.
  destruct (is_empty (p_ns p)), (is_empty (p_ver p)), (is_empty (p_sub p)), (p_quals p) as [|kv q];
    cbn [optl opt app]; rewrite <- ?app_assoc; cbn [app]; try reflexivity.
Qed.

(* which sets must contain which separators for the canonical string to be well formed *)
Record sets_ok : Prop := {
  so_seg_slash : mem c_slash (set_seg cfg) = true;
  so_path_at : mem c_at (set_path cfg) = true;   so_seg_at : mem c_at (set_seg cfg) = true;
  so_path_qm : mem c_qm (set_path cfg) = true;   so_seg_qm : mem c_qm (set_seg cfg) = true;   so_query_qm : mem c_qm (set_query cfg) = true;
  so_path_hash : mem c_hash (set_path cfg) = true; so_seg_hash : mem c_hash (set_seg cfg) = true;
  so_query_hash : mem c_hash (set_query cfg) = true; so_frag_hash : mem c_hash (set_frag cfg) = true;
}.
Lemma sep_plain : forall c, In c [c_slash; c_at; c_qm; c_hash; c_amp; c_eq] -> c <> c_pct /\ is_hexU_byte c = false.
Proof. intros c H. repeat (destruct H as [<-|H]; [split; [discriminate|reflexivity]|]). destruct H. Qed.
Lemma penc_nosep S x c : In c [c_slash; c_at; c_qm; c_hash; c_amp; c_eq] -> mem c S = true -> ~ In c (penc S x).
Proof. intros Hc HS. destruct (sep_plain c Hc) as [H1 H2]. apply penc_no; [exact H1|exact H2|]. unfold should_encode. rewrite HS. apply orb_true_r. Qed.
Ltac sep := cbn; tauto.

Lemma in_items c q : In c (join c_amp (map item q)) -> c = c_amp \/ c = c_eq \/ exists kv, In kv q /\ (In c (penc (set_query cfg) (fst kv)) \/ In c (penc (set_query cfg) (snd kv))).
Proof.
  intros H. apply in_join in H. destruct H as [->|(it & Hit & Hc)]; [auto|]. apply in_map_iff in Hit. destruct Hit as (kv & <- & Hkv).
  unfold item in Hc. apply in_app_or in Hc. destruct Hc as [Hc|[<-|Hc]]; [|auto|]; right; right; exists kv; auto.
Qed.

Theorem canon_wf t p : sets_ok -> valid_type cfg (sh_type sh t) = true -> WFr cfg (canon t p).
Proof.
  intros SO Hty. destruct SO. unfold canon, nonempty_opt.
  assert (P1 : forall c, In c [c_at; c_qm; c_hash] -> mem c (set_path cfg) = true) by (intros c [<-|[<-|[<-|[]]]]; assumption).
  assert (P2 : forall c, In c [c_at; c_qm; c_hash; c_slash] -> mem c (set_seg cfg) = true) by (intros c [<-|[<-|[<-|[<-|[]]]]]; assumption).
  assert (Hpath : forall c, In c [c_at; c_qm; c_hash] ->
            ~ In c (optl (if is_empty (p_ns p) then None else Some (penc (set_path cfg) (p_ns p))) c_slash ++ penc (set_seg cfg) (p_name p))).
  { intros c Hc Hin. apply in_app_or in Hin. destruct Hin as [Hin|Hin].
    - apply in_optl in Hin. destruct Hin as [->|Hin]; [destruct Hc as [H|[H|[H|[]]]]; discriminate H|].
      destruct (is_empty (p_ns p)); [exact Hin|]. revert Hin. apply penc_nosep; [destruct Hc as [<-|[<-|[<-|[]]]]; sep|apply P1; exact Hc].
    - revert Hin. apply penc_nosep; [destruct Hc as [<-|[<-|[<-|[]]]]; sep|apply P2; destruct Hc as [<-|[<-|[<-|[]]]]; sep]. }
  assert (Hver : forall c, In c [c_at; c_qm; c_hash] -> noco c (if is_empty (p_ver p) then None else Some (penc (set_path cfg) (p_ver p)))).
  { intros c Hc. destruct (is_empty (p_ver p)); cbn; [exact I|]. apply penc_nosep; [destruct Hc as [<-|[<-|[<-|[]]]]; sep|apply P1; exact Hc]. }
  assert (Hq : forall c, In c [c_qm; c_hash] -> noco c (quals_raw (p_quals p))).
  { intros c Hc. unfold quals_raw. destruct (p_quals p) as [|kv q]; [exact I|]. unfold noco. intros Hin. apply in_items in Hin.
    destruct Hin as [->|[->|(kv' & _ & [Hin|Hin])]]; try (destruct Hc as [H|[H|[]]]; discriminate H);
    revert Hin; (apply penc_nosep; [destruct Hc as [<-|[<-|[]]]; sep|destruct Hc as [<-|[<-|[]]]; assumption]). }
  constructor; unfold sep_ok, noc, path; cbn [r_ty r_ns r_name r_ver r_q r_sub].
  - exact Hty.
  - apply penc_nosep; [sep|assumption].
  - pose proof (Hver c_at ltac:(sep)) as Hv. pose proof (Hpath c_at ltac:(sep)) as Hp.
    destruct (is_empty (p_ver p)); [exact Hp|]. destruct (dir_ver cfg); [exact Hv|exact Hp].
  - pose proof (Hq c_qm ltac:(sep)) as Hq'. pose proof (Hpath c_qm ltac:(sep)) as Hp. pose proof (Hver c_qm ltac:(sep)) as Hv.
    destruct (quals_raw (p_quals p)); [destruct (dir_qual cfg); [exact Hq'|split; assumption]|split; assumption].
  - pose proof (Hpath c_hash ltac:(sep)) as Hp. pose proof (Hver c_hash ltac:(sep)) as Hv. pose proof (Hq c_hash ltac:(sep)) as Hq'.
    destruct (is_empty (p_sub p)) eqn:Es; [repeat split; assumption|].
    destruct (dir_sub cfg); [apply penc_nosep; [sep|assumption]|repeat split; assumption].
Qed.
End C.
Print Assumptions canon_wf. Print Assumptions format_is_asm.
