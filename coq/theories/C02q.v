From Coq Require Import List NArith ZArith Bool Lia Sorted.
From Coq.Strings Require Import Byte.
From PM Require Import Base Lemmas Text TextLemmas Model Quals Quals2 Quals3 Canon DecQual.
Import ListNotations.
Local Open Scope N_scope.

Section C2Q. Variable cfg : config.
Hypothesis Hasc : tbl_ascii_ok cfg = true.
Hypothesis Hksp : key_special_ascii cfg = true.
Hypothesis Hk_eq : mem c_eq (key_special cfg) = false.
Hypothesis Hk_amp : mem c_amp (key_special cfg) = false.

(* specification-level insertion into a sorted association list *)
Fixpoint ins (q : quals) (kv : bytes * bytes) : quals :=
  match q with
  | [] => [kv]
  | x :: t => match bcmp (fst x) (fst kv) with Lt => x :: ins t kv | _ => kv :: x :: t end
  end.
Lemma ins_split pre post k v : Forall (fun kv => klt (fst kv) k) pre -> Forall (fun kv => klt k (fst kv)) post ->
  ins (pre ++ post) (k, v) = pre ++ (k, v) :: post.
Proof.
  induction 1 as [|x pre Hx Hpre IH]; intros Hpost; cbn [app ins fst].
  - destruct post as [|y post]; [reflexivity|]. inversion Hpost; subst. cbn [ins fst]. unfold klt in H1. rewrite bcmp_antisym, H1. reflexivity.
  - unfold klt in Hx. rewrite Hx. f_equal. apply IH. exact Hpost.
Qed.

(* any spelling of a qualifier list: raw key, raw (still encoded) value *)
Definition raw_item (kv : bytes * bytes) : bytes := fst kv ++ c_eq :: snd kv.
Definition spec_step (acc : quals) (kv : bytes * bytes) : quals :=
  let d := pdecode (snd kv) in if is_empty d then acc else ins acc (lk (fst kv), d).
Definition spec_quals (its : list (bytes * bytes)) (acc : quals) : quals := fold_left spec_step its acc.

(* no item may follow a non-empty item with the same key (ignoring case) *)
Fixpoint order_ok (seen : list bytes) (its : list (bytes * bytes)) : Prop :=
  match its with
  | [] => True
  | (k, v) :: t => ~ In (lk k) seen /\ order_ok (if is_empty (pdecode v) then seen else lk k :: seen) t
  end.
Definition item_ok (kv : bytes * bytes) : Prop := valid_key cfg (fst kv) = true /\ utf8_valid (pdecode (snd kv)) = true.

Lemma key_no c k : valid_key cfg k = true -> is_alnum c = false -> mem c (key_special cfg) = false -> ~ In c k.
Proof.
  unfold valid_key. rewrite andb_true_iff, forallb_forall. intros [_ H] H1 H2 Hin. specialize (H _ Hin). rewrite H1, H2 in H. discriminate H.
Qed.

Theorem decode_quals_spelling its : forall acc seen, QInv cfg acc -> (forall k, In k (map fst acc) <-> In k seen) ->
  Forall item_ok its -> order_ok seen its ->
  decode_quals cfg (map raw_item its) acc = Ok (spec_quals its acc).
Proof.
  induction its as [|[k v] its IH]; intros acc seen HQ Hseen Hok Hord; cbn [map decode_quals spec_quals fold_left]; [reflexivity|].
  inversion Hok as [|? ? [Hk Hv] Hok']; subst. cbn [fst snd] in *. destruct Hord as [Hnew Hord].
  unfold raw_item at 1. cbn [fst snd]. rewrite split_once_app by (apply (key_no c_eq k Hk); [reflexivity|exact Hk_eq]).
  destruct (check_key cfg k) as [m|e] eqn:Ec; [|unfold check_key in Ec; rewrite Hk in Ec; destruct (forallb is_lower_ascii k); discriminate Ec].
  cbn [bind]. destruct (into_key_lk cfg m k Ec) as (Hik & Hms & _). unfold search. rewrite Hms.
  pose proof (search_from_spec cfg Hasc Hksp acc HQ k 0%nat Hk) as S. destruct (search_from cfg acc k 0) as [j|j].
  - exfalso. destruct S as (pre & w & post & -> & _). apply Hnew, Hseen. rewrite map_app. apply in_or_app. right. left. reflexivity.
  - destruct S as (pre & post & -> & -> & H1 & H2). unfold decode. rewrite Hv. cbn [bind Nat.add].
    unfold spec_step at 2. cbn [fst snd]. destruct (is_empty (pdecode v)) eqn:Ee.
    + eapply IH; eassumption.
    + rewrite insert_at_app, Hik. rewrite (ins_split pre post (lk k) (pdecode v) H1 H2). eapply IH; try eassumption.
      * apply QInv_insert; try assumption. split; [apply valid_key_lk; exact Hk|apply lk_idem].
      * intros k'. rewrite map_app. cbn [map fst]. rewrite in_app_iff. cbn [In]. specialize (Hseen k'). rewrite map_app, in_app_iff in Hseen. tauto.
Qed.
End C2Q.
Print Assumptions decode_quals_spelling.
