From Coq Require Import List NArith ZArith Bool Lia.
From Coq.Strings Require Import Byte.
From PM Require Import Base Lemmas Text TextLemmas Model Segs Quals Quals2 Quals3 Quals4 C02q Cs3.
Import ListNotations.
Local Open Scope N_scope.

(* ---------------- C05: which error each component check returns ---------------- *)
Lemma decode_invalid s : utf8_valid (pdecode s) = false -> decode s = Err EInvalidEscape.
Proof. intros H. unfold decode. rewrite H. reflexivity. Qed.

(* the segment loop: the first kept piece that is not valid UTF-8, hides a '/', or (subpath) decodes to a dot segment *)
Lemma rebuild_segs_first_bad skip bad good b rest : forall acc,
  Forall (fun s => utf8_valid (pdecode s) = true /\ bad (pdecode s) = false) (kept skip good) ->
  skip b = false -> (utf8_valid (pdecode b) = false \/ bad (pdecode b) = true) ->
  rebuild_segs (good ++ b :: rest) skip bad acc = Err EInvalidEscape.
Proof.
  induction good as [|s t IH]; intros acc Hg Hb Hbad; cbn [app rebuild_segs].
  - rewrite Hb. unfold decode. destruct (utf8_valid (pdecode b)) eqn:Ev; [|reflexivity]. destruct Hbad as [H|H]; [discriminate|]. rewrite H. reflexivity.
  - unfold kept in Hg. cbn [filter] in Hg. destruct (skip s) eqn:Es; cbn [negb] in Hg; [apply IH; assumption|].
    inversion Hg as [|? ? [Hv Hbd] Hg']; subst. unfold decode. rewrite Hv, Hbd. apply IH; assumption.
Qed.
Theorem ns_hidden_slash good b rest : Forall (fun s => utf8_valid (pdecode s) = true /\ ~ In c_slash (pdecode s)) (filter nonempty good) ->
  b <> [] -> (utf8_valid (pdecode b) = false \/ In c_slash (pdecode b)) ->
  rebuild_segs (good ++ b :: rest) is_empty (fun d => mem c_slash d) [] = Err EInvalidEscape.
Proof.
  intros Hg Hb Hbad. apply rebuild_segs_first_bad.
  - rewrite kept_is_empty. eapply Forall_impl; [|exact Hg]. intros s [H1 H2]. split; [exact H1|apply mem_false; exact H2].
  - apply is_empty_false. exact Hb.
  - destruct Hbad as [H|H]; [left; exact H|right; apply mem_In; exact H].
Qed.

Section Q. Variable cfg : config.
Hypothesis Hasc : tbl_ascii_ok cfg = true.
Hypothesis Hksp : key_special_ascii cfg = true.
(* the qualifier loop: the first faulty item decides *)
Theorem quals_item_without_eq it rest acc : ~ In c_eq it -> decode_quals cfg (it :: rest) acc = Err EInvalidQualifier.
Proof. intros H. cbn [decode_quals]. rewrite split_once_none by exact H. reflexivity. Qed.
Theorem quals_invalid_key k v rest acc : ~ In c_eq k -> valid_key cfg k = false -> decode_quals cfg ((k ++ c_eq :: v) :: rest) acc = Err EInvalidQualifier.
Proof. intros H Hv. cbn [decode_quals]. rewrite split_once_app by exact H. unfold check_key. rewrite Hv. reflexivity. Qed.
Theorem quals_repeated_key k v rest acc w : QInv cfg acc -> valid_key cfg k = true -> ~ In c_eq k -> q_get cfg acc k = Some w ->
  decode_quals cfg ((k ++ c_eq :: v) :: rest) acc = Err EInvalidQualifier.
Proof.
  intros HQ Hk He Hg. cbn [decode_quals]. rewrite split_once_app by exact He.
  destruct (check_key cfg k) as [m|e] eqn:Ec; [|unfold check_key in Ec; rewrite Hk in Ec; destruct (forallb is_lower_ascii k); discriminate]. cbn [bind].
  destruct (into_key_lk cfg m k Ec) as (_ & Hms & _). unfold search. rewrite Hms.
  pose proof (search_from_spec cfg Hasc Hksp acc HQ k 0%nat Hk) as S. destruct (search_from cfg acc k 0) as [j|j]; [reflexivity|].
  exfalso. destruct S as (pre & post & E & _ & H1 & H2). apply (q_get_in cfg Hasc Hksp _ _ _ HQ Hk) in Hg. rewrite E in Hg.
  apply in_app_or in Hg. rewrite Forall_forall in H1, H2. destruct Hg as [Hg|Hg]; [exact (klt_irrefl _ (H1 _ Hg))|exact (klt_irrefl _ (H2 _ Hg))].
Qed.
Theorem quals_bad_escape k v rest acc : QInv cfg acc -> valid_key cfg k = true -> ~ In c_eq k -> q_get cfg acc k = None ->
  utf8_valid (pdecode v) = false -> decode_quals cfg ((k ++ c_eq :: v) :: rest) acc = Err EInvalidEscape.
Proof.
  intros HQ Hk He Hg Hv. cbn [decode_quals]. rewrite split_once_app by exact He.
  destruct (check_key cfg k) as [m|e] eqn:Ec; [|unfold check_key in Ec; rewrite Hk in Ec; destruct (forallb is_lower_ascii k); discriminate]. cbn [bind].
  destruct (into_key_lk cfg m k Ec) as (_ & Hms & _). unfold search. rewrite Hms.
  pose proof (search_from_spec cfg Hasc Hksp acc HQ k 0%nat Hk) as S. destruct (search_from cfg acc k 0) as [j|j].
  - exfalso. destruct S as (pre & w & post & -> & _). apply (q_get_none_iff cfg Hasc Hksp _ k HQ Hk) in Hg. apply Hg. rewrite map_app. apply in_or_app. right. left. reflexivity.
  - unfold decode. rewrite Hv. reflexivity.
Qed.
(* a malformed checksum: entry without ':', repeated algorithm, odd or non-hex digits -> InvalidQualifier *)
Theorem checksum_no_colon items it rest acc : (forall m, cs_parse_items cfg items acc = Ok m -> True) ->
  forall m0, cs_parse_items cfg items acc = Ok m0 -> ~ In c_colon it -> cs_parse_items cfg (items ++ it :: rest) acc = Err EInvalidQualifier.
Proof.
  intros _. revert acc. induction items as [|x items IH]; intros acc m0 H Hn; cbn [app cs_parse_items] in *.
  - rewrite rsplit_once_none by exact Hn. reflexivity.
  - destruct (rsplit_once c_colon x) as [[alg hex]|]; [|discriminate]. destruct (cm_get acc (lowercase_str cfg alg)); [discriminate|]. eapply IH; eassumption.
Qed.
Theorem checksum_bad_hex m e : In e m -> hex_ok (snd e) = false -> cs_to_text m = Err EInvalidQualifier.
Proof.
  intros Hin Hh. unfold cs_to_text. destruct (forallb (fun e0 => hex_ok (snd e0)) m) eqn:E; [|reflexivity].
  rewrite forallb_forall in E. rewrite (E e Hin) in Hh. discriminate.
Qed.
End Q.
Print Assumptions quals_repeated_key. Print Assumptions ns_hidden_slash. Print Assumptions checksum_no_colon.
