From Coq Require Import List NArith ZArith Bool Lia Sorted Permutation.
From Coq.Strings Require Import Byte.
From PM Require Import Base Lemmas Text TextLemmas Model Quals Lower Lower2.
Import ListNotations.
Local Open Scope N_scope.

(* ---------- insertion sort on association lists keyed by byte strings ---------- *)
Definition klt' (a b : bytes * bytes) : Prop := bcmp (fst a) (fst b) = Lt.
Lemma ins_sorted_perm e l : Permutation (ins_sorted e l) (e :: l).
Proof.
  induction l as [|x l IH]; cbn; [reflexivity|]. destruct (bcmp (fst e) (fst x)); try reflexivity.
  rewrite IH. apply perm_swap.
Qed.
Lemma cs_sort_cons e m : cs_sort (e :: m) = ins_sorted e (cs_sort m). Proof. reflexivity. Qed.
Lemma cs_sort_perm m : Permutation (cs_sort m) m.
Proof. induction m as [|e m IH]; [reflexivity|]. rewrite cs_sort_cons, ins_sorted_perm. constructor. exact IH. Qed.
Lemma ins_sorted_sorted e l : ~ In (fst e) (map fst l) -> StronglySorted klt' l -> StronglySorted klt' (ins_sorted e l).
Proof.
  intros Hn Hs. induction Hs as [|x l Hs IH Hall]; cbn; [repeat constructor|].
  destruct (bcmp (fst e) (fst x)) eqn:E.
  - apply bcmp_eq in E. exfalso. apply Hn. left. symmetry. exact E.
  - constructor; [constructor; assumption|]. constructor; [exact E|]. eapply Forall_impl; [|exact Hall]. intros y Hy. unfold klt' in *. eapply bcmp_lt_trans; eassumption.
  - constructor; [apply IH; intros H; apply Hn; right; exact H|].
    assert (Hx : klt' x e) by (unfold klt'; rewrite bcmp_antisym, E; reflexivity).
    eapply Permutation_Forall; [symmetry; apply ins_sorted_perm|]. constructor; assumption.
Qed.
Lemma cs_sort_sorted m : NoDup (map fst m) -> StronglySorted klt' (cs_sort m).
Proof.
  induction m as [|e m IH]; intros H; [constructor|]. rewrite cs_sort_cons. cbn [map] in H. inversion H; subst. apply ins_sorted_sorted; [|apply IH; assumption].
  intros Hin. apply H2. eapply Permutation_in; [apply Permutation_map; apply cs_sort_perm|exact Hin].
Qed.
Lemma ins_sorted_head e l : Forall (klt' e) l -> ins_sorted e l = e :: l.
Proof. destruct l as [|x l]; [reflexivity|]. intros H. inversion H; subst. cbn. unfold klt' in H2. rewrite H2. reflexivity. Qed.
Lemma cs_sort_id m : StronglySorted klt' m -> cs_sort m = m.
Proof. induction 1 as [|e m Hs IH Hall]; [reflexivity|]. rewrite cs_sort_cons, IH. apply ins_sorted_head. exact Hall. Qed.
(* a strictly sorted permutation is unique: the text does not depend on the hash-map iteration order *)
Lemma sorted_perm_unique a b : StronglySorted klt' a -> StronglySorted klt' b -> Permutation a b -> a = b.
Proof.
  intros Ha. revert b. induction Ha as [|x a Ha IH Hall]; intros b Hb Hp.
  - apply Permutation_nil in Hp. subst. reflexivity.
  - destruct b as [|y b]; [apply Permutation_sym, Permutation_nil in Hp; discriminate|].
    inversion Hb as [|? ? Hb' Hallb]; subst.
    assert (x = y).
    { assert (Hx : In x (y :: b)) by (eapply Permutation_in; [exact Hp|left; reflexivity]).
      assert (Hy : In y (x :: a)) by (eapply Permutation_in; [symmetry; exact Hp|left; reflexivity]).
      destruct Hx as [->|Hx]; [reflexivity|]. destruct Hy as [->|Hy]; [reflexivity|].
      rewrite Forall_forall in Hall, Hallb. specialize (Hall y Hy). specialize (Hallb x Hx). unfold klt' in *.
      rewrite bcmp_antisym, Hall in Hallb. discriminate. }
    subst y. f_equal. apply IH; [exact Hb'|]. eapply Permutation_cons_inv. exact Hp.
Qed.
Theorem cs_sort_perm_invariant m m' : NoDup (map fst m) -> Permutation m m' -> cs_sort m' = cs_sort m.
Proof.
  intros Hn Hp. apply sorted_perm_unique.
  - apply cs_sort_sorted. eapply Permutation_NoDup; [apply Permutation_map; exact Hp|exact Hn].
  - apply cs_sort_sorted. exact Hn.
  - rewrite !cs_sort_perm. symmetry. exact Hp.
Qed.
Theorem cs_to_text_perm_invariant m m' : NoDup (map fst m) -> Permutation m m' -> cs_to_text m' = cs_to_text m.
Proof.
  intros Hn Hp. unfold cs_to_text. rewrite (cs_sort_perm_invariant m m' Hn Hp).
  replace (forallb (fun e => hex_ok (snd e)) m') with (forallb (fun e => hex_ok (snd e)) m); [reflexivity|].
  destruct (forallb (fun e => hex_ok (snd e)) m) eqn:E1, (forallb (fun e => hex_ok (snd e)) m') eqn:E2; try reflexivity.
  - rewrite forallb_forall in E1. assert (forallb (fun e => hex_ok (snd e)) m' = true) by (apply forallb_forall; intros x Hx; apply E1; eapply Permutation_in; [symmetry; exact Hp|exact Hx]). congruence.
  - rewrite forallb_forall in E2. assert (forallb (fun e => hex_ok (snd e)) m = true) by (apply forallb_forall; intros x Hx; apply E2; eapply Permutation_in; [exact Hp|exact Hx]). congruence.
Qed.
Print Assumptions cs_to_text_perm_invariant.
