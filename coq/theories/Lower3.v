From Coq Require Import List NArith ZArith Bool Lia ZifyBool ZifyN.
From Coq.Strings Require Import Byte.
From PM Require Import Base Lemmas Text TextLemmas Model Quals Lower Lower2.
Import ListNotations.
Local Open Scope N_scope.

(* idempotence of lowercase_str for EITHER form of the scan condition: the repaired one and the pinned one *)
Section L3. Variable cfg : config.
Hypothesis Hasc : tbl_ascii_ok cfg = true.
Hypothesis Hfix : tbl_img_fixed cfg = true.
Hypothesis Hsc : tbl_img_scalar cfg = true.
(* on ASCII the scan condition is "is an upper-case letter", whichever form the source uses *)
Definition scan_ascii_ok : bool := forallb (fun c => Bool.eqb (scan_hit cfg c) (inr 65 90 c)) (map N.of_nat (seq 0 128)).
Hypothesis Hsa : scan_ascii_ok = true.

Lemma scan_hit_ascii c : c < 128 -> scan_hit cfg c = inr 65 90 c.
Proof.
  intros H. unfold scan_ascii_ok in Hsa. rewrite forallb_forall in Hsa. apply Bool.eqb_prop. apply Hsa.
  apply in_map_iff. exists (N.to_nat c). split; [lia|]. apply in_seq. lia.
Qed.
(* what the scan outcomes tell about the characters *)
Lemma scan_outcome cs : forall st,
  match scan cfg cs st with
  | SLower => st = SLower
  | SMixedAscii => Forall (fun c => 128 <= c -> scan_hit cfg c = false) cs
  | SMixedUnicode => True
  end.
Proof.
  induction cs as [|c cs IH]; intros st; cbn [scan]; [destruct st; auto|].
  destruct (scan_hit cfg c) eqn:Eh.
  - destruct (c <? 128) eqn:Ec; [|exact I]. specialize (IH SMixedAscii). destruct (scan cfg cs SMixedAscii); [discriminate|constructor; [lia|exact IH]|exact I].
  - specialize (IH st). destruct (scan cfg cs st); [exact IH|constructor; [intros _; exact Eh|exact IH]|exact I].
Qed.
Lemma scan_no_hits cs : Forall (fun c => scan_hit cfg c = false) cs -> scan cfg cs SLower = SLower.
Proof. induction 1 as [|c cs Hc Hcs IH]; cbn [scan]; [reflexivity|]. rewrite Hc. exact IH. Qed.
Lemma alow_not_upper c : c < 128 -> inr 65 90 (alow c) = false.
Proof. intros H. unfold alow, ascii_lower_n, inr. replace (c <? 128) with true by lia. destruct ((65 <=? c) && (c <=? 90)) eqn:E; lia. Qed.
Lemma img_not_ascii_upper c d : In d (lower_c cfg c) -> inr 65 90 d = false.
Proof.
  intros Hd. pose proof (lower_c_img_fixed cfg Hfix c d Hd) as Hf. destruct (inr 65 90 d) eqn:E; [|reflexivity].
  assert (Hlt : d < 128) by (unfold inr in E; lia). rewrite (lower_c_ascii cfg Hasc d Hlt) in Hf. unfold ascii_lower_n in Hf. rewrite E in Hf. injection Hf as Hf. lia.
Qed.
Lemma mal_fixed_when_no_upper s : utf8_valid s = true -> Forall (fun c => inr 65 90 c = false) (chars s) -> make_ascii_lowercase s = s.
Proof.
  intros Hv H. rewrite <- (utf8_enc_chars (make_ascii_lowercase s)) by (apply utf8_valid_lowercase; exact Hv). rewrite chars_lowercase by exact Hv.
  rewrite <- (utf8_enc_chars s Hv) at 2. f_equal. induction H as [|c cs Hc Hcs IH]; [reflexivity|]. cbn. rewrite IH. f_equal.
  unfold alow, ascii_lower_n. rewrite Hc. destruct (c <? 128); reflexivity.
Qed.

Theorem lowercase_str_idem_any s : utf8_valid s = true -> lowercase_str cfg (lowercase_str cfg s) = lowercase_str cfg s.
Proof.
  intros Hv. unfold lowercase_str at 2 3. pose proof (scan_outcome (chars s) SLower) as S. destruct (scan cfg (chars s) SLower) eqn:E1.
  - unfold lowercase_str. rewrite E1. reflexivity.
  - (* ASCII capitals only: afterwards nothing hits *)
    unfold lowercase_str. rewrite chars_lowercase by exact Hv. rewrite scan_no_hits; [reflexivity|].
    apply Forall_forall. intros d Hd. apply in_map_iff in Hd. destruct Hd as (c & <- & Hc). rewrite Forall_forall in S. specialize (S c Hc).
    destruct (c <? 128) eqn:Ec.
    + assert (Hlt : alow c < 128) by (unfold alow, ascii_lower_n, inr; rewrite Ec; destruct ((65 <=? c) && (c <=? 90)) eqn:?; lia).
      rewrite (scan_hit_ascii _ Hlt). apply alow_not_upper. lia.
    + unfold alow. rewrite Ec. apply S. lia.
  - (* full lower-casing: the result is a fixed point of all three branches *)
    fold (spec_lower cfg s). set (s1 := spec_lower cfg s). assert (Hv1 : utf8_valid s1 = true) by (apply utf8_valid_spec_lower; assumption).
    assert (Hc1 : chars s1 = flat_map (lower_c cfg) (chars s)) by (apply chars_spec_lower; assumption).
    unfold lowercase_str. destruct (scan cfg (chars s1) SLower); [reflexivity| |].
    + apply mal_fixed_when_no_upper; [exact Hv1|]. rewrite Hc1. apply Forall_forall. intros d Hd. apply in_flat_map in Hd. destruct Hd as (c & _ & Hd). eapply img_not_ascii_upper. exact Hd.
    + rewrite Hc1. rewrite (flat_lower_idem cfg Hfix). reflexivity.
Qed.
End L3.
Print Assumptions lowercase_str_idem_any.
