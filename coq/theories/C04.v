From Coq Require Import List NArith ZArith Bool Lia Sorted Permutation.
From Coq.Strings Require Import Byte.
From PM Require Import Base Lemmas Text TextLemmas Model Skeleton Segs Quals Quals2 Quals3 Quals4 Canon Canon2 DecQual Roundtrip ParseInv Lower Lower2 Lower3 Cs Cs2 Cs3 Cs4 BuildG BuildGen.
Import ListNotations.
Local Open Scope N_scope.

Section C4. Variable cfg : config.
Hypothesis Hasc : tbl_ascii_ok cfg = true.
Hypothesis Hksp : key_special_ascii cfg = true.
Hypothesis Hscan : scan_lower_ne cfg = true.
Hypothesis Hsa : scan_ascii_ok cfg = true.
Hypothesis Hfix : tbl_img_fixed cfg = true.
Hypothesis Hsc : tbl_img_scalar cfg = true.
Hypothesis Hnc : tbl_no_comma cfg = true.
Hypothesis Hck : valid_key cfg s_checksum = true.

(* the documented form of a canonical checksum value *)
Definition no_ascii_upper (s : bytes) : Prop := Forall (fun b => is_upper_ascii b = false) s.
Definition checksum_canonical (v : bytes) : Prop :=
  exists es : list (bytes * bytes), v = join c_comma (map (fun e => fst e ++ c_colon :: snd e) es) /\ es <> []
    /\ StronglySorted (fun a b => bcmp (fst a) (fst b) = Lt) es
    /\ Forall (fun e => no_ascii_upper (fst e) /\ no_ascii_upper (snd e) /\ hex_ok (snd e) = true) es.

Lemma mal_no_upper s : no_ascii_upper (make_ascii_lowercase s).
Proof. apply Forall_forall. intros b Hb. apply in_map_iff in Hb. destruct Hb as (b0 & <- & _). destruct b0; reflexivity. Qed.
(* whichever form the scan has (as long as it agrees with ASCII upper-case on ASCII): the result has no ASCII upper-case letter *)
Lemma scan_lower_no_hits cs : scan cfg cs SLower = SLower -> Forall (fun c => scan_hit cfg c = false) cs.
Proof.
  induction cs as [|c cs IH]; cbn [scan]; [constructor|]. destruct (scan_hit cfg c) eqn:Eh.
  - destruct (c <? 128); [|discriminate]. intros H. pose proof (scan_outcome cfg cs SMixedAscii) as O. rewrite H in O. discriminate O.
  - intros H. constructor; [exact Eh|apply IH; exact H].
Qed.
Lemma lower_no_upper a : utf8_valid a = true -> no_ascii_upper (lowercase_str cfg a).
Proof.
  intros Hv. unfold lowercase_str. destruct (scan cfg (chars a) SLower) eqn:Es.
  - apply scan_lower_no_hits in Es. apply Forall_forall. intros b Hb. destruct (is_upper_ascii b) eqn:E; [|reflexivity]. exfalso.
    assert (Hlt : bn b < 128) by (unfold is_upper_ascii, inr in E; lia).
    apply (in_bytes_chars a b Hv Hlt) in Hb. rewrite Forall_forall in Es. specialize (Es _ Hb). rewrite (scan_hit_ascii cfg Hsa (bn b) Hlt) in Es. unfold is_upper_ascii in E. congruence.
  - apply mal_no_upper.
  - apply Forall_forall. intros b Hb.
    destruct (is_upper_ascii b) eqn:E; [|reflexivity]. exfalso. assert (Hlt : bn b < 128) by (unfold is_upper_ascii, inr in E; lia).
    fold (spec_lower cfg a) in Hb.
    apply (in_bytes_chars _ b (utf8_valid_spec_lower cfg Hsc a Hv) Hlt) in Hb. rewrite (chars_spec_lower cfg Hsc a Hv) in Hb.
    apply in_flat_map in Hb. destruct Hb as (c & _ & Hd). pose proof (img_not_ascii_upper cfg Hasc Hfix c (bn b) Hd) as Hn. unfold is_upper_ascii in E. congruence.
Qed.
Lemma parsed_algs_no_upper items es : Forall2 (fun it e => parse_item cfg it = Some e) items es ->
  Forall (fun p => utf8_valid p = true) items -> Forall (fun e => no_ascii_upper (fst e)) es.
Proof.
  induction 1 as [|it e items es Hit HF IH]; intros Hval; [constructor|]. inversion Hval as [|? ? Hv1 Hv2]; subst. constructor; [|apply IH; exact Hv2].
  unfold parse_item in Hit. destruct (rsplit_once c_colon it) as [[alg hex]|] eqn:Er; [|discriminate]. injection Hit as <-. cbn [fst].
  apply rsplit_once_some in Er. destruct Er as [-> _]. apply utf8_valid_split_ascii in Hv1; [|apply colon_ascii]. apply lower_no_upper. tauto.
Qed.
(* what cs_to_text produces from a parsed value is in the documented form *)
Theorem checksum_text_canonical v m txt : utf8_valid v = true -> cs_try_from cfg v = Ok m -> cs_to_text m = Ok txt -> checksum_canonical txt.
Proof.
  intros Hv Hp Ht. destruct (cs_fix cfg Hasc Hsa Hfix Hsc Hnc v m txt Hv Hp Ht) as (F1 & F2 & _ & _).
  destruct (cs_to_text_ok _ _ F2) as [Hhex Htxt]. unfold canon_m in *.
  pose proof (parsed_algs_ok cfg Hasc Hsa Hfix Hsc Hnc v m Hv Hp) as (Hne & Hnd & Halg).
  exists (map (fun e => (fst e, make_ascii_lowercase (snd e))) (cs_sort m)). split; [|split; [|split]].
  - destruct (cs_to_text_ok m txt Ht) as [_ ->]. rewrite map_map. f_equal.
  - intros E. apply map_eq_nil in E. pose proof (cs_sort_perm m) as Hp'. rewrite E in Hp'. apply Permutation_nil in Hp'. congruence.
  - apply sorted_map_keys; [reflexivity|apply cs_sort_sorted; exact Hnd].
  - apply Forall_forall. intros e He. apply in_map_iff in He. destruct He as (e0 & <- & He0). cbn [fst snd].
    assert (Hin : In e0 m) by (eapply Permutation_in; [apply cs_sort_perm|exact He0]).
    split; [|split].
    + unfold cs_try_from in Hp. apply cs_parse_items_sound in Hp. destruct Hp as (es & HF & Em & _). cbn [app] in Em.
      pose proof (parsed_algs_no_upper _ _ HF (utf8_valid_split c_comma v comma_ascii Hv)) as Hall. rewrite Forall_forall in Hall. apply Hall. rewrite <- Em. exact Hin.
    + apply mal_no_upper.
    + apply hex_ok_mal. destruct (cs_to_text_ok m txt Ht) as [Hh _]. rewrite Forall_forall in Hh. apply Hh. exact Hin.
Qed.
End C4.
Print Assumptions checksum_text_canonical.

(* ---------------- C04: what build() hands out ---------------- *)
Section C4b. Variable cfg : config.
Hypothesis Hasc : tbl_ascii_ok cfg = true.
Hypothesis Hksp : key_special_ascii cfg = true.
Hypothesis Hscan : scan_lower_ne cfg = true.
Hypothesis Hsa : scan_ascii_ok cfg = true.
Hypothesis Hfix : tbl_img_fixed cfg = true.
Hypothesis Hsc : tbl_img_scalar cfg = true.
Hypothesis Hnc : tbl_no_comma cfg = true.
Hypothesis Hck : valid_key cfg s_checksum = true.
Context {T E : Type} (sh : shape T E).

Theorem build_checksum_canonical t p t' p' : finish_stable sh -> fields_valid cfg p -> build cfg sh t p = Ok (t', p') ->
  forall v, q_get cfg (p_quals p') s_checksum = Some v -> checksum_canonical v.
Proof.
  intros FS (Vns & Vname & Vver & Vsub & HQ & HV). unfold build.
  destruct (sh_finish sh t p) as [[t1 p1]|e] eqn:Ef; [|discriminate].
  destruct (FS t p t1 p1 Vname Ef) as ((S1 & S2 & S3 & S4) & Vn1 & Ef1).
  destruct (is_empty (p_name p1)) eqn:En; [discriminate|]. rewrite S4. rewrite (filter_vals_id _ HV).
  destruct (q_get cfg (p_quals p) s_checksum) as [v0|] eqn:Eg.
  - pose proof (q_get_in cfg Hasc Hksp _ _ _ HQ Hck Eg) as Hin. pose proof HV as HV0. unfold vals_ok in HV0. rewrite Forall_forall in HV0. destruct (HV0 _ Hin) as [_ Hvv]. cbn in Hvv.
    destruct (cs_try_from cfg v0) as [m|e] eqn:Ep; [|discriminate]. destruct (cs_to_text m) as [txt|e] eqn:Et; [|discriminate].
    destruct (q_insert cfg (p_quals p) s_checksum txt) as [q2|e] eqn:Ei; [|discriminate]. intros [= <- <-] v Hv.
    cbn [p_quals with_quals] in Hv. rewrite (q_get_insert_same cfg Hasc Hksp _ _ _ _ HQ Ei) in Hv. injection Hv as <-.
    eapply (checksum_text_canonical cfg); eassumption.
  - intros [= <- <-] v Hv. cbn [p_quals with_quals] in Hv. congruence.
Qed.
(* every pair of the collection is found under its own key *)
Theorem quals_retrievable (q : quals) k v : QInv cfg q -> In (k, v) q -> q_get cfg q k = Some v.
Proof.
  intros HQ Hin. destruct HQ as [Hs Hc]. assert (Hk : canon_key cfg k) by (rewrite Forall_forall in Hc; apply Hc; apply (in_map fst _ _ Hin)).
  destruct Hk as [Hvk Hlk]. apply (q_get_iff cfg Hasc Hksp q k v (conj Hs Hc) Hvk). rewrite Hlk. exact Hin.
Qed.
End C4b.
Print Assumptions build_checksum_canonical. Print Assumptions quals_retrievable.
