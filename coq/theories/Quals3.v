From Coq Require Import List NArith ZArith Bool Lia Sorted.
From Coq.Strings Require Import Byte.
From PM Require Import Base Lemmas Text TextLemmas Model Quals Quals2.
Import ListNotations.
Local Open Scope N_scope.

Section Q3. Variable cfg : config.
Hypothesis Hasc : tbl_ascii_ok cfg = true.
Hypothesis Hksp : key_special_ascii cfg = true.

Lemma klt_irrefl k : ~ klt k k. Proof. unfold klt. rewrite bcmp_refl. discriminate. Qed.
(* in a strictly sorted list a key occurs at one position only *)
Lemma sorted_key_unique (q : quals) : StronglySorted klt (map fst q) -> forall pre k v post pre' v' post',
  q = pre ++ (k, v) :: post -> q = pre' ++ (k, v') :: post' -> pre = pre' /\ v = v' /\ post = post'.
Proof.
  induction q as [|[a b] q IH]; intros Hs pre k v post pre' v' post' E1 E2; [destruct pre; discriminate|].
  cbn in Hs. inversion Hs as [|? ? Hs' Hall]; subst. rewrite Forall_map in Hall. rewrite Forall_forall in Hall.
  destruct pre as [|x pre], pre' as [|x' pre']; cbn in E1, E2.
  - injection E1 as -> -> ->. injection E2 as <- <-. auto.
  - injection E1 as -> -> ->. injection E2 as _ E2. exfalso. apply (klt_irrefl k). apply (Hall (k, v')). rewrite E2. apply in_or_app. right. left. reflexivity.
  - injection E2 as -> -> ->. injection E1 as _ E1. exfalso. apply (klt_irrefl k). apply (Hall (k, v)). rewrite E1. apply in_or_app. right. left. reflexivity.
  - injection E1 as <- E1. injection E2 as <- E2. destruct (IH Hs' pre k v post pre' v' post' E1 E2) as (-> & -> & ->). auto.
Qed.

Lemma q_get_spec q k : QInv cfg q -> valid_key cfg k = true ->
  match q_get cfg q k with
  | Some v => exists pre post, q = pre ++ (lk k, v) :: post
  | None => ~ In (lk k) (map fst q)
  end.
Proof.
  intros HQ Hk. unfold q_get. destruct (check_key cfg k) as [m|e] eqn:Ec; [|unfold check_key in Ec; rewrite Hk in Ec; destruct (forallb is_lower_ascii k); discriminate].
  destruct (into_key_lk cfg m k Ec) as (_ & Hms & _). unfold search. rewrite Hms.
  pose proof (search_from_spec cfg Hasc Hksp q HQ k 0%nat Hk) as S. destruct (search_from cfg q k 0) as [j|j].
  - destruct S as (pre & v & post & -> & ->). cbn [Nat.add]. rewrite nth_error_app_mid. cbn. eauto.
  - destruct S as (pre & post & -> & _ & H1 & H2). rewrite map_app. intros Hin. apply in_app_or in Hin. destruct Hin as [Hin|Hin];
      apply in_map_iff in Hin; destruct Hin as ([a b] & Ha & Hin); cbn in Ha; subst a.
    + rewrite Forall_forall in H1. apply (klt_irrefl (lk k)). apply (H1 _ Hin).
    + rewrite Forall_forall in H2. apply (klt_irrefl (lk k)). apply (H2 _ Hin).
Qed.
Theorem q_get_insert_same q k v q' : QInv cfg q -> q_insert cfg q k v = Ok q' -> q_get cfg q' k = Some v.
Proof.
  intros HQ Hi. pose proof (q_insert_inv cfg Hasc Hksp _ _ _ _ HQ Hi) as HQ'. revert Hi. unfold q_insert.
  destruct (check_key cfg k) as [m|e] eqn:Ec; [|discriminate]. cbn [bind].
  destruct (into_key_lk cfg m k Ec) as (Hik & Hms & Hvk). unfold search. rewrite Hms.
  pose proof (search_from_spec cfg Hasc Hksp q HQ k 0%nat Hvk) as S.
  assert (G : forall pre post, q' = pre ++ (lk k, v) :: post -> q_get cfg q' k = Some v).
  { intros pre post E. pose proof (q_get_spec q' k HQ' Hvk) as S'. destruct (q_get cfg q' k) as [w|].
    - destruct S' as (pre' & post' & E'). destruct HQ' as [Hs' _]. destruct (sorted_key_unique q' Hs' _ _ _ _ _ _ _ E E') as (_ & -> & _). reflexivity.
    - exfalso. apply S'. rewrite E, map_app. apply in_or_app. right. left. reflexivity. }
  destruct (search_from cfg q k 0) as [j|j].
  - destruct S as (pre & w & post & -> & ->). intros [= <-]. cbn [Nat.add] in *. rewrite set_nth_app in *. eapply G. reflexivity.
  - destruct S as (pre & post & -> & -> & _ & _). intros [= <-]. cbn [Nat.add] in *. rewrite insert_at_app, Hik in *. eapply G. reflexivity.
Qed.
Theorem q_insert_same_id q k v : QInv cfg q -> valid_key cfg k = true -> q_get cfg q k = Some v -> q_insert cfg q k v = Ok q.
Proof.
  intros HQ Hk Hg. pose proof (q_get_spec q k HQ Hk) as S. rewrite Hg in S. destruct S as (pre & post & E).
  unfold q_insert. destruct (check_key cfg k) as [m|e] eqn:Ec; [|unfold check_key in Ec; rewrite Hk in Ec; destruct (forallb is_lower_ascii k); discriminate].
  cbn [bind]. destruct (into_key_lk cfg m k Ec) as (_ & Hms & _). unfold search. rewrite Hms.
  pose proof (search_from_spec cfg Hasc Hksp q HQ k 0%nat Hk) as S. destruct (search_from cfg q k 0) as [j|j].
  - destruct S as (pre' & w & post' & E' & ->). destruct HQ as [Hs _]. destruct (sorted_key_unique q Hs _ _ _ _ _ _ _ E E') as (<- & <- & <-).
    rewrite E. cbn [Nat.add]. rewrite set_nth_app. reflexivity.
  - exfalso. destruct S as (pre' & post' & E' & _ & H1 & H2). assert (Hin : In (lk k, v) (pre' ++ post')) by (rewrite <- E', E; apply in_or_app; right; left; reflexivity).
    apply in_app_or in Hin. rewrite Forall_forall in H1, H2. destruct Hin as [Hin|Hin]; [apply (klt_irrefl (lk k)), (H1 _ Hin)|apply (klt_irrefl (lk k)), (H2 _ Hin)].
Qed.
Lemma q_get_in q k v : QInv cfg q -> valid_key cfg k = true -> q_get cfg q k = Some v -> In (lk k, v) q.
Proof.
  intros HQ Hk Hg. pose proof (q_get_spec q k HQ Hk) as S. rewrite Hg in S. destruct S as (pre & post & ->). apply in_or_app. right. left. reflexivity.
Qed.
(* inserting changes at most the value of that key *)
Lemma q_insert_vals (P : bytes -> Prop) q k v q' : QInv cfg q -> Forall (fun kv => P (snd kv)) q -> P v -> q_insert cfg q k v = Ok q' -> Forall (fun kv => P (snd kv)) q'.
Proof.
  intros HQ HP Hv. unfold q_insert. destruct (check_key cfg k) as [m|e] eqn:Ec; [|discriminate]. cbn [bind].
  destruct (into_key_lk cfg m k Ec) as (Hik & Hms & Hvk). unfold search. rewrite Hms.
  pose proof (search_from_spec cfg Hasc Hksp q HQ k 0%nat Hvk) as S. destruct (search_from cfg q k 0) as [j|j].
  - destruct S as (pre & w & post & -> & ->). intros [= <-]. rewrite set_nth_app. apply Forall_app in HP. destruct HP as [H1 H2]. inversion H2; subst.
    apply Forall_app. split; [exact H1|constructor; [exact Hv|assumption]].
  - destruct S as (pre & post & -> & -> & _ & _). intros [= <-]. rewrite insert_at_app. apply Forall_app in HP. destruct HP as [H1 H2].
    apply Forall_app. split; [exact H1|constructor; [exact Hv|exact H2]].
Qed.
End Q3.
Print Assumptions q_get_insert_same. Print Assumptions q_insert_same_id.
