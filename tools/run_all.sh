#!/bin/bash
# runs every registered quick (or $1) check on the current tree; prints one line each
cd /verif; tier=${1:-quick}; rc=0
for p in $(python3 -c "import json;print(' '.join(c['property_id'] for c in json.load(open('MANIFEST.json'))['checks']))"); do
  out=$(./vcheck check $p --tier $tier 2>&1); r=$?
  echo "$out" | grep -E "^(C[0-9]+ |VIOLATION|KNOWN|  - )" | cut -c1-220
  [ $r -ne 0 ] && rc=1
done
exit $rc
