#!/bin/bash
# usage: confirm17.sh <name> <dir with patch.diff demo.rs>  — C17 mutants: suite with the change (default features), then the demonstration
# under the three feature sets with and without the change
name=$1; dir=$2
wt=/tmp/confirm/$name; rm -rf $wt; mkdir -p /tmp/confirm
git -C /repo worktree add -q --detach $wt HEAD || exit 2
export CARGO_NET_OFFLINE=true CARGO_TARGET_DIR=/tmp/confirm/target
( cd $wt
  git apply $dir/patch.diff || { echo "$name: PATCH-DOES-NOT-APPLY"; exit 3; }
  suite=$(cargo test --workspace --offline 2>&1 | grep -E "^test result" | grep -vc "0 failed")
  echo "$name suite failing lines: $suite"
  mkdir -p purl/tests; cp $dir/demo.rs purl/tests/demo.rs
  for fl in "" "--no-default-features" "--no-default-features --features package-type"; do
    echo "  with change [$fl]: $(cargo test --offline -p purl --test demo $fl 2>&1 | grep -E "^test result|^error: test failed" | tail -1)"
  done
  git checkout -q -- purl/src
  for fl in "" "--no-default-features" "--no-default-features --features package-type"; do
    echo "  without    [$fl]: $(cargo test --offline -p purl --test demo $fl 2>&1 | grep -E "^test result|^error: test failed" | tail -1)"
  done
)
git -C /repo worktree remove --force $wt
