#!/usr/bin/env python3
"""Inventory of compile-time feature gates in the crate's own source: every `#[cfg(..)]`, `#[cfg_attr(..)]` and `cfg!(..)` (test gates excluded), keyed by
file, the gate and the normalised item it is attached to (the next non-attribute line).  The committed table lists each gate with the reason why it cannot
make behaviour depend on the feature set for the same input (it adds or removes API, selects one of two string representations, or derives serde for an enum);
a gate that is not in the table is an undischarged obligation of C17.
  feature_gates.py scan <src-dir>            -> JSON list
  feature_gates.py check <src-dir> <table>   -> JSON {new: [...], gone: [...], total: n}"""
import re, sys, json, os
GATE = re.compile(r'#!?\[cfg(_attr)?\((.*)\)\]\s*$|cfg!\(([^)]*)\)')
def scan(root):
    out = []
    for dp, _, fs in sorted(os.walk(root)):
        for f in sorted(fs):
            if not f.endswith('.rs'): continue
            path = os.path.join(dp, f); rel = os.path.relpath(path, root)
            lines = open(path).read().split('\n')
            for i, raw in enumerate(lines):
                s = raw.strip()
                if s.startswith('//'): continue
                for m in GATE.finditer(s):
                    gate = re.sub(r'\s+', ' ', (m.group(2) or m.group(3) or '').strip())
                    if gate in ('test', 'docsrs, feature(doc_auto_cfg)') or gate.startswith('test'): continue
                    # the item the attribute is attached to: next line that is not an attribute / comment; for cfg!() the line itself
                    item = s
                    if s.startswith('#'):
                        j = i + 1
                        while j < len(lines) and (lines[j].strip().startswith('#') or lines[j].strip().startswith('//') or not lines[j].strip()): j += 1
                        item = lines[j].strip() if j < len(lines) else ''
                    out.append(dict(file=rel, gate=('cfg_attr: ' if m.group(1) else '') + gate, item=re.sub(r'\s+', ' ', item)[:120]))
    return out
def key(s): return (s['file'], s['gate'], s['item'])
if __name__ == '__main__':
    if sys.argv[1] == 'scan':
        print(json.dumps(scan(sys.argv[2]), indent=1))
    else:
        cur = scan(sys.argv[2]); tab = json.load(open(sys.argv[3]))
        from collections import Counter
        c1 = Counter(key(s) for s in cur); c0 = Counter(key(s) for s in tab)
        new = [dict(file=k[0], gate=k[1], item=k[2]) for k in (c1 - c0).elements()]
        gone = [dict(file=k[0], gate=k[1], item=k[2]) for k in (c0 - c1).elements()]
        print(json.dumps(dict(new=new, gone=gone, total=len(cur))))
