#!/usr/bin/env python3
"""Writes MANIFEST.json from tools/manifest_meta.py (kept next to the check definitions)."""
import json, sys, os
sys.path.insert(0, os.path.dirname(os.path.abspath(__file__)))
import props as P, manifest_meta as M
checks = []
for pid in sorted(P.PROPS):
    m = M.META[pid]
    checks.append(dict(property_id=pid, quick_cmd=f'./vcheck check {pid} --tier quick', thorough_cmd=f'./vcheck check {pid} --tier thorough',
                       evidence_file=f'evidence/{pid}.json', replay_cmd_template='./vcheck replay {path}', engine='coq-model+correspondence',
                       level_claimed=dict(category=P.PROPS[pid].get('level', 'proof'), text=m['text'], design_ref=m.get('ref', 'DESIGN.md section 7')),
                       level_note=m['note'], technique=m['technique']))
man = dict(version=1, setup_cmd='./vcheck setup',
           hooks=dict(guard='purl_verif', enable='none needed: every modelled function is reachable through the public API (RUSTFLAGS="--cfg purl_verif" is reserved)',
                      baseline_off_cmd='cd /repo && cargo nextest run --workspace --no-fail-fast --tool-config-file pb:/w/lib/nextest.toml --profile pb --test-threads 8 --offline || cargo test --workspace --no-fail-fast --offline',
                      source_commits=[], add_only=True),
           engines=[dict(name='coq-model+correspondence', path='vcheck', serves_properties=sorted(P.PROPS),
                         kind_free_text='Coq 8.16 theorems about an executable Gallina model of the crate, instantiated at constants translated from the source on every run; extracted model (OCaml) and real crate (Rust harness) compared on generated cases; property oracles search for failing inputs')],
           checks=checks, notes=M.NOTES,
           not_applicable=[dict(property_id=p, reason=r) for p, r in M.NOT_APPLICABLE.items() if p not in P.PROPS])
json.dump(man, open(os.path.join(os.path.dirname(__file__), '..', 'MANIFEST.json'), 'w'), indent=1)
print('checks:', [c['property_id'] for c in checks], 'not_applicable:', [x['property_id'] for x in man['not_applicable']])
