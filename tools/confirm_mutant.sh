#!/bin/bash
# usage: confirm_mutant.sh <name> <dir with patch.diff demo.rs> [extra cargo flags for the demo]
# confirms in a scratch worktree: suite passes with the change, demo fails with it, demo passes without it
name=$1; dir=$2; shift 2; flags="$@"
wt=/tmp/confirm/$name; rm -rf $wt; mkdir -p /tmp/confirm
git -C /repo worktree add -q --detach $wt HEAD || exit 2
export CARGO_NET_OFFLINE=true CARGO_TARGET_DIR=/tmp/confirm/target
res="$name:"
( cd $wt
  git apply $dir/patch.diff || { echo "$name: PATCH-DOES-NOT-APPLY"; exit 3; }
  suite=$(cargo test --workspace --offline 2>&1 | grep -E "^test result" | grep -vc "0 failed")
  nres=$(cargo test --workspace --offline 2>&1 | grep -cE "^test result")
  mkdir -p purl/tests; cp $dir/demo.rs purl/tests/demo.rs
  if grep -q serde_json $dir/demo.rs; then sed -i 's/^\[dev-dependencies\]/[dev-dependencies]\nserde_json = "1"/' purl/Cargo.toml; fi
  with=$(cargo test --offline -p purl --test demo $flags 2>&1 | grep -E "^test result" | tail -1)
  git checkout -q -- purl/src
  without=$(cargo test --offline -p purl --test demo $flags 2>&1 | grep -E "^test result" | tail -1)
  echo "$name: suite-result-lines=$nres suite-failing-lines=$suite | demo with change: $with | demo without: $without"
)
git -C /repo worktree remove --force $wt
