#!/usr/bin/env python3
"""Inventory of potential panic sites in the crate's own source (outside #[cfg(test)] modules):
unwrap / expect / panic-family macros / assertions / index and slice expressions / Vec::insert|remove|swap_remove /
integer arithmetic.  Sites are keyed by file, enclosing function and normalised line text.
  panic_sites.py scan <src-dir>            -> JSON list of sites
  panic_sites.py check <src-dir> <table>   -> JSON {new: [...], gone: [...]} against the committed table"""
import re, sys, json, os

PATTERNS = [
    ('unwrap', re.compile(r'\.unwrap\(\)|\.expect\(|\.unwrap_unchecked\(')),
    ('macro', re.compile(r'\b(panic|unreachable|unimplemented|todo|assert|assert_eq|assert_ne|debug_assert|debug_assert_eq|debug_assert_ne)!')),
    ('index', re.compile(r'(?<![&=,(\s#!])\[(?![\s]*\])[^\]\n]*\]')),
    ('vecpos', re.compile(r'\.(insert|remove|swap_remove|split_at|split_off|drain|truncate|copy_from_slice|chunks)\(')),
    ('arith', re.compile(r'(\)|\b\w+)\s(\+|-|\*|/|%)\s(\(|\w+)|^\s*(\+|-|\*|/|%)\s|\+=|-=|\*=|<<=|>>=|\.pow\(')),
    ('unsafe', re.compile(r'\bunsafe\b')),
]
NOT_ARITH = re.compile(r'(From<|AsRef<|\?Sized|\bimpl\b|\bdyn\b|\bwhere\b|^\s*(\w+|<[^>]*>)\s*:(?!:)|Iterator|Into<|TryFrom<|SmartStringMode|\bfn\b.*->)')

def strip_comments_strings(line):
    # remove string literals and // comments (good enough for this crate: no raw strings with quotes in code lines)
    out = []; i = 0; n = len(line); in_s = False
    while i < n:
        c = line[i]
        if in_s:
            if c == '\\': i += 2; continue
            if c == '"': in_s = False
            i += 1; continue
        if c == '"': in_s = True; out.append('""'); i += 1; continue
        if line.startswith('//', i): break
        if c == "'" and i + 2 < n and (line[i + 2] == "'" or (line[i + 1] == '\\' and i + 3 < n and line[i + 3] == "'")):
            j = i + 2 if line[i + 2] == "'" else i + 3
            out.append("' '"); i = j + 1; continue
        out.append(c); i += 1
    return ''.join(out)

def scan_file(path, rel):
    src = open(path).read().split('\n')
    sites = []; fn = '<top>'; depth = 0; in_test = False; test_depth = None; pending_test = False; in_macro_rules = 0
    for ln, raw in enumerate(src, 1):
        line = strip_comments_strings(raw)
        s = line.strip()
        if s.startswith('#[cfg(test)]'): pending_test = True
        if pending_test and re.match(r'(pub\s+)?mod\s+\w+\s*\{', s):
            in_test = True; test_depth = depth; pending_test = False
        elif pending_test and s and not s.startswith('#['):
            pending_test = False
        m = re.search(r'\bfn\s+(\w+)', line)
        if m and not in_test: fn = m.group(1)
        if not in_test and s and not s.startswith('#') and not s.startswith('//'):
            for kind, pat in PATTERNS:
                if not pat.search(line): continue
                if kind == 'arith' and NOT_ARITH.search(line): continue
                if kind == 'index' and re.search(r'&\[|:\s*\[|#\[|\$', line) and not re.search(r'\w\[[^\]]+\]', line): continue
                sites.append(dict(file=rel, fn=fn, kind=kind, text=re.sub(r'\s+', ' ', s)))
        depth += line.count('{') - line.count('}')
        if in_test and depth <= test_depth:
            in_test = False
    return sites

def scan(root):
    out = []
    for d, _, fs in os.walk(root):
        for f in sorted(fs):
            if f.endswith('.rs'):
                p = os.path.join(d, f)
                out += scan_file(p, os.path.relpath(p, root))
    out.sort(key=lambda s: (s['file'], s['fn'], s['kind'], s['text']))
    return out
def key(s): return (s['file'], s['fn'], s['kind'], s['text'])

if __name__ == '__main__':
    if sys.argv[1] == 'scan':
        print(json.dumps(scan(sys.argv[2]), indent=1))
    else:
        # a site is "new" when a function has MORE sites of a kind than the table accounts for (a rewrite of an existing site is not new)
        cur = scan(sys.argv[2]); table = json.load(open(sys.argv[3]))
        import collections
        def group(l):
            g = collections.defaultdict(list)
            for s in l: g[(s['file'], s['fn'], s['kind'])].append(s)
            return g
        gc, gt = group(cur), group(table)
        new = []; gone = []
        for k, l in gc.items():
            known = {x['text'] for x in gt.get(k, [])}
            extra = len(l) - len(gt.get(k, []))
            if extra > 0: new += [x for x in l if x['text'] not in known][:extra] or l[:extra]
        for k, l in gt.items():
            if len(gc.get(k, [])) < len(l): gone += l[len(gc.get(k, [])):]
        print(json.dumps(dict(new=new, gone=gone, total=len(cur))))
