NOTES = ('All checks share one build (translator, table dump, Coq make, extraction, harness) under a lock; '
         'VERIF_SEED seeds every generator. Four genuine defects of the pinned tree were repaired by fix: commits (known_findings.jsonl).')
PENDING = 'check not yet registered in this commit (machinery under construction; see DESIGN.md section 7)'
NOT_APPLICABLE = {f'C{i:02d}': PENDING for i in range(1, 20)}
TB = ('Trusted: Coq kernel; constants translator + exhaustive probe; table dump; ExtrOcamlBasic extraction + OCaml printing driver; Rust harness; '
      'the hand-written model of control flow is tied to the code only by the correspondence on the explored inputs. ')
META = {
 'C01': dict(text='Theorems C01_generic_purl / C01_typed_purl: for every byte string accepted by the model parser (any length, any bytes), formatting and re-parsing gives the same value and string; '
                  'proved in Coq for the configuration regenerated from the source on every run; the model is tied to the crate by differential runs on >200k strings.',
             note=TB + 'Side conditions on escape sets and Unicode tables are evaluated by vm_compute on data read from the current source / toolchain.',
             technique='Coq proof over an executable model + translator-regenerated instance + extracted-model/implementation correspondence'),
 'C07': dict(text='Theorem C07 (no configuration hypothesis): for every accepted string the reported namespace / subpath segments are exactly the decoded non-skipped pieces between raw slashes, none empty, none "." or "..", none containing "/".',
             note=TB, technique='Coq proof over an executable model + extracted-model/implementation correspondence'),
}
