#!/usr/bin/env python3
"""Prototype translator: reads constants and variation points out of /repo/purl/src."""
import re, sys, json
root = sys.argv[1] if len(sys.argv) > 1 else '/repo/purl/src'
def read(p): return open(f'{root}/{p}').read()
out = {'problems': []}
def byte_lit(s):
    m = re.fullmatch(r"b'(\\.|[^\\])'", s)
    if not m: raise ValueError(s)
    c = m.group(1)
    esc = {'\\\\': '\\', "\\'": "'", '\\"': '"', '\\n': '\n', '\\t': '\t', '\\0': '\0', '\\r': '\r'}
    return ord(esc.get(c, c))
# --- escape sets
fmt = read('format.rs')
sets = {'CONTROLS': set(range(0, 32)) | {127}}
for m in re.finditer(r'const\s+(\w+)\s*:\s*&AsciiSet\s*=\s*&\s*(\w+)((?:\s*\.\s*(?:add|remove)\(b\'(?:\\.|[^\\])\'\))*)\s*;', fmt):
    name, base, chain = m.groups()
    if base not in sets: out['problems'].append(f'set {name}: unknown base {base}'); continue
    cur = set(sets[base])
    for op, lit in re.findall(r"\.\s*(add|remove)\((b'(?:\\.|[^\\])')\)", chain):
        (cur.add if op == 'add' else cur.discard)(byte_lit(lit))
    sets[name] = cur
    out.setdefault('sets', {})[name] = {'line': fmt[:m.start()].count('\n') + 1, 'members': sorted(cur)}
use = {}
for m in re.finditer(r'utf8_percent_encode\(\s*([\w.()]+)\s*,\s*(\w+)\s*\)', fmt):
    arg = m.group(1).replace('self.', '').replace('()', '')
    use.setdefault(arg, []).append(m.group(2))
out['use'] = use
# --- char lists
def char_list(src, fn_hint, const):
    m = re.search(const + r"\s*:\s*&\[char\]\s*=\s*&\[([^\]]*)\]", src)
    if not m: out['problems'].append(f'{const} near {fn_hint}: not found'); return None
    return [ord(c) for c in re.findall(r"'(.)'", m.group(1))]
lib = read('lib.rs'); q = read('qualifiers.rs'); pt = read('package_type.rs'); wk = read('qualifiers/well_known.rs'); ps = read('parse.rs')
out['type_special'] = char_list(lib[lib.index('fn is_valid_package_type'):], 'is_valid_package_type', 'ALLOWED_SPECIAL_CHARS')
out['key_special'] = char_list(q[q.index('fn is_valid_qualifier_name'):], 'is_valid_qualifier_name', 'ALLOWED_SPECIAL_CHARS')
out['dash_chars'] = char_list(pt, 'fix_pypi_name', 'DASH_CHARACTERS')
# --- type table
out['phf'] = re.findall(r'UniCase::ascii\("([^"]*)"\)\s*=>\s*PackageType::(\w+)', pt)
nm = pt[pt.index('pub const fn name'):]; nm = nm[:nm.index('\n    }\n')]
out['name'] = re.findall(r'PackageType::(\w+)\s*=>\s*"([^"]*)"', nm)
# --- variation points
def scan_form(fn):
    body = lib[lib.index('fn ' + fn):]; body = body[:body.index('\n}\n')]
    m = re.search(r'for c in s\.chars\(\) \{\s*if (.*?) \{', body, re.S)
    cond = m.group(1).strip() if m else None
    return {'c.is_uppercase()': 'ScanUpper', 'c.to_lowercase().ne([c])': 'ScanLowerNe'}.get(cond, f'UNRECOGNISED:{cond}')
out['scan_in_place'] = scan_form('lowercase_in_place'); out['scan_copy'] = scan_form('copy_as_lowercase')
m = re.search(r'String::with_capacity\((.*?)\);\n', wk, re.S)
cap = re.sub(r'\s+', '', m.group(1)) if m else None
CAP = {"algorithms.iter().map(|(k,v)|k.len()+1+v.len()).sum::<usize>()+algorithms.len()-1,": 'CapMinus1',
       "(algorithms.iter().map(|(k,v)|k.len()+1+v.len()).sum::<usize>()+algorithms.len()).saturating_sub(1),": 'CapSaturating'}
out['cap_form'] = CAP.get(cap, f'UNRECOGNISED:{cap}')
m = re.search(r'PackageType::Maven => \{\s*if (.*?) \{', pt, re.S)
mv = m.group(1).strip() if m else None
out['maven_ns'] = {'parts.namespace.is_empty()': 'NsIsEmpty', "parts.namespace.split('/').all(str::is_empty)": 'NsNoSegment'}.get(mv, f'UNRECOGNISED:{mv}')
fs = ps[ps.index('fn from_str'):ps.index('fn decode_subpath')]
out['skeleton'] = re.findall(r"\.(strip_prefix|trim_start_matches|rsplit_once|split_once)\((?:\"([^\"]*)\"|'(.)')\)", fs)
out['scheme_fmt'] = re.findall(r'"(pkg:\{\}/)"', fmt)
out['checksum_key'] = re.findall(r'impl KnownQualifierKey for Checksum<\'_> \{\s*const KEY: &\'static str = "([^"]*)"', wk)
out['typed_keys'] = re.findall(r'str_ref_qualifier!\((\w+), "([^"]*)"', wk + read('qualifiers/well_known/gem.rs') + read('qualifiers/well_known/maven.rs'))
print(json.dumps(out, indent=1))
