#!/usr/bin/env python3
"""Translator: reads the constants and a closed list of variation points out of /repo/purl/src.
Anything it does not recognise is reported in 'problems' (never guessed)."""
import re, sys, json
root = sys.argv[1] if len(sys.argv) > 1 else '/repo/purl/src'
def read(p):
    try: return open(f'{root}/{p}').read()
    except OSError: return ''
out = {'problems': []}
def attempt(name, f):
    try: f()
    except Exception as e: out['problems'].append(f'{name}: source form not recognised ({type(e).__name__}: {e})')
def byte_lit(s):
    m = re.fullmatch(r"b'(\\.|\\x[0-9a-fA-F]{2}|[^\\])'", s)
    if not m: raise ValueError(s)
    c = m.group(1)
    if c.startswith('\\x'): return int(c[2:], 16)
    esc = {'\\\\': '\\', "\\'": "'", '\\"': '"', '\\n': '\n', '\\t': '\t', '\\0': '\0', '\\r': '\r'}
    return ord(esc.get(c, c))
fmt = read('format.rs'); lib = read('lib.rs'); q = read('qualifiers.rs'); pt = read('package_type.rs'); wk = read('qualifiers/well_known.rs'); ps = read('parse.rs')
LIT = r"b'(?:\\.|\\x[0-9a-fA-F]{2}|[^\\])'"
def do_sets():
    sets = {'CONTROLS': set(range(0, 32)) | {127}, 'NON_ALPHANUMERIC': set(range(128)) - set(range(48, 58)) - set(range(65, 91)) - set(range(97, 123))}
    out['sets'] = {}
    for m in re.finditer(r'const\s+(\w+)\s*:\s*&AsciiSet\s*=\s*&\s*(\w+)((?:\s*\.\s*(?:add|remove)\(\s*' + LIT + r'\s*\))*)\s*;', fmt):
        name, base, chain = m.groups()
        if base not in sets: out['problems'].append(f'set {name}: unknown base {base}'); continue
        cur = set(sets[base])
        for op, lit in re.findall(r"\.\s*(add|remove)\(\s*(" + LIT + r")\s*\)", chain):
            (cur.add if op == 'add' else cur.discard)(byte_lit(lit))
        sets[name] = cur
        out['sets'][name] = {'line': fmt[:m.start()].count('\n') + 1, 'members': sorted(cur)}
    n_consts = len(re.findall(r'const\s+\w+\s*:\s*&AsciiSet', fmt))
    if n_consts != len(out['sets']): out['problems'].append(f'{n_consts - len(out["sets"])} AsciiSet constant(s) in format.rs have an unrecognised form')
    use = {}
    for m in re.finditer(r'utf8_percent_encode\(\s*([\w.()&*]+)\s*,\s*(\w+)\s*\)', fmt):
        arg = m.group(1).replace('self.', '').replace('()', '').lstrip('&*')
        use.setdefault(arg, []).append(m.group(2))
    out['use'] = use
attempt('escape sets', do_sets)
def char_list(src, start, const):
    seg = src[src.index(start):]
    m = re.search(const + r"\s*:\s*&\[char\]\s*=\s*&\[([^\]]*)\]", seg)
    if not m: raise ValueError(const + ' not found')
    return [ord(c) for c in re.findall(r"'(.)'", m.group(1))]
def do_lists():
    out['type_special'] = char_list(lib, 'fn is_valid_package_type', 'ALLOWED_SPECIAL_CHARS')
    out['key_special'] = char_list(q, 'fn is_valid_qualifier_name', 'ALLOWED_SPECIAL_CHARS')
    out['dash_chars'] = char_list(pt, 'fn fix_pypi_name', 'DASH_CHARACTERS')
attempt('character lists', do_lists)
def do_types():
    out['phf'] = re.findall(r'UniCase::ascii\("([^"]*)"\)\s*=>\s*PackageType::(\w+)', pt)
    nm = pt[pt.index('pub const fn name'):]; nm = nm[:nm.index('\n    }\n')]
    out['name'] = [list(x) for x in re.findall(r'PackageType::(\w+)\s*=>\s*"([^"]*)"', nm)]
attempt('type table', do_types)
def scan_form(fn):
    body = lib[lib.index('fn ' + fn):]; body = body[:body.index('\n}\n')]
    m = re.search(r'for c in s\.chars\(\) \{\s*if (.*?) \{', body, re.S)
    cond = re.sub(r'\s+', ' ', m.group(1).strip()) if m else None
    return {'c.is_uppercase()': 'ScanUpper', 'c.to_lowercase().ne([c])': 'ScanLowerNe'}.get(cond, f'UNRECOGNISED:{cond}')
def do_vps():
    out['scan_in_place'] = scan_form('lowercase_in_place'); out['scan_copy'] = scan_form('copy_as_lowercase')
    m = re.search(r'String::with_capacity\((.*?)\);\n', wk, re.S)
    cap = re.sub(r'\s+', '', m.group(1)) if m else None
    CAP = {"algorithms.iter().map(|(k,v)|k.len()+1+v.len()).sum::<usize>()+algorithms.len()-1,": 'CapMinus1',
           "(algorithms.iter().map(|(k,v)|k.len()+1+v.len()).sum::<usize>()+algorithms.len()).saturating_sub(1),": 'CapSaturating'}
    out['cap_form'] = CAP.get(cap, f'UNRECOGNISED:{cap}')
    m = re.search(r'PackageType::Maven => \{\s*if (.*?) \{', pt, re.S)
    mv = re.sub(r'\s+', ' ', m.group(1).strip()) if m else None
    out['maven_ns'] = {'parts.namespace.is_empty()': 'NsIsEmpty', "parts.namespace.split('/').all(str::is_empty)": 'NsNoSegment'}.get(mv, f'UNRECOGNISED:{mv}')
    fs = ps[ps.index('fn from_str'):ps.index('fn decode_subpath')]
    out['skeleton'] = [list(x) for x in re.findall(r"\.(strip_prefix|trim_start_matches|rsplit_once|split_once)\((?:\"([^\"]*)\"|'(.)')\)", fs)]
    out['checksum_key'] = re.findall(r'impl KnownQualifierKey for Checksum<\'_> \{\s*const KEY: &\'static str = "([^"]*)"', wk)
    out['typed_keys'] = [list(x) for x in re.findall(r'str_ref_qualifier!\((\w+), "([^"]*)"', wk + read('qualifiers/well_known/gem.rs') + read('qualifiers/well_known/maven.rs'))]
attempt('variation points', do_vps)
def do_serde():
    # the serde impls: Serialize = collect_str(Display); Deserialize = deserialize_str with a visitor that implements visit_str only
    de = ps[ps.index('mod de {'):] if 'mod de {' in ps else ''
    de = de[:de.index('#[cfg(test)]')] if '#[cfg(test)]' in de else de
    out['visitor_methods'] = sorted(set(re.findall(r'fn (visit_\w+)', de)))
    out['deserialize_call'] = re.findall(r'deserializer\.(\w+)\(', de)
    se = fmt[fmt.index('mod ser {'):] if 'mod ser {' in fmt else ''
    se = se[:se.index('#[cfg(test)]')] if '#[cfg(test)]' in se else se
    out['serialize_call'] = re.findall(r'serializer\.(\w+)\(([^)]*)\)', se)
    m = re.search(r'fn visit_str<E>\(self, v: &str\) -> Result<Self::Value, E>\s*where\s*E: Error,\s*\{(.*?)\n        \}', de, re.S)
    out['visit_str_body'] = re.sub(r'\s+', ' ', m.group(1)).strip() if m else None
attempt('serde impls', do_serde)
def do_shapes():
    # the data types whose derived Eq / Hash / Ord the model transcribes (cmp_parts, cmp_g, cmp_t: lexicographic in declaration order)
    def struct(src, name):
        m = re.search(r'((?:\s*#\[[^\]]*\]\s*\n)+)\s*pub (?:struct|enum) ' + name + r'(?:<[^>]*>)?\s*\{(.*?)\n\}', src, re.S)
        if not m: return None
        attrs, body = m.groups()
        derives = sorted(set(x.strip() for d in re.findall(r'#\[derive\(([^)]*)\)\]', attrs) for x in d.split(',') if x.strip()))
        fields = [re.sub(r'\s+', ' ', l.strip().rstrip(',')) for l in body.split('\n') if l.strip() and not l.strip().startswith(('//', '#'))]
        return dict(derives=derives, fields=fields)
    out['shapes'] = {'PurlParts': struct(lib, 'PurlParts'), 'GenericPurl': struct(lib, 'GenericPurl'), 'Qualifiers': struct(q, 'Qualifiers'), 'PackageType': struct(pt, 'PackageType')}
    m = re.search(r'((?:\s*#\[[^\]]*\]\s*\n)+)\s*pub struct QualifierKey\(([^)]*)\);', q)
    out['shapes']['QualifierKey'] = dict(derives=sorted(set(x.strip() for d in re.findall(r'#\[derive\(([^)]*)\)\]', m.group(1)) for x in d.split(','))), fields=[m.group(2).strip()]) if m else None
    # hand-written comparison / hashing impls for these types (the model knows exactly two: PartialEq<S> and PartialOrd<S> for QualifierKey)
    out['manual_impls'] = sorted(re.sub(r'\s+', ' ', x) for src in (lib, q, pt) for x in re.findall(r'impl(?:<[^>]*>)?\s+((?:PartialEq|Eq|PartialOrd|Ord|Hash)(?:<[^>]*>)?\s+for\s+\w+(?:<[^>]*>)?)', src))
attempt('data type shapes', do_shapes)
def nontest(src):
    i = src.find('#[cfg(test)]')
    return src if i < 0 else src[:i]
def do_state_and_calls():
    import os
    files = {}
    for dp, _, fs in os.walk(root):
        for f in fs:
            if f.endswith('.rs'):
                files[os.path.relpath(os.path.join(dp, f), root)] = '\n'.join(l for l in nontest(open(os.path.join(dp, f)).read()).split('\n') if not l.strip().startswith('//'))
    # state that survives a call: the model is a pure function of the arguments
    pat = re.compile(r'thread_local!|\bstatic\s+mut\b|\bstatic\s+\w+\s*:|\bRefCell\b|\bCell<|\bMutex\b|\bRwLock\b|\bOnceCell\b|\bOnceLock\b|\bLazy(Lock|Cell)?\b|\bAtomic\w+|lazy_static!')
    st = []
    for f, src in sorted(files.items()):
        for l in src.split('\n'):
            t = l.strip()
            if t.startswith('//'): continue
            if pat.search(t) and 'static PACKAGE_TYPES' not in t: st.append([f, re.sub(r'\s+', ' ', t)[:120]])
    out['state_sites'] = st
    # the calls of the two user hooks (C14: conversion at most once per parse, finish exactly once per build)
    out['hook_calls'] = {'finish_in_build': len(re.findall(r'\.finish\(', files.get('builder.rs', ''))),
                         'finish_elsewhere': sum(len(re.findall(r'\.finish\(', src)) for f, src in files.items() if f != 'builder.rs'),
                         'from_str_in_parse': len(re.findall(r'\bT::from_str\(', files.get('parse.rs', ''))),
                         'build_calls_in_parse': len(re.findall(r'\.build\(\)', files.get('parse.rs', '')))}
def do_search_form():
    # Qualifiers::search: the model scans linearly; BinSearch.v proves std's binary_search_by loop returns the same on every reachable collection
    q = '\n'.join(l for l in nontest(read('qualifiers.rs')).split('\n') if not l.strip().startswith('//'))
    m = re.search(r'fn search<K>\(.*?\{\s*(.*?)\s*\}\s*\n', q[q.index('fn search<K>'):], re.S)
    out['search_form'] = re.sub(r'\s+', ' ', m.group(1)) if m else None
attempt('search form', do_search_form)
attempt('state and hook calls', do_state_and_calls)
print(json.dumps(out, indent=1))
