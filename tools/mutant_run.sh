#!/bin/bash
# usage: tools/mutant_run.sh <patch.diff> <Cnn> [Cnn...]  — applies the patch to /repo, runs the quick checks, reverts
patch=$1; shift
cd /verif
git -C /repo apply "$patch" || { echo "patch does not apply"; exit 2; }
for p in "$@"; do
  out=$(./vcheck check $p --tier quick 2>&1); rc=$?
  echo "$out" | grep -E "^(C[0-9]+ quick|VIOLATION|KNOWN|  - )" | cut -c1-260
  echo "   -> $p exit=$rc"
done
git -C /repo checkout -- .
