"""Case generators for the correspondence check.  Every random choice comes from one
random.Random(seed); every generator yields case lines of the language documented in
harness/src/main.rs.  Strings are hex encoded ('-' = empty)."""
import itertools, json, os, random

def unhx(h):
    try: return bytes.fromhex(h).decode('utf-8', 'replace')
    except Exception: return ''
def hx(s):
    b = s.encode('utf-8') if isinstance(s, str) else bytes(s)
    return b.hex() if b else '-'

# literals found in source lines that differ from the recorded tree (tools/fingerprint.py); empty on the recorded tree
EXTRA = dict(chars=[], strs=[], nums=[])
def set_extra(lits):
    chars = [l for l in lits if len(l) == 1 and not l.startswith('#')]
    strs = [l for l in lits if len(l) > 1 and not l.startswith('#')]
    nums = sorted({int(l[1:]) for l in lits if l.startswith('#') and l[1:].isdigit() and 0 < int(l[1:]) <= 64})
    EXTRA.update(chars=chars[:12], strs=strs[:12], nums=nums[:6])
    for c in EXTRA['chars']:
        for pool in (POOL_ASCII, QK, CALGS, VALS, QKEYS):
            if c not in pool: pool.append(c)
        if c.isalnum():
            for k in (c + 'one', 'si' + c + 'e', c * 2):
                for pool in (QK, QKEYS):
                    if k not in pool: pool.append(k)
    for st in EXTRA['strs']:
        for pool in (ODD, CALGS, VALS, GTYPES, QK, QKEYS, QVALS):
            if st not in pool: pool.append(st)
    for n in EXTRA['nums']:
        for st in ('a' * n, 'a' * (n + 1), 'é' * n, 'pkg:'[:n]):
            if st and st not in ODD: ODD.append(st)
    for fam, (prefix, alpha) in TOK_FAMILIES.items():
        for t in (EXTRA['chars'] + [x for x in EXTRA['strs'] if len(x) <= 4])[:6]:
            if t not in alpha: alpha.append(t)
SEVEN = ['cargo', 'gem', 'golang', 'maven', 'npm', 'nuget', 'pypi']
OTHER_TYPES = ['alpm', 'apk', 'bitbucket', 'cocoapods', 'composer', 'conan', 'conda', 'cran', 'deb', 'docker', 'generic',
               'github', 'hackage', 'hex', 'huggingface', 'mlflow', 'oci', 'pub', 'qpkg', 'rpm', 'swid', 'swift', 'bitnami']

# ------------------------------------------------------------------ G-tok: bounded token language, exhaustive
TOK_FAMILIES = {
    # prefix, alphabet
    'head': ('pkg:', ['/', '@', '?', '#', '&', '=', 'a', 'B', '%41', '%2F', '%80', 'é', '.', '..', '%2e', ':', '+', '%', 't/', 'k=v']),
    'path': ('pkg:t/', ['/', '@', '?', '#', 'a', 'B', '%41', '%2F', '%2f', '%80', 'é', '.', '..', '%2e', '%2E', ':', '+', '%', '%26', ' ']),
    'qual': ('pkg:t/n?', ['&', '=', 'a', 'B', 'A', '%41', '%80', 'é', '.', '_', '-', 'checksum', ':', ',', '0a', 'F', '%', '+', '%26', '#', '?', '@', 'a=1']),
    'sub':  ('pkg:t/n#', ['/', '#', '?', '@', 'a', '%41', '%2F', '%2f', '%5C', '%80', 'é', '.', '..', '%2e', '%2E', '.%2e', '%', ' ', '`']),
    'seg':  ('pkg:t/', ['/', 'a', '.', '..', '%2e', '%2E', '.%2e', '%2F', '%2f', '%5C', 'x/n', '/n#']),
    'typed': ('pkg:', ['maven', 'pypi', 'nuget', 'NPM', 'x', '/', '@', '?', '#', 'A', '_', '-', '.', 'Æ', 'ǅ', 'k=v', '%41']),
}
def gen_tok(k, kinds=('g',), families=None, rng=None, cap=None):
    fams = families or list(TOK_FAMILIES)
    for f in fams:
        prefix, alpha = TOK_FAMILIES[f]
        kk = k.get(f, k.get('*', 3)) if isinstance(k, dict) else k
        for n in range(0, kk + 1):
            for toks in itertools.product(alpha, repeat=n):
                s = prefix + ''.join(toks)
                for kind in kinds:
                    yield f'P {kind} {hx(s)}'

# ------------------------------------------------------------------ G-utf8: percent-encoded byte sequences over the boundary bytes of UTF-8 (Unicode table 3-7), exhaustive
UTF8_BOUNDARY = [0x00, 0x01, 0x2F, 0x41, 0x7F, 0x80, 0x8F, 0x90, 0x9F, 0xA0, 0xBF, 0xC0, 0xC1, 0xC2, 0xDF, 0xE0, 0xE1, 0xEC, 0xED, 0xEE, 0xEF, 0xF0, 0xF1, 0xF3, 0xF4, 0xF5, 0xFF]
def gen_utf8(maxlen, kinds=('g',)):
    for n in range(1, maxlen + 1):
        for seq in itertools.product(UTF8_BOUNDARY, repeat=n):
            e = ''.join('%%%02X' % b for b in seq)
            pos = n % 4
            s = ['pkg:t/' + e, 'pkg:t/n@' + e, 'pkg:t/n?k=' + e, 'pkg:t/n#' + e][pos] if n > 2 else 'pkg:t/' + e
            for k in kinds: yield f'P {k} {hx(s)}'
            if n <= 2:
                for k in kinds:
                    yield f'P {k} {hx("pkg:t/" + e + "/n")}'
                    yield f'P {k} {hx("pkg:t/n@" + e)}'
                    yield f'P {k} {hx("pkg:t/n?k=" + e)}'
                    yield f'P {k} {hx("pkg:t/n#" + e)}'

# ------------------------------------------------------------------ G-slot: every ASCII character in every syntactic slot, exhaustive
def gen_slot2(kinds=('g', 't')):
    for c in range(128):
        ch = chr(c)
        if ch in '&#': continue
        for s in ['pkg:t/n?b=1&' + ch + 'a=2', 'pkg:t/n?a=1&a' + ch + '=2', 'pkg:t/n?b=1&a' + ch + '=2&c=3']:
            for k in kinds: yield f'P {k} {hx(s.replace("pkg:t/", "pkg:npm/") if k == "t" else s)}'
def gen_slot(kinds=('g',)):
    for c in range(128):
        ch = chr(c)
        slots = ['pkg:t' + ch + '/n', 'pkg:' + ch + 't/n', 'pkg:t/n?k' + ch + '=v', 'pkg:t/n?' + ch + 'k=v', 'pkg:t/n?k=v&' + ch + '=w',
                 'pkg:t/n?checksum=a:' + ch + '0', 'pkg:t/n?checksum=a:0' + ch, 'pkg:t/n?checksum=a:00' + ch + '0', 'pkg:t/n?checksum=a' + ch + ':00',
                 'pkg:t/n?checksum=' + ch + 'a:00,b:11', 'pkg:t/n?checksum=a:00' + ch + 'b:11',
                 'pkg:t/' + ch + '/n', 'pkg:t/a' + ch + 'b/n', 'pkg:t/n' + ch, 'pkg:t/' + ch + 'n', 'pkg:t/n@' + ch, 'pkg:t/n@1' + ch + '2', 'pkg:t/n?k=' + ch, 'pkg:t/n?k=a' + ch + 'b',
                 'pkg:t/n#' + ch, 'pkg:t/n#a' + ch + 'b', 'pkg:t/n#a/' + ch + '/b', 'pk' + ch + ':t/n', 'pkg' + ch + 't/n', ch + 'pkg:t/n', 'pkg:' + ch + '/t/n']
        for s in slots:
            for k in kinds: yield f'P {k} {hx(s)}'
    for c in ['é', 'É', 'ß', 'K', 'Σ', '日']:
        for s in ['pkg:t' + c + '/n', 'pkg:t/n?k' + c + '=v', 'pkg:t/n?checksum=a' + c + ':00', 'pkg:t/n?checksum=' + c + 'SHA:00', 'pkg:t/n?checksum=' + c + 'A:00,' + c + 'a:11', 'pkg:t/n?checksum=a:0' + c]:
            for k in kinds: yield f'P {k} {hx(s)}'

# ------------------------------------------------------------------ random strings
POOL_ASCII = list("abcXYZ019") + list("-._~!$'()*,;:") + list(" \"<>%@?#`{}/+&=|\\^[]") + ['\t', '\x01', '\x7f']
POOL_UNI = ['é', 'Æ', 'ß', 'ǅ', 'İ', '日', '𝄞', '́', 'K', 'ſ', 'Σ', 'ΑΣ', 'ς']
ODD = ['a/b/c', '@scope/pkg/dist', 'Contoso.Élan', 'MyÉlan', 'Requests[Security]', '[x]', 'g:a', 'org.apache.commons:io', ':a', 'g:', 'a:b:c', 'v2', 'x ', ' x', 'x\t', '@scope/name', '@a/b', 'a/b', '/a', 'a/', '@', '@x', 'x@y', 'İ_b', 'İ', 'École_Δ', 'Ångström.Units', '...', '....', '.a', 'a.', '..a', '. .', '%', '+', 'a b', '.', '..', '-', '_', '%2F', 'a%zz', '%%', '\\', 'A', 'é', ':', ',', 'a:b,c:d']
def rstr(rng, lo=1, hi=6, exclude=''):
    if lo >= 1 and rng.random() < 0.12:
        o = rng.choice(ODD)
        if not any(ch in exclude for ch in o): return o
    n = rng.randint(lo, hi)
    out = []
    while len(out) < n:
        c = rng.choice(POOL_UNI) if rng.random() < 0.15 else rng.choice(POOL_ASCII)
        if c not in exclude:
            out.append(c)
    return ''.join(out)
def rkey(rng):
    ex = [c for c in EXTRA['chars'] if c.isalnum() and c.isascii()]
    if ex and rng.random() < 0.25:
        c = rng.choice(ex)
        return rng.choice([c, c + 'one', 'si' + c + 'e', 'a' + c])
    first = rng.choice('abcdkqxyz')
    rest = ''.join(rng.choice('abcxyz019._-') for _ in range(rng.randint(0, 4)))
    return first + rest
def rcase(rng, s):
    return ''.join(c.upper() if rng.random() < 0.4 else c.lower() for c in s)
def rcase_ascii(rng, s):
    # vary the case of ASCII letters only (upper-casing a non-ASCII letter may change its identity, e.g. sharp s)
    return ''.join((c.upper() if rng.random() < 0.4 else c) if c.isascii() else (c.upper() if len(c.upper()) == 1 and c.upper().lower() == c and rng.random() < 0.3 else c) for c in s)
def rtype(rng):
    return rng.choice('abtxyz') + ''.join(rng.choice('abz09.+-') for _ in range(rng.randint(0, 4)))

def enc_byte(rng, b, p_enc=0.25):
    return ('%%%02X' if rng.random() < 0.5 else '%%%02x') % b
def spell(rng, s, must_encode, p_enc=0.2):
    """A spelling of s: each byte raw or percent-encoded (either hex case); bytes of chars in
    must_encode are always encoded; a raw '%' is never produced."""
    out = []
    for ch in s:
        bs = ch.encode('utf-8')
        if ch in must_encode or ch == '%' or rng.random() < p_enc:
            out.append(''.join(enc_byte(rng, b) for b in bs))
        else:
            out.append(ch)
    return ''.join(out)

def random_tuple(rng, typed=False):
    if typed:
        ty = rng.choice(SEVEN) if rng.random() < 0.85 else rng.choice(OTHER_TYPES)
    else:
        ty = rtype(rng)
    ns = [rstr(rng, 1, 4, exclude='/') for _ in range(rng.choice([0, 0, 1, 1, 2, 3]))]
    name = rstr(rng, 1, 6)
    ver = rstr(rng, 1, 5) if rng.random() < 0.6 else ''
    quals = {}
    for _ in range(rng.choice([0, 0, 1, 2, 3])):
        k = rkey(rng)
        if k.lower() != 'checksum':
            quals[k.lower()] = rstr(rng, 1, 5)
    cs = None
    if rng.random() < 0.25:
        cs = {}
        for _ in range(rng.randint(1, 3)):
            alg = rng.choice(['sha1', 'sha256', 'md5', 'b2', 'x-y', 'é1', 'ǆ', 'ασ', 'sha512', 'sha512-256', 'urn:sha1', 'ésha', '日b', 'ßx', 'gost-ё', 'shä'])
            cs[alg] = bytes(rng.randrange(256) for _ in range(rng.choice([0, 1, 2, 4])))
        quals['checksum'] = ','.join(f'{a}:{cs[a].hex()}' for a in sorted(cs, key=lambda a: a.encode()))
    sub = []
    for _ in range(rng.choice([0, 0, 1, 2, 3])):
        s = rstr(rng, 1, 4, exclude='/')
        if s not in ('.', '..'):
            sub.append(s)
    if typed and ty == 'maven' and not ns and rng.random() < 0.8:
        ns = ['g.id']
    return dict(ty=ty, ns=ns, name=name, ver=ver, quals=quals, cs=cs, sub=sub)

def tuple_exp(t):
    q = ';'.join(f'{hx(k)}={hx(v)}' for k, v in sorted(t['quals'].items(), key=lambda kv: kv[0].encode())) or '-'
    return '|'.join([hx(t['ty']), hx('/'.join(t['ns'])), hx(t['name']), hx(t['ver']), q, hx('/'.join(t['sub']))])

def spelling_of(rng, t, fault=None):
    """Render a legal spelling of tuple t.  `fault` (a dict) lets G-fault replace one piece."""
    has_sub = bool(t['sub']) or (fault and fault.get('sub_raw') is not None)
    has_q = bool(t['quals']) or (fault and fault.get('q_raw') is not None)
    has_ver = bool(t['ver']) or (fault and fault.get('ver_raw') is not None)
    def left(extra=''):
        # characters that must be encoded in a component to the left of all three separators
        m = '/' + extra
        if not has_sub: m += '#'
        if not has_q: m += '?'
        if not has_ver: m += '@'
        return m
    s = 'pkg:' + '/' * rng.choice([0, 0, 0, 1, 2])
    s += fault['ty_raw'] if fault and 'ty_raw' in fault else rcase(rng, t['ty'])
    s += '/'
    # namespace: segments, with extra slashes
    if fault and 'ns_raw' in fault:
        s += fault['ns_raw'] + '/'
    elif t['ns']:
        segs = [spell(rng, x, left()) for x in t['ns']]
        ns = ('/' * rng.choice([0, 0, 1])) + ('/' * rng.choice([1, 1, 2])).join(segs) if len(segs) > 1 else segs[0]
        if len(segs) > 1 and rng.random() < 0.3:
            ns = '/'.join(segs[:1]) + '//' + '/'.join(segs[1:])
        s += ns + '/' * rng.choice([1, 1, 2])
    elif rng.random() < 0.1:
        s += '/'  # an empty namespace written as an extra slash
    s += fault['name_raw'] if fault and 'name_raw' in fault else spell(rng, t['name'], left())
    if fault and fault.get('ver_raw') is not None:
        s += '@' + fault['ver_raw']
    elif t['ver']:
        # the version is to the right of '@': '@' itself must be encoded, '/' may be raw
        m = '@'
        if not has_sub: m += '#'
        if not has_q: m += '?'
        s += '@' + spell(rng, t['ver'], m)
    if fault and fault.get('q_raw') is not None:
        s += '?' + fault['q_raw']
    elif t['quals']:
        items = []
        keys = list(t['quals'])
        rng.shuffle(keys)
        for i, k in enumerate(keys):
            v = t['quals'][k]
            if k == 'checksum' and t['cs'] is not None:
                ents = list(t['cs'].items())
                rng.shuffle(ents)
                v = ','.join(f'{rcase_ascii(rng, a)}:{rcase(rng, b.hex())}' for a, b in ents)
            m = '&?' + ('' if has_sub else '#')
            if rng.random() < 0.3:
                # an empty-valued qualifier, with a fresh key or the key of a later item (never the key of an earlier non-empty one)
                ek = rng.choice(keys[i:]) if rng.random() < 0.5 else 'zz' + rkey(rng)
                if ek.lower() not in [x.lower() for x in keys[:i]]:
                    items.append(rcase(rng, ek) + '=')
            items.append(rcase(rng, k) + '=' + spell(rng, v, m))
        if rng.random() < 0.2:
            ek = 'zz' + rkey(rng)
            if ek.lower() not in [x.lower() for x in keys]:
                items.append(ek + '=')
        s += '?' + '&'.join(items)
    if fault and fault.get('sub_raw') is not None:
        s += '#' + fault['sub_raw']
    elif t['sub']:
        pieces = []
        for x in t['sub']:
            while rng.random() < 0.25:
                pieces.append(rng.choice(['', '.', '..']))
            pieces.append(spell(rng, x, '/#'))
        while rng.random() < 0.25:
            pieces.append(rng.choice(['', '.', '..']))
        s += '#' + '/'.join(pieces)
    return s

def gen_spell(rng, n, kinds=('g', 't')):
    for _ in range(n):
        kind = rng.choice(kinds)
        t = random_tuple(rng, typed=(kind == 't'))
        yield f'S {kind} {tuple_exp(t)} {hx(spelling_of(rng, t))}'

# ------------------------------------------------------------------ G-fault
BAD_UTF8 = ['%80', '%BF', '%C3', '%E2%82', '%C0%AF', '%E0%80%80', '%ED%A0%80', '%F4%90%80%80', '%F8%88%80%80%80', '%FF', '%c3', '%ed%a0%80']
def gen_fault(rng, n, kinds=('g', 't')):
    for _ in range(n):
        kind = rng.choice(kinds)
        typed = kind == 't'
        t = random_tuple(rng, typed=typed)
        if typed:
            t['ty'] = rng.choice([x for x in SEVEN if x != 'maven'])
        wrap = (lambda e: 'Parse:' + e) if typed else (lambda e: e)
        fk = rng.choice(['scheme', 'notype', 'badtype', 'noname', 'noeq', 'badkey', 'dupkey', 'utf8', 'hidden', 'dotseg', 'cs',
                         'unknown', 'maven'] if typed else
                        ['scheme', 'notype', 'badtype', 'noname', 'noeq', 'badkey', 'dupkey', 'utf8', 'hidden', 'dotseg', 'cs'])
        good = spelling_of(rng, t)
        if fk == 'scheme':
            s = rng.choice([good[4:], 'http:' + good[4:], 'pkg' + good[4:], 'x' + good, ' ' + good, 'pk:' + good[4:], good[1:], '', 'pkg', ':' + good])
            err = wrap('Scheme')
        elif fk == 'notype':
            tail = ''
            if t['quals']:
                tail += '?' + '&'.join(f'{k}=v' for k in t['quals'] if k != 'checksum')
                if tail == '?': tail = ''
            if t['sub']:
                tail += '#' + '/'.join(spell(rng, x, '/#') for x in t['sub'])
            s = 'pkg:' + '/' * rng.choice([0, 1, 3]) + tail
            err = wrap('Missing(type)')
        elif fk == 'badtype':
            bad = rng.choice([' ', '!', '_', '%74', '%2B', 'é', '@', '=', '&', ':', '~', '*', '\x01', '%'])
            pos = rng.randint(0, len(t['ty']))
            s = spelling_of(rng, t, dict(ty_raw=t['ty'][:pos] + bad + t['ty'][pos:]))
            err = wrap('InvalidType')
        elif fk == 'noname':
            variant = rng.choice(['noslash', 'empty', 'nsonly', 'veronly'])
            tail = ''
            if variant == 'noslash':
                s = 'pkg:' + rcase(rng, t['ty'])
            elif variant == 'empty':
                s = 'pkg:' + rcase(rng, t['ty']) + '/'
            elif variant == 'nsonly':
                s = 'pkg:' + rcase(rng, t['ty']) + '/abc/'
            else:
                s = 'pkg:' + rcase(rng, t['ty']) + '/@1.0'
            if t['sub'] and rng.random() < 0.5:
                s += '#' + '/'.join(spell(rng, x, '/#') for x in t['sub'])
            err = wrap('Missing(name)')
        elif fk in ('noeq', 'badkey', 'dupkey', 'cs'):
            items = [f'{rcase(rng, k)}={spell(rng, v, "&?#")}' for k, v in t['quals'].items() if k != 'checksum']
            if fk == 'noeq':
                bad = rng.choice(['abc', '', 'k', '%3D', 'a%3Db'])
            elif fk == 'badkey':
                bad = rng.choice(['=v', 'a b=v', 'a%20b=v', '%61=v', 'k%41=v', 'é=v', 'a!=v', 'a+b=v', 'a/b=v', 'a:b=v', '%=v', 'a@=v', ' a=v', 'a%80=v', '%80=v', 'arch%FF=v', '%C3a=v', '%C0%AF=v', 'a =v', 'A!=v', 'Key name=v', 'a[0]=v', 'k^=v'])
            elif fk == 'dupkey':
                k = rkey(rng)
                while k.lower() in t['quals'] or k.lower() == 'checksum': k = rkey(rng)
                items.append(f'{k}=1')                                        # (an empty first occurrence would free the key: ?y=&y=1 is legal)
                if rng.random() < 0.4: items.append(f'{rcase(rng, k)}=')       # an empty occurrence in between does not free the key
                bad = f'{rcase(rng, k)}={rng.choice(["2", "1", "%31", "", ""])}'   # nor does an empty last one go unnoticed
            else:
                bad = 'checksum=' + rng.choice(['sha1', 'sha1:0', 'sha1:0g', 'sha1:00,md5', 'sha1:00,SHA1:11', 'sha1:00,sha1:00', ':0',
                                                'sha1:000', 'a:00,', ',a:00', 'a:0%2C', 'sha1:zz', 'Sha1:00,sHA1:00', 'ǅ:00,ǆ:11', 'a:00,sha1:zz', 'md5:00,sha1:0', 'md5:aa,md5:aa', 'md5:00,sha1:11,sha1:22,sha256:33', 'sha1:,sha1:', 'Æ:00,æ:11'])
                if rng.random() < 0.35:
                    c = rng.choice([x for x in "+-_.~!*'();@$=ghzGHZ xX/\\|^[]{}`\"<>" if x not in ',&#:'])   # not ':' - it would move the algorithm/digest boundary
                    d = list(rng.choice(['00', 'a0b1', '0f', 'DEADBEEF']))
                    d[rng.randrange(len(d))] = c
                    bad = 'checksum=' + rng.choice(['sha1:', 'a:00,b:', 'SHA256:']) + spell(rng, ''.join(d), '&?#%')
                if rng.random() < 0.5: bad = rcase(rng, 'checksum') + bad[8:]
            if fk == 'dupkey':
                items.append(bad)
            else:
                items.insert(rng.randint(0, len(items)), bad)
            s = spelling_of(rng, t, dict(q_raw='&'.join(items)))
            err = wrap('InvalidQualifier')
        elif fk == 'utf8':
            bad = rng.choice(BAD_UTF8)
            where = rng.choice(['ns', 'name', 'ver', 'qval', 'sub'])
            pre, post = rng.choice(['', 'a', 'é']), rng.choice(['', 'b', '%41'])
            piece = pre + bad + post
            if where == 'ns': s = spelling_of(rng, t, dict(ns_raw=rng.choice(['', 'x/']) + piece))
            elif where == 'name': s = spelling_of(rng, t, dict(name_raw=piece))
            elif where == 'ver': s = spelling_of(rng, t, dict(ver_raw=piece))
            elif where == 'qval': s = spelling_of(rng, t, dict(q_raw=rng.choice(['k', 'k', 'repository_url', 'Download_URL', 'vcs_url', 'file_name', 'checksum']) + '=' + piece))
            else: s = spelling_of(rng, t, dict(sub_raw=rng.choice(['', 'x/', './']) + piece))
            err = wrap('InvalidEscape')
        elif fk == 'hidden':
            piece = rng.choice(['a%2Fb', 'a%2fb', '%2F', '%2f', 'a%2F', '%2Fa'])
            if rng.random() < 0.5: s = spelling_of(rng, t, dict(ns_raw=rng.choice(['', 'x/', 'x//']) + piece))
            else: s = spelling_of(rng, t, dict(sub_raw=rng.choice(['', 'x/', '../']) + piece))
            err = wrap('InvalidEscape')
        elif fk == 'dotseg':
            piece = rng.choice(['%2e', '%2E', '%2e%2e', '%2E%2e', '.%2e', '%2E.', '%2e%2E'])
            s = spelling_of(rng, t, dict(sub_raw=rng.choice(['', 'x/', 'x/y/']) + piece + rng.choice(['', '/z'])))
            err = wrap('InvalidEscape')
        elif fk == 'unknown':
            t['ty'] = rng.choice(OTHER_TYPES + ['mavenx', 'np', 'pypi2', 'car-go'])
            s = spelling_of(rng, t)
            err = 'UnsupportedType'
        else:  # maven without namespace
            t['ty'] = 'maven'; t['ns'] = []
            s = spelling_of(rng, t)
            err = 'PMissing(namespace)'
        yield f'X {kind} {err} {hx(s)}'

# ------------------------------------------------------------------ G-corpus
def corpus_strings():
    out = []
    d = os.environ.get('VERIF_REPO', '/repo') + '/xtask/src/generate_tests'
    for f in sorted(os.listdir(d)) if os.path.isdir(d) else []:
        if f.endswith('.json'):
            for e in json.load(open(os.path.join(d, f))):
                for k in ('purl', 'canonical_purl'):
                    if isinstance(e.get(k), str): out.append(e[k])
    extra = ['pkg:t/n?k=a%26b', 'pkg:nuget/ǅ', 'pkg:pypi/ǅ', 'pkg:maven///n', 'pkg://gem/a+b?K=a%26b', 'pkg:t/a@b/n@1', 'pkg:t/n#%2e%2e',
             'pkg:t/n#%2E', 'pkg:t/a%2Fb/n', 'pkg:t/n?a=1&A=2', 'pkg:t/n?checksum=SHA1:AB,md5:', 'pkg:t/n?checksum=sha1:', 'pkg:t/n?k=a=b',
             'pkg:t/c#@1.0#docs', 'pkg:t/n#.../x', 'pkg:t/n?vcs_url=u&vcsref=r', 'pkg:nuget/A%C3%86', 'pkg:t/n?a_b=1&ab=2&aB=', 'pkg:t/%2F',
             'pkg:golang/a/b/c@v1#x/y', 'pkg:t/n@1/2', 'pkg:t/n@', 'pkg:t/n?', 'pkg:t/n#', 'pkg:t/n@%40', 'pkg:maven/a/b?type=pom&classifier=x']
    seen = set(); res = []
    for s in out + extra:
        if s not in seen:
            seen.add(s); res.append(s)
    return res
MUT_ALPHA = list("/@?#&=%:,.+ -_aA1") + ['%2F', '%2f', '%2e', '%41', '%80', '%26', 'é', '..', '//']
def gen_corpus(rng, nmut, kinds=('g', 't')):
    base = corpus_strings()
    for s in base:
        for k in kinds: yield f'P {k} {hx(s)}'
    for _ in range(nmut):
        s = list(rng.choice(base))
        for _ in range(rng.randint(1, 3)):
            op = rng.random(); i = rng.randint(0, len(s))
            if op < 0.4: s.insert(i, rng.choice(MUT_ALPHA))
            elif op < 0.7 and s: del s[min(i, len(s) - 1)]
            elif s: s[min(i, len(s) - 1)] = rng.choice(MUT_ALPHA)
        for k in kinds: yield f'P {k} {hx("".join(s))}'
def gen_corpus_files(d=os.path.join(os.path.dirname(os.path.abspath(__file__)), '..', 'corpus')):
    for f in sorted(os.listdir(d)) if os.path.isdir(d) else []:
        if f.endswith('.case'):
            for l in open(os.path.join(d, f)):
                l = l.strip()
                if l and not l.startswith('//'): yield l

# ------------------------------------------------------------------ G-byte
POS = ['S', 'N', 'V', 'Q', 'U']
def _bcase(kind, ty, pos, s):
    name0 = s if pos == 'N' else 'x'
    if pos == 'N': ops = '-'
    elif pos == 'Q': ops = f'Q:{hx("k")}:{hx(s)}'
    else: ops = f'{pos}:{hx(s)}'
    return f'B {kind} {ty} {hx(name0)} {ops}'
def gen_byte(pairs=True, kinds=('g',)):
    for kind in kinds:
        ty = hx('t') if kind != 't' else '0'
        for pos in POS:
            for a in range(128):
                yield _bcase(kind, ty, pos, chr(a))
            for c in ['é', 'ÿ', 'Ā', '߿', 'ࠀ', '日', '￿', '\U00010000', '𝄞', '\U0010ffff', 'ǅ', '\u0080']:
                yield _bcase(kind, ty, pos, c)
                yield _bcase(kind, ty, pos, 'a' + c + '/')
            if pairs:
                for a in range(128):
                    for b in range(128):
                        yield _bcase(kind, ty, pos, chr(a) + chr(b))
def gen_names(rng, tier):
    """C08: names over all scalar values for nuget / pypi / cargo, through parser (typed and generic) and builder."""
    def cases(n, light=False):
        e = ''.join('%%%02X' % b for b in n.encode())
        for ty, idx in (('nuget', 5), ('pypi', 6)) if light else (('nuget', 5), ('pypi', 6), ('cargo', 0)):
            yield f'P t {hx("pkg:" + ty + "/" + e)}'
            if not light: yield f'B t {idx} {hx(n)} -'
    for n in ['@scope/name', '@a/b', 'a/b', '/a', 'a/', '@x', 'İ_b', 'İ.b', 'İ', 'École_Δ', 'Ångström.Units', 'My.Äpp', 'a\u0301_B', '𝄞-Ａ', 'ß_ẞ', 'ǅ-ǅ']:
        e = ''.join('%%%02X' % b for b in n.encode())
        for ty in SEVEN:
            yield f'P t {hx("pkg:" + ty + "/g/" + e)}'
            yield f'P t {hx("pkg:" + ty + "/" + e)}'
            yield f'B t {SEVEN.index(ty)} {hx(n)} S:{hx("g")}'
    alpha = ['a', 'A', '1', '-', '_', '.', 'Æ', 'ǅ'] + [c for c in EXTRA['chars'] if c not in 'aA1-_.'][:2]
    for n in ['ΟΔΟΣ', 'ΑΣ', 'aΣ', 'Σ', 'ΑΣ-Σ', 'ΑΣa', 'AÆ', 'MyÆsir.Core', 'aΣ.bΣ', 'İ', 'ẞ', 'ſK', 'Éℂ', 'ℂÉ', 'Aℂ', 'ℂ', 'ϒ', '𝐀B', 'Ωϒ', 'Д𝐀_x', 'ℂ-_.ℂ']: yield from cases(n)
    for k in range(1, 5 if tier == 'quick' else 6):
        for w in itertools.product(alpha, repeat=k):
            yield from cases(''.join(w))
    if tier == 'quick':
        cps = set(range(0x80, 0x600)) | set(range(0x1C80, 0x2200)) | {0x212A, 0x2126, 0x212B, 0x130, 0x131, 0x17F, 0x1E9E, 0xFB00, 0x10400, 0x1E900, 0x10FFFF}
        cps |= set(rng.randrange(0x80, 0x110000) for _ in range(3000))
    else:
        cps = range(0x80, 0x110000)
    for cp in sorted(cps):
        if 0xD800 <= cp <= 0xDFFF: continue
        # thorough: every scalar value through the typed parser for nuget and pypi; every 16th (and everything below U+3000) through all six routes
        light = tier != 'quick' and cp >= 0x3000 and cp % 16 != 0
        yield from cases(chr(cp), light)
        if tier != 'quick' and (cp % 7 or light): continue
        yield from cases('A' + chr(cp))
        yield from cases(chr(cp) + '_-')

# ------------------------------------------------------------------ G-typed-punct: every type's rule leaves everything but the name alone
def gen_typed_punct():
    """for each of the seven types: namespace / name / version made of each ASCII punctuation character next to a lower-case and an upper-case letter,
    scoped and unscoped, with and without a well-known qualifier - through the typed and the type-agnostic parser and the typed builder"""
    punct = [chr(c) for c in range(33, 127) if not chr(c).isalnum()]
    vals = ['1.0.4294967296', '2023.10.15.20231015123456', '1.99999999999-beta+sha.abc', '18446744073709551616', '1.00.0.0+build', '0.0.0.0.0', '4294967295.4294967296'] + [p + 'a' for p in punct] + [p + 'B' for p in punct] + ['a' + p + 'B' for p in punct] + ['!', 'a/!/b', '@Scope', '@s', 'MyLib', 'parseUri', 'V1.0-Beta', 'wow!such!name']
    for i, ty in enumerate(SEVEN):
        for v in vals:
            e = ''.join('%%%02X' % ord(ch) if ch in '/@?#% ' else ch for ch in v)
            for s in ['pkg:' + ty + '/g/' + e, 'pkg:' + ty + '/' + e + '/Nm', 'pkg:' + ty + '/%40Sc/' + e + '@' + e, 'pkg:' + ty + '/g/' + e + '?repository_url=https://r.x/A']:
                yield f'P g {hx(s)}'; yield f'P t {hx(s)}'
            yield f'B t {i} {hx(v)} S:{hx("g")}'
            yield f'B t {i} {hx("Nm")} S:{hx(v)},V:{hx(v)}'
        for nm in ['Name', 'A_.b']:
            for ops in [f'Q:{hx("repository_url")}:-', 'R:-', f'Q:{hx("Repository_URL")}:-', f'Q:{hx("repository_url")}:{hx("https://r.x")}', f'Q:{hx("type")}:{hx("jar")}', f'S:{hx("@Sc")}']:
                yield f'B t {i} {hx(nm)} S:{hx("g")},{ops}'
# ------------------------------------------------------------------ G-lengths: boundary lengths in every position
LENGTHS = [23, 24, 32, 64, 65, 100, 128, 255, 256, 2048]
def gen_lengths(kinds=('g', 't', 's')):
    """strings of length n-1, n, n+1 for the usual capacity / limit values (and every number literal of a changed source line) as type, namespace, name,
    version, qualifier key and value, checksum algorithm and digest, subpath; plain, and with one character whose lower-casing is longer (U+0130)"""
    nums = sorted(set(LENGTHS + [x for x in EXTRA['nums'] if 2 <= x <= 4096]))
    for n in nums:
        for m in (n - 1, n, n + 1):
            fill = 'a' * m
            odd = 'A' * (m - 1) + 'İ' if m >= 1 else ''
            for k in kinds:
                ty = 'nuget' if k == 't' else 't'
                tyb = '5' if k == 't' else hx('t')
                for v in (fill, odd):
                    e = ''.join('%%%02X' % b for b in v.encode()) if not v.isascii() else v
                    yield f'P {k} {hx("pkg:" + ty + "/" + e)}'
                    yield f'P {k} {hx("pkg:" + ty + "/g/n@" + e)}'
                    yield f'P {k} {hx("pkg:" + ty + "/" + e + "/n")}'
                    yield f'P {k} {hx("pkg:" + ty + "/n?k=" + e)}'
                    yield f'P {k} {hx("pkg:" + ty + "/n#" + e)}'
                    yield f'B {k} {tyb} {hx(v)} -'
                    yield f'B {k} {tyb} {hx("n")} V:{hx(v)},S:{hx(v)},U:{hx(v)},Q:{hx("k")}:{hx(v)}'
                if k != 't' and m <= 300:
                    yield f'P {k} {hx("pkg:" + fill + "/n")}'
                    yield f'B {k} {hx("A" * m)} {hx("n")} -'
                if m <= 300:
                    yield f'P {k} {hx("pkg:" + ty + "/n?" + fill + "=v")}'
                    yield f'P {k} {hx("pkg:" + ty + "/n?checksum=" + fill + ":00")}'
                yield f'P {k} {hx("pkg:" + ty + "/n?checksum=sha1:" + "ab" * (m // 2) + ("" if m % 2 == 0 else "c"))}'
                yield f'P {k} {hx("pkg:" + ty + "/n#" + "d/" * m + "../../x")}' if m <= 300 else f'P {k} {hx("pkg:" + ty + "/n")}'
                yield f'P {k} {hx("pkg:" + ty + "/" + "d/" * m + "a//b/n")}' if m <= 300 else f'P {k} {hx("pkg:" + ty + "/n")}'
# ------------------------------------------------------------------ G-types: type strings through the builder, every built-in carrier
ODD_TYPES = ['éA', '日本Go', 'éa', 'Aé', 'ÉA', 'aéB', '\u00a0A', 'C++', 'SHA256', 'Alpm-X', 'ASP.Net', 'Vendor.Internal-Pkgs.V24', 'Vendor.Internal-Pkg.V23', 'com.example.build-system.artifact-bundle', 'a' * 64, 'a,b', ',', '+npm', '0pypi', '00cargo', 'Np m', 'goLang!', 'A/b', 'NuG\u00e9t', 'aB c', 'Zz_', '\u212a8s', 'K8s', '7zip', '3D', '0', '9', 'ſ', 'İ', 'é', 'É', 'café', 'Über', 'ß', 'Σ', 'py٣', '²', 'Ⅻ', '中', 'a\u0301', 'T', 'Tt', 'tT', 'Maven', 'NuGet', 'c++X', 'a.b', '.', '+', '-', 'a-', ' t', 't ', 't\t', 't/n', 't%41', '']
def gen_types(kinds=('g', 's', 'b', 'o')):
    tys = list(ODD_TYPES)
    for c in range(128):
        tys += [chr(c), 'a' + chr(c), chr(c) + 'a']
    for ty in tys:
        for k in kinds:
            yield f'B {k} {hx(ty)} {hx("n")} -'
    for ty in ODD_TYPES:
        for k in kinds:
            yield f'B {k} {hx("t")} {hx("n")} T:{hx(ty)}'
            yield f'B {k} {hx(ty)} {hx("")} -'

# ------------------------------------------------------------------ G-build
VALS = ['1%2E0', 'a%80', '1%252E0', 'a%2580', '%25', '%2525', '%%41', '', 'x', '/ a/b', 'a/b /', 'x\u00a0', '\u2003x', 'x\x0b', 'a/!/b', '!a', '%40a', '@a', 'my%20org', 'my org', 'a%252Fb', 'A/b', '/', 'a//b/', 'docs/%2541', 'a%252Fb', 'docs../img/x.', 'lib./i', 'a/.../b', '...', '..../x', 'a///b', 'a/////b//c', '1.0/', 'x ', '\u3000x\u3000', 'vv1', 'Vv1', '%41', '..', 'a/../b', 'é', 'a@b?c#d', ' ', 'a&b=c+d', '"<>`{}', 'a:b']
QKEYS = ['chec\u212asum', 'vc\u017f_url', 'cla\u00dfifier', '3rd', '0', 'a/b', 'a[0]', 'k^', 'a', 'A', 'b', 'a.b', 'a_b', 'ab', '!', '', 'checksum', 'Checksum', 'repository_url', 'é', 'type', 'Z', 'File_Name', 'filename']
QVALS = [' ', '\t', 'sha-256:aa,sha1:cc', 'md5:01,MD-6:02', 'sha224:00', 'a:00,sha1:zz', 'md5:00,sha1:0', 'a:ff', 'sha1:00,sha1:11', 'md5:aa,md5:aa', 'md5:00,sha1:11,sha1:22', '\u0130d:00ff', 'sha1:00,x\u0130:AB', 'shake256:' + 'ab' * 65, 'sha1:00,k12:' + 'CD' * 128, '', 'x', 'a&b=c', 'sha1:00', 'SHA1:ZZ', 'B:00,a:FF', 'sha1:0', 'a:,b:', 'v w', 'sha1:00,', ',sha1:00', 'sha1:', 'jar', 'sha3-256:aa,sha3:bb']
CSOPS = [f'i.{hx("shake256")}.' + 'ab' * 65, f'w.{hx("k12")}.' + hx('AB' * 100), f'w.{hx("x")}.' + hx('zz' * 70), '-', f'i.{hx("sha1")}.00ff', f'i.{hx("SHA1")}.-', f'i.{hx("md5")}.0a+i.{hx("MD5")}.0b', f'w.{hx("sha1")}.{hx("zz")}',
         f'w.{hx("sha1")}.{hx("ABC")}', f'i.{hx("ǅ")}.01+i.{hx("ǆ")}.02', f'i.{hx("b")}.00+i.{hx("a")}.ff', f'i.{hx("a")}.00+r.{hx("a")}',
         f'w.{hx("a")}.{hx("AB")}+i.{hx("A")}.cd', f'i.{hx("a,b")}.00']
GTYPES = ['t', 'T.y+p-e', 'NPM', '', 'a b', 'é', 't%2B', '\u212a8s', '7zip', 'Maven']
def builder_ops(kind):
    tyv = [str(i) for i in range(7)] if kind == 't' else [hx(x) for x in GTYPES]
    ops = []
    for v in VALS:
        ops += [f'N:{hx(v)}', f'S:{hx(v)}', f'V:{hx(v)}', f'U:{hx(v)}']
    ops += ['s', 'v', 'u', 'z', 'c', 'r']
    for k in QKEYS:
        for v in QVALS:
            ops.append(f'Q:{hx(k)}:{hx(v)}')
        ops += [f'q:{hx(k)}', f'D:{hx(k)}:{hx("d")}', f'E:{hx(k)}']
    ops += [f'C:{c}' for c in CSOPS]
    ops += [f'R:{hx(v)}' for v in ['', 'https://e.x/?a=b&c#d']]
    ops += [f'T:{t}' for t in tyv]
    ops += [f'W:0:{hx("t0")}', f'W:1:{hx("t1")}', f'W:0:-', 'w:0', 'w:1', f'Q:{hx("buildtag")}:{hx("q")}', f'Q:{hx("x-y.z_1")}:{hx("q")}']
    return ops, tyv
def gen_build(rng, nrand, exhaustive_len=1, kinds=('g', 't')):
    for kind in kinds:
        ops, tyv = builder_ops(kind)
        ty0 = tyv[0] if kind != 't' else None
        for n in range(0, exhaustive_len + 1):
            for seq in itertools.product(ops, repeat=n):
                t = ty0 if kind != 't' else str((len(seq) * 3 + n) % 7)
                yield f'B {kind} {t} {hx("n")} {",".join(seq) or "-"}'
        t1 = tyv[0]
        for seq in [f'Q:{hx("arch")}:{hx("x")},W:0:{hx("acme")}', f'W:0:{hx("acme")},Q:{hx("buildtag")}:{hx("o")}', f'D:{hx("zeta")}:{hx("1")},D:{hx("alpha")}:{hx("2")},W:0:{hx("v")}',
                    f'W:1:{hx("v")},Q:{hx("X-Y.Z_1")}:{hx("w")}', f'W:0:{hx("v")},w:0', f'W:2:{hx("v")}', f'Q:{hx("a")}:{hx("1")},W:2:{hx("v")}', 'w:2',
                    f'Q:{hx("arch")}:{hx("1")},Q:{hx("distro")}:{hx("2")},Q:{hx("os")}:{hx("3")},Q:{hx("vcs_url")}:{hx("4")},q:{hx("arch")}',
                    f'Q:{hx("a")}:{hx("1")},Q:{hx("b")}:{hx("2")},Q:{hx("c")}:{hx("3")},Q:{hx("d")}:{hx("4")},Q:{hx("e")}:{hx("5")},E:{hx("b")}',
                    f'Q:{hx("arch")}:{hx("1")},R:{hx("u")},Q:{hx("tag")}:{hx("3")},Q:{hx("variant")}:{hx("4")},r,Q:{hx("arch")}:-']:
            yield f'B {kind} {t1} {hx("n")} {seq}'
        for t in tyv:
            for nm in ['', 'n', 'A_.b', 'Æ']:
                yield f'B {kind} {t} {hx(nm)} S:{hx("g")}'
                yield f'B {kind} {t} {hx(nm)} -'
    for _ in range(nrand):
        kind = rng.choice(kinds)
        ops, tyv = builder_ops(kind)
        seq = [rng.choice(ops) for _ in range(rng.randint(2, 8))]
        if rng.random() < 0.5:
            # arbitrary strings as well
            seq += [f'{rng.choice("NSVU")}:{hx(rstr(rng, 0, 6))}', f'Q:{hx(rcase(rng, rkey(rng)))}:{hx(rstr(rng, 0, 5))}']
            rng.shuffle(seq)
        yield f'B {kind} {rng.choice(tyv)} {hx(rng.choice(["n", "", "N-_.m", rstr(rng, 0, 4)]))} {",".join(seq)}'

# ------------------------------------------------------------------ G-qops
QK = [' d', 'd ', ' D', 'A_b', 'File_Name', 'file_name', 'A!', 'Key name', 'aB\x00', 'Zé', 'X=y', 'chec\u212asum', 'vc\u017f_url', 'repo\u017fitory_url', 'cla\u00dfifier', 'cla\u017f\u017fifier', 'f\u0131le_name', 'TYPE', 'Checksum', '3rd-party', '7', '0a', '2FA', 'a/b', 'k/', '/', 'k,', 'k:', 'k@', 'k[', 'k^', 'k`', 'k{', 'k', 'key', '\u212a', '\u212aey', 'a', 'A', 'b', 'B', 'a.b', 'a_b', 'ab', '', '!', 'repository_url', 'checksum', 'é', 'K', 'buildtag', 'BuildTag', 'x-y.z_1', 'vcs_url', 'Type', 'download_url', 'file_name', 'platform', 'classifier']
QV = ['', 'x', 'y']
def qop_universe():
    ops = ['C', 't', 'l', 'tg', 'tc', 'td', 'tG', f'M:{hx("s")}', f'I:{hx("s")}', f'J:{hx("z")}', f'tr:{hx("u")}', f'tr:-']
    for k in QK:
        ops += [f'r:{hx(k)}', f'g:{hx(k)}', f'c:{hx(k)}', f'x:{hx(k)}', f'T:{hx(k)}', f'er:{hx(k)}', f'eR:{hx(k)}', f'ke:{hx(k)}',
                f'eG:{hx(k)}:{hx("+")}']
        for v in QV:
            ops += [f'i:{hx(k)}:{hx(v)}', f'm:{hx(k)}:{hx(v)}', f'X:{hx(k)}:{hx(v)}', f'eo:{hx(k)}:{hx(v)}', f'ew:{hx(k)}:{hx(v)}',
                    f'ei:{hx(k)}:{hx(v)}', f'em:{hx(k)}:{hx("+")}:{hx(v)}', f'eC:{hx(k)}:{hx(v)}']
    ops += [f'tC:{c}' for c in CSOPS[:6]]
    for i in range(3):
        ops += [f'tu:{i}:{hx("t" + str(i))}', f'tug:{i}', f'tud:{i}']
    ops += ['wc:8', 'wc:0', 're:0', 're:1', 're:2', 're:5', 'rv:0', 'rv:1', 'rv:3']
    for i in range(7):
        ops += [f'tk:{i}:{hx("v" + str(i))}', f'tk:{i}:-', f'tkg:{i}', f'tkd:{i}']
    return ops
def gen_qops(rng, nrand):
    ops = qop_universe()
    # every reachable content over {a, b, a.b} x {absent, '', x, y} x every operation
    keys = ['a', 'b', 'a.b']
    for combo in itertools.product([None, '', 'x', 'y'], repeat=3):
        prefix = [f'i:{hx(rk)}:{hx(v)}' for k, v in zip(keys, combo) if v is not None for rk in [k.upper() if v == 'y' else k]]
        prefix.reverse()
        for o in ops:
            yield 'Q ' + ','.join(prefix + [o, 'l'])
    for o1 in ops:
        for o2 in ops[::3]:
            yield f'Q {o1},{o2}'
    for _ in range(nrand):
        seq = []
        for _ in range(rng.randint(3, 25)):
            if rng.random() < 0.7:
                seq.append(rng.choice(ops))
            else:
                k = rcase(rng, rkey(rng)) if rng.random() < 0.8 else rstr(rng, 0, 3)
                v = rstr(rng, 0, 4)
                seq.append(rng.choice([f'i:{hx(k)}:{hx(v)}', f'r:{hx(k)}', f'g:{hx(k)}', f'eo:{hx(k)}:{hx(v)}', f'ei:{hx(k)}:{hx(v)}', f'T:{hx(k)}', f'ke:{hx(k)}']))
        yield 'Q ' + ','.join(seq)
    # try_from_iter
    for _ in range(max(200, nrand // 4)):
        ps = []
        for _ in range(rng.randint(0, 5)):
            k = rng.choice(QK) if rng.random() < 0.6 else rcase(rng, rkey(rng))
            ps.append(f'{hx(k)}={hx(rng.choice(QV + ["v w"]))}')
        yield 'F ' + (','.join(ps) or '-')

# ------------------------------------------------------------------ G-cs
CALGS = ['sha-256', 'sha256', 'sha-1', 'sha_1', 'SHA-512', 'md-6', 'sha224', 'sha384', 'md%35', 'MD%35', 'sha#1', 'my hash&v=2', 'é%+', 'sha3', 'sha3-256', 'sha', 'md5.alt', 'Éℂ', 'Ωϒ', 'Д𝐀', 'ℂ', 'aℂ', 'İ', 'éSHA', 'ésha', 'éA', 'éa', 'SHÄ', 'shä', 'GOST-Ё', 'gost-ё', 'sha1', 'SHA1', 'Sha1', 'md5', 'MD5', 'ǅ', 'ǆ', 'Ǆ', 'a:b', '', 'é', 'É', 'b2', 'K', 'a b', 'ΑΣ', 'ασ', 'ας', 'sha512', 'sha512-256', 'sha512.1', 'urn:sha256']
def gen_cs(rng, n):
    for c in CSOPS: yield f'C {c}'
    for _ in range(n):
        ops = []
        for _ in range(rng.randint(0, 6)):
            a = rng.choice(CALGS)
            r = rng.random()
            if r < 0.55: ops.append(f'i.{hx(a)}.{bytes(rng.randrange(256) for _ in range(rng.choice([0, 1, 2, 3]))).hex() or "-"}')
            elif r < 0.8: ops.append(f'w.{hx(a)}.{hx(rng.choice(["", "00", "AB", "ab", "0", "zz", "0g", "A0b1", "é"]))}')
            else: ops.append(f'r.{hx(a)}')
        yield 'C ' + ('+'.join(ops) or '-')
    texts = ['', 'sha1:00', 'SHA1:AB,md5:0c', 'sha1', 'sha1:0', 'sha1:0g', 'a:00,A:11', 'a:b:00', ':00', 'a:', 'a:,b:', 'ǅ:00,ǆ:11', 'b:00,a:ff', 'a:00,', ',',
             'é:0A', 'a :00', 'K:00,k:11', 'a:00,b:1', 'x:ÀÀ']
    for t in texts: yield f'c {hx(t)}'
    for _ in range(n // 2):
        ents = []
        for _ in range(rng.randint(1, 4)):
            a = rng.choice(CALGS + ['x', 'y', 'z'])
            hexs = rcase(rng, bytes(rng.randrange(256) for _ in range(rng.choice([0, 1, 2]))).hex())
            if rng.random() < 0.1: hexs += rng.choice(['0', 'g', ' '])
            ents.append(f'{a}:{hexs}' if rng.random() < 0.95 else a)
        yield f'c {hx(",".join(ents))}'

# ------------------------------------------------------------------ G-pt
def gen_pt(rng, n, maxlen=3):
    for name in SEVEN:
        for bits in itertools.product([0, 1], repeat=len(name)):
            yield 'T ' + hx(''.join(c.upper() if b else c for c, b in zip(name, bits)))
    letters = sorted(set(''.join(SEVEN))) + ['ſ', 'K', 'ı', 'İ', 'ｇ', 'ｅ', 'ｍ', 'G', 'M', 'ß']
    for k in range(0, maxlen + 1):
        for w in itertools.product(letters, repeat=k):
            yield 'T ' + hx(''.join(w))
    edits = list("abcegilmnoprtuvyskx2.+0") + ['00', '+0', 'ſ', 'K', 'ı', 'İ', ' ', '-', '́', 'ｍ'] + EXTRA['chars']
    for name in SEVEN:
        for suf in ['ci', '.org', 'xx', name, ' x', '\t', '\n'] + EXTRA['strs']:
            yield 'T ' + hx(name + suf); yield 'T ' + hx(name.upper() + suf); yield 'T ' + hx(suf + name)
        for ln in EXTRA['nums']:
            yield 'T ' + hx(name[:ln]); yield 'T ' + hx((name * 3)[:ln]); yield 'T ' + hx((name * 3)[:ln + 1]); yield 'T ' + hx(name + 'x' * max(0, ln + 1 - len(name)))
    for name in SEVEN:
        for k in range(1, 26):
            yield 'T ' + hx(name + 'a' * k); yield 'T ' + hx(name + '-' + 'p' * (k - 1)); yield 'T ' + hx(name + ' ' * k)
        for c0 in "#'\x03\r.-+0123456789@[`{":
            yield 'T ' + hx(c0 + name[1:]); yield 'T ' + hx(c0 + name[1:].upper())
    for name in SEVEN + [x for x in EXTRA['strs'] if x.isalpha()]:
        for v in ['pkg:' + name, 'pkg:' + name + '/', 'pkg:/' + name, 'pkg://' + name + '//', 'pkg:' + name.upper(), name + '/', '/' + name, name + ':']:
            yield 'T ' + hx(v)
        for a, b in (('s', 'ſ'), ('k', '\u212a'), ('ss', 'ß'), ('i', 'ı'), ('S', 'ſ'), ('K', '\u212a')):
            if a in name: yield 'T ' + hx(name.replace(a, b, 1)); yield 'T ' + hx(name.upper().replace(a.upper(), b, 1))
    for c in ['ｃａｒｇｏ', 'ｎpm', 'pypｉ', 'ţargo', 'nuŧet', 'gｅm', 'ɡem', 'ｍaven', 'сargo', 'nρm']: yield 'T ' + hx(c)
    for name in SEVEN:
        for i in range(len(name) + 1):
            for e in edits:
                yield 'T ' + hx(name[:i] + e + name[i:])
                if i < len(name):
                    yield 'T ' + hx(name[:i] + e + name[i + 1:])
            if i < len(name):
                yield 'T ' + hx(name[:i] + name[i + 1:])
    for t in OTHER_TYPES: yield 'T ' + hx(t)
    for _ in range(n):
        yield 'T ' + hx(rstr(rng, 0, 8))
def gen_comb_purl(rng, n):
    for ty in SEVEN:
        for q in ['repository_url=https://r.x/v2', 'type=jar', 'vcs_url=git%2Bhttps://e.x']:
            for nm in ['g/Name', 'Name', '%40Sc/MyLib']:
                yield f'M {hx("pkg:" + ty + "/" + nm + "@1?" + q)}'
    for s in ['pkg:golang/google.golang.org/genproto#googleapis/api/annotations', 'pkg:golang/a/b@v1?x=y#s/t', 'pkg:npm/%40s/n@1#lib', 'pkg:maven/g.i/a@1?type=pom#x', 'pkg:cargo/n#s', 'pkg:pypi/A_b#s/t', 'pkg:nuget/N@1#x', 'pkg:gem/g?platform=java#lib']:
        yield f'M {hx(s)}'
    for _ in range(n):
        t = random_tuple(rng, typed=True)
        if t['ty'] not in SEVEN: t['ty'] = rng.choice(SEVEN)
        yield f'M {hx(spelling_of(rng, t))}'
def gen_comb(rng, n):
    parts = [x for x in EXTRA['strs'] if len(x) < 40] + [x + 'n' for x in EXTRA['strs'] if len(x) < 40] + ['', 'a', 'B', 'a/b', 'a/b/c', '/', 'a/', '/a', ':', 'a:b', 'a:b:c', 'g:a/b', 'a/b:c', ':a', 'a:', 'é/ü:x', '@s/p', 'a//b', 'A_.b', 'Æ/ǅ', 'a/:b', 'a//b:c:d', '/a:b', 'org.example/:lib', 'node_modules/left-pad', '@acme/node_modules/cli', 'g::a', 'g:::', 'org.example::core', 'a/b/', '@angular/', 'x/', 'a/b/v2', 'mod/v2', 'a/v10', 'v2', 'a/V2', 'a/v', 'a/v2x', 'x/y/z/v3', 'angular/cli', 'a.b/c.d:e.f']
    for i in range(7):
        for s in parts: yield f'N {i} {hx(s)}'
    for _ in range(n):
        s = ''.join(rng.choice(['/', ':', 'a', 'B', '.', '_', '-', 'é', '@', ' ', '%2F', 'v2', 'v'] + EXTRA['chars'][:4]) for _ in range(rng.randint(0, 7)))
        yield f'N {rng.randrange(7)} {hx(s)}'
    for s in ['Contoso.Élan', 'MyÉlan', 'AÆ', 'aÉ/Bé', 'Requests[Security]', '[x]', 'a[b', 'acme/widget', 'a/b/c/d', '@scope/pkg/dist']:
        for i in range(7): yield f'N {i} {hx(s)}'

# ------------------------------------------------------------------ G-pair
def gen_pair(rng, n, kinds=('g', 't', 's', 'b', 'o')):
    fixed = [('pkg:t/n?k=a%26l%3Dc', 'pkg:t/n?k=a&l=c'), ('pkg:t/a/b', 'pkg:t/a%2Fb'), ('pkg:t/n@1', 'pkg:t/n%401'), ('pkg:t/a/n', 'pkg:t/A/n'),
             ('pkg:t/n?a=1&b=2', 'pkg:t/n?B=2&A=1'), ('pkg:t/n#a/b', 'pkg:t/n#a%2Fb'), ('pkg:t/n?a_b=1&ab=2', 'pkg:t/n?ab=2&a_b=1'),
             ('pkg:t/n?k=v#s', 'pkg:t/n?k=v%23s'), ('pkg:t/n@v?k=1', 'pkg:t/n@v%3Fk=1'), ('pkg:T/n', 'pkg:t/n'), ('pkg:t/n', 'pkg:t/N')]
    for a, b in fixed:
        for k in ('g', 's'): yield f'K P {k} {hx(a)} ~ P {k} {hx(b)}'
    for t1, t2 in [('Npm', 'npm'), ('NPM', 'npm'), ('nPm', 'Npm'), ('T.y+P', 't.y+p'), ('a', 'A')]:
        for k in 'gsbo':
            for k2 in ('bo' if k in 'bo' else k):
                yield f'K B {k} {hx(t1)} {hx("n")} - ~ B {k2} {hx(t2)} {hx("n")} -'
                yield f'K B {k} {hx(t1)} {hx("n")} V:{hx("1")} ~ B {k2} {hx(t2)} {hx("n")} V:{hx("1")}'
    for k, ty in (('g', hx('t')), ('s', hx('t')), ('b', hx('t')), ('o', hx('t')), ('t', '4'), ('t', '0')):
        for ops1, ops2 in [(f'Q:{hx("arch")}:-', '-'), (f'Q:{hx("a")}:{hx("1")},Q:{hx("a")}:-', '-'), (f'Q:{hx("a")}:{hx("1")},Q:{hx("b")}:-', f'Q:{hx("a")}:{hx("1")}'),
                           (f'R:-', '-'), (f'Q:{hx("a")}:{hx("1")}', f'Q:{hx("a")}:{hx("1")},Q:{hx("b")}:{hx("2")}'), ('-', f'Q:{hx("a")}:{hx("1")}'),
                           (f'Q:{hx("a")}:{hx("1")},U:{hx("zzz")}', f'Q:{hx("a")}:{hx("1")},Q:{hx("b")}:{hx("2")},U:{hx("aaa")}'),
                           (f'D:{hx("arch")}:-', '-'), (f'D:{hx("a")}:{hx("1")},D:{hx("b")}:-', f'D:{hx("a")}:{hx("1")}')]:
            yield f'K B {k} {ty} {hx("n")} {ops1} ~ B {k} {ty} {hx("n")} {ops2}'
    # a qualifier whose value is a literal of a changed source line (a default the code may now treat specially) against its absence
    for u in (EXTRA['strs'] + ['https://registry.npmjs.org', 'https://crates.io/', 'jar', 'https://pypi.org', 'https://repo.maven.apache.org/maven2'])[:16]:
        for key in ['repository_url', 'type', 'download_url']:
            for i, tyn in enumerate(SEVEN):
                yield f'K B t {i} {hx("n")} S:{hx("g")},Q:{hx(key)}:{hx(u)} ~ B t {i} {hx("n")} S:{hx("g")}'
                yield f'K B g {hx(tyn)} {hx("n")} Q:{hx(key)}:{hx(u)} ~ B g {hx(tyn)} {hx("n")} -'
    # values that are "the same" under some other notion of equality (numbers, case, white space, separators)
    for x, y in [('1.01', '1.1'), ('2024.07.04', '2024.7.4'), ('24.04', '24.4'), ('2', '10'), ('10', '1a'), ('1a', '2'), ('+1', '1'), ('1.0', '1.00'), ('1.10.0', '1.9.0'),
                 ('A', 'a'), ('a ', 'a'), ('a-b', 'a_b'), ('a.b', 'a-b'), ('v1', '1'), ('1.0', '1.0.0'), ('é', 'e\u0301')]:
        for f in ['V', 'N', 'S', 'U', 'Q']:
            for k, ty in (('g', hx('t')), ('s', hx('t')), ('o', hx('t')), ('t', '0'), ('t', '6')):
                mk = lambda v: (f'B {k} {ty} {hx(v)} -' if f == 'N' else f'B {k} {ty} {hx("n")} ' + (f'Q:{hx("k")}:{hx(v)}' if f == 'Q' else f'{f}:{hx(v)}'))
                yield f'K {mk(x)} ~ {mk(y)}'
    for x, y in [('a\x020b', 'a b'), ('git\x040x', 'git@x'), ('a\tb', 'a%9b'), ('@acme', '%40acme'), ('my org', 'my%20org'), ('a%', 'a%25'), ('a/b', 'a%2Fb'), ('é', '%C3%A9'), ('a b', 'a+b')]:
        for f in ['S', 'N', 'V', 'U', 'Q']:
            for k, ty in (('g', hx('t')), ('s', hx('t')), ('b', hx('t')), ('t', '4')):
                mk = lambda v: (f'B {k} {ty} {hx(v)} -' if f == 'N' else f'B {k} {ty} {hx("n")} ' + (f'Q:{hx("k")}:{hx(v)}' if f == 'Q' else f'{f}:{hx(v)}'))
                yield f'K {mk(x)} ~ {mk(y)}'
    for x, y in [('édition', 'Édition'), ('k', '\u212a'), ('ärch', 'Ärch'), ('arch', 'ARCH'), ('a.b', 'A.B'), ('ß', 'SS'), ('ǆ', 'ǅ'), ('σ', 'Σ'), ('a_b', 'a-b'), ('١', '1')]:
        for k, ty in (('g', hx('t')), ('s', hx('t')), ('o', hx('t')), ('t', '4')):
            yield f'K B {k} {ty} {hx("n")} Q:{hx(x)}:{hx("1")} ~ B {k} {ty} {hx("n")} Q:{hx(y)}:{hx("1")}'
            yield f'K B {k} {ty} {hx("n")} Q:{hx(y)}:{hx("1")} ~ B {k} {ty} {hx("n")} Q:{hx(x)}:{hx("1")}'
    for a, b in [('pkg:t/n@1.0', 'pkg:t/n@1.0?a=1'), ('pkg:t/n?a=1#zzz', 'pkg:t/n?a=1&b=2#aaa'), ('pkg:t/n?arch=i386', 'pkg:t/n?arch=i386&distro=j'), ('pkg:npm/n?a=1', 'pkg:npm/n?a=1&b=2')]:
        for k in ('g', 's', 't'):
            if k == 't' and ':t/' in a: continue
            yield f'K P {k} {hx(a)} ~ P {k} {hx(b)}'
    for x in ['/', '//', '///', 'a/', '/a', 'a//b', '.', '..', './a', 'a/..']:
        for y in ['', 'a', 'a/b', '/']:
            for f in 'SU':
                for k, ty in (('g', hx('t')), ('s', hx('t')), ('b', hx('t')), ('o', hx('t')), ('t', '4'), ('t', '3')):
                    l = f'B {k} {ty} {hx("n")} {f}:{hx(x)}'
                    r = f'B {k} {ty} {hx("n")} {f}:{hx(y)}' if y else f'B {k} {ty} {hx("n")} -'
                    yield f'K {l} ~ {r}'
                    yield f'K {l} ~ P {k if k in "gst" else "g"} {hx("pkg:" + ("t" if k != "t" else ("npm" if ty == "4" else "maven")) + "/n")}' if k in 'gst' else f'K {l} ~ {l}'
    for _ in range(n):
        kind = rng.choice(kinds)
        pk = kind if kind in ('g', 's', 't') else 'g'
        t = random_tuple(rng, typed=(kind == 't'))
        if kind == 't' and t['ty'] not in SEVEN: t['ty'] = 'npm'
        mode = rng.choice(['same', 'change', 'move', 'build'])
        def pcase(tt): return f'P {pk} {hx(spelling_of(rng, tt))}'
        def bcase(tt, kd):
            ty = str(SEVEN.index(tt['ty'])) if kd == 't' else hx(tt['ty'])
            ops = [f'S:{hx("/".join(tt["ns"]))}', f'V:{hx(tt["ver"])}', f'U:{hx("/".join(tt["sub"]))}'] + [f'Q:{hx(k)}:{hx(v)}' for k, v in tt['quals'].items()]
            rng.shuffle(ops)
            return f'B {kd} {ty} {hx(tt["name"])} {",".join(ops)}'
        if kind in ('b', 'o'):
            u = json.loads(json.dumps({k: v for k, v in t.items() if k != 'cs'})); u['cs'] = None
            if rng.random() < 0.5 and u['name']: u['name'] = u['name'][:-1] + rng.choice('ab/@')
            yield f'K {bcase(t, kind)} ~ {bcase(u, rng.choice("bo"))}'
            continue
        if mode == 'same':
            yield f'K {pcase(t)} ~ {pcase(t)}'
        elif mode == 'build':
            yield f'K {pcase(t)} ~ {bcase(t, pk)}'
        else:
            u = {k: (list(v) if isinstance(v, list) else dict(v) if isinstance(v, dict) else v) for k, v in t.items()}
            if mode == 'change':
                f = rng.choice(['name', 'ver', 'ns', 'sub', 'q'])
                if f == 'name': u['name'] = t['name'][:-1] + rng.choice('abAB/@?#')
                elif f == 'ver': u['ver'] = (t['ver'] + rng.choice('ab @')) if rng.random() < 0.7 else ''
                elif f == 'ns': u['ns'] = t['ns'] + ['x'] if rng.random() < 0.5 else t['ns'][:-1]
                elif f == 'sub': u['sub'] = t['sub'] + ['x'] if rng.random() < 0.5 else t['sub'][:-1]
                else:
                    u['cs'] = None; t = dict(t); t['cs'] = None
                    base = {k: v for k, v in t['quals'].items() if k != 'checksum'}
                    t['quals'] = dict(base); u['quals'] = dict(base)
                    k0 = rkey(rng); v0 = rng.choice(['a&b=c', 'x', 'a=b', 'i386'])
                    r = rng.random()
                    if r < 0.3:   # one key a proper prefix of the other
                        t['quals'][k0] = v0; u['quals'][k0 + rng.choice(['x', '_y', '.z', '0', 'itecture'])] = v0
                    elif r < 0.5:  # one value a proper prefix of the other
                        t['quals'][k0] = v0; u['quals'][k0] = v0 + rng.choice(['x', ' ', '&'])
                    elif r < 0.7:  # same keys, neighbouring order positions
                        t['quals'][k0 + '_b'] = '1'; t['quals'][k0 + 'b'] = '2'; u['quals'][k0 + '_b'] = '2'; u['quals'][k0 + 'b'] = '1'
                    else:
                        u['quals'][k0] = v0
            else:
                # move a separator between neighbouring fields
                f = rng.choice(['ns-name', 'name-ver', 'q-split', 'ver-q'])
                if f == 'ns-name' and t['ns']:
                    u['ns'] = t['ns'][:-1]; u['name'] = t['ns'][-1] + '/' + t['name']
                elif f == 'name-ver' and t['ver']:
                    u['name'] = t['name'] + '@' + t['ver']; u['ver'] = ''
                elif f == 'q-split':
                    u['cs'] = None; u['quals'] = {'k': 'a&l=c'}; t = dict(t); t['cs'] = None; t['quals'] = {'k': 'a', 'l': 'c'}
                else:
                    u['cs'] = None; u['quals'] = {}; u['ver'] = t['ver'] + '?' + '&'.join(f'{k}={v}' for k, v in t['quals'].items() if k != 'checksum')
            yield f'K {pcase(t)} ~ {pcase(u)}'

# ------------------------------------------------------------------ G-shape
HOOKS = ['o', 'eo', 'eb', 'be', 'ee', 'ebq', 'S', 'U', 'SU', 'sS', 'fn', 'nf', 'Sn', 'b', 'cb', 'bc', 'mb', 'x', 'qx', 'xq', 'k', 'f', 'n', 's', 'v', 'V', 'u', 'e', 'q', 'm', 'c', 'N', 't', 'nN', 'Nn', 'mc', 'cm', 'se', 'qf', 'fq', 'Vv', 'vV', 'nq', 'eq', 'sVuqc', 'tt', 'ne', 'mn', 'nm']
FAM_INPUTS = ['pkg:custom/n?checksum=SH%C3%841:00,sha1:11', 'pkg:custom/n?checksum=%C3%86A:00', 'pkg:other/%80', 'pkg:other/n@1%ff', 'pkg:other/a%2Fb/n', 'pkg:custom/n?checksum=B:00,a:FF', 'PKG:Custom/n', 'Pkg:custom/n@1?k=v#s', 'pkg:custom/n?k=%20', 'pkg:custom/n?checksum=%20', 'pkg:café/n', 'pkg:py٣/n', 'pkg:\u212a8s/n', 'pkg:Custom/n', 'pkg:7custom/n', 'pkg:custom/n?checksum=', 'pkg:custom/n?x=', 'pkg:custom/n?checksum=SHA1:AB', 'pkg:custom/n', 'pkg:CuStOm/N@1?k=v#s', 'pkg:other/a/b/n', 'pkg:custom', 'pkg:cus%74om/n', 'pkg:cu stom/n', 'pkg:/custom/n', 'pkg:custom/',
              'pkg:custom/n?zz=&checksum=A:00', 'pkg:custom/n?checksum=bad', 'pkg:custom/n?=x', 'pkg:custom/%80', 'pkg:custom/n#%2e', 'x:custom/n', 'pkg:',
              'pkg:custom/n@%FF', 'pkg:custom/a%2Fb/n', 'pkg:Custom2/n', 'pkg:custom/n?Hk=old&ZZ=1']
def gen_shape(rng, n):
    for c in 'AFC':
        for r in 'LRX':
            for hk in HOOKS:
                fam = c + r + hk
                for s in FAM_INPUTS: yield f'H {fam} P {hx(s)}'
                for ty in ['custom', 'Cu', 'a b', '']:
                    yield f'H {fam} B {hx(ty)} {hx("n")} -'
                    yield f'H {fam} B {hx(ty)} {hx("")} Q:{hx("Hk")}:{hx("o")},S:{hx("x")}'
                    yield f'H {fam} B {hx(ty)} {hx("n")} Q:{hx("!")}:{hx("o")}'
    for c in list(range(128)) + [0xe9, 0xc9, 0x663, 0x212a, 0x4e2d]:
        for s in ['pkg:cu' + chr(c) + 'stom/n', 'pkg:' + chr(c) + 'custom/n', 'pkg:custom' + chr(c) + '/n']:
            yield f'H ALk P {hx(s)}'
            yield f'H CRq P {hx(s)}'
    for _ in range(n):
        fam = rng.choice('AFC') + rng.choice('LLRX') + ''.join(rng.choice('kfnsvVueqmcNtbx') for _ in range(rng.randint(1, 4)))
        t = random_tuple(rng); t['ty'] = rng.choice(['custom', 'CUSTOM', 'x'])
        yield f'H {fam} P {hx(spelling_of(rng, t))}'

# ------------------------------------------------------------------ serde
def gen_serde(rng, n):
    for v in ['1', 'true', 'null', '[]', '["pkg:t/n"]', '{}', '{"purl":"pkg:t/n"}', '1.5', '-0', '"', '""', '[1,2']:
        for k in 'gt': yield f'J {k} {hx(v)}'
    for s in corpus_strings():
        for k in 'gt': yield f'J {k} {hx(json.dumps(s, ensure_ascii=(rng.random() < 0.5)))}'
    for s in corpus_strings()[:40] + ['pkg:npm/say"hi"@1.0', 'pkg:npm/a\tb', 'pkg:cargo/name@1.0\\beta', 'pkg:npm/%40angular/cli', 'pkg:npm/@angular%2Fcli@1.0#rc?', 'pkg:npm/a%41']:
        for v in [' ' + s, s + ' ', s + '\n', '\t' + s, s + '\u00a0', s.upper()]:
            for k in 'gt': yield f'J {k} {hx(json.dumps(v))}'
        esc_solidus = json.dumps(s).replace('/', chr(92) + '/')                      # escaped solidus: a transient string for the visitor
        esc_u = json.dumps(s, ensure_ascii=True).replace('p', chr(92) + 'u0070', 1)  # a unicode escape
        for k in 'gt':
            yield f'J {k} {hx(esc_solidus)}'
            yield f'J {k} {hx(esc_u)}'
            yield f'J {k} {hx("[" + json.dumps(s) + "]")}'
            yield f'J {k} {hx(json.dumps({"purl": s}))}'
    for _ in range(n):
        k = rng.choice('gt')
        t = random_tuple(rng, typed=(k == 't'))
        yield f'J {k} {hx(json.dumps(spelling_of(rng, t), ensure_ascii=(rng.random() < 0.5)))}'
    for n0 in sorted(set(LENGTHS + [x for x in EXTRA['nums'] if 2 <= x <= 8192])):
        for m in (n0 - 1, n0, n0 + 1):
            base = 'pkg:npm/g/n?download_url=https://e.x/'
            if m > len(base):
                for k in 'gt': yield f'J {k} {hx(json.dumps(base + "a" * (m - len(base))))}'
    for s in ['pkg:type%2Fname', 'pkg%3Atype/name', 'pkg:type/a%2fb/name', 'pkg:type/name?key%3Dvalue', 'pkg:npm%2Flodash@4.17.21', 'pkg:pkg:type/name', 'pkg:pkg:npm/%40angular/cli@1.0.0', 'pkg:pkg:pkg:t/n@1?k=v#s', 'pkg:pkg://t/n', 'pkg:pkg/name', 'pkg:t/pkg:n', 'pkg:pypi/Django_REST.framework@3.14', 'pkg:nuget/Newtonsoft.Json@13.0.1', 'pkg:maven/commons-io@2.11', 'pkg:PyPI/Foo__Bar', 'pkg:nuget/\u0130', 'pkg:NuGet/A\u00c9']:
        for k in 'gt': yield f'J {k} {hx(json.dumps(s))}'
