#!/usr/bin/env python3
"""consts.json (tools/extract_consts.py) + probe.txt (vharness probe) -> coq/gen/Consts.v.
The escape sets and the type/key character sets are finite and fully observable, so the values
read from the source are cross-checked against an exhaustive probe of the running crate; on any
difference (or an unrecognised source form) the probed value is used and a warning is recorded.
Variation points (closed list of recognised source forms) fall back to the repaired-tree form;
the correspondence check then decides whether the model still describes the code."""
import json, sys
d = json.load(open(sys.argv[1])); probe_txt = open(sys.argv[2]).read(); out = sys.argv[3]
problems = [dict(what=p, affects=[]) for p in d.get('problems', [])]
def warn(what, affects=()): problems.append(dict(what=what, affects=list(affects)))
probe = {}
for l in probe_txt.splitlines():
    f = l.split(' ')
    if f[0] == 'set': probe['set_' + f[1]] = [int(x) for x in f[2].split(',') if x]
    elif f[0] in ('typechars', 'keychars'): probe[f[0]] = [int(x) for x in f[1].split(',') if x]
    elif f[0] == 'ptype': probe.setdefault('ptypes', []).append((f[1], f[2]))
def bl(xs): return '[' + '; '.join(f'nb {x}' for x in xs) + ']'
use = d.get('use', {}); sets = d.get('sets', {})
def src_set(comp):
    names = use.get(comp)
    if not names or len(names) != 1 or names[0] not in sets: return None
    return sets[names[0]]['members']
def pick(comp, pos, default_name):
    s = src_set(comp); p = probe.get('set_' + pos)
    if s is None:
        warn(f'escape set for {comp} not recognised in format.rs')
        s = p if p is not None else sets.get(default_name, {}).get('members', [])
    elif p is not None and s != p:
        warn(f'escape set for {comp}: source says {sorted(set(s) ^ set(p))} differently from the running crate; using the probed set')
        s = p
    return s
s_ns = pick('namespace', 'ns', 'PURL_PATH'); s_name = pick('name', 'name', 'PURL_PATH_SEGMENT'); s_ver = pick('version', 'ver', 'PURL_PATH')
s_q = pick('v', 'qval', 'PURL_QUERY'); s_sub = pick('subpath', 'sub', 'PURL_FRAGMENT')
if s_ns != s_ver: warn('namespace and version use different escape sets; the model has one set for both (namespace set used)')
if src_set('k') is not None and src_set('k') != src_set('v'): warn('qualifier keys and values use different escape sets; the model has one set for both')
ALNUM = set(range(48, 58)) | set(range(65, 91)) | set(range(97, 123))
def special(key, probe_key):
    s = d.get(key); p = probe.get(probe_key)
    ps = sorted(set(p) - ALNUM) if p is not None else None
    if s is None:
        warn(f'{key} not recognised'); return ps or []
    if ps is not None and sorted(s) != ps:
        warn(f'{key}: source {s} but the running crate allows {ps}; using the probed list'); return ps
    if p is not None and not ALNUM <= set(p):
        warn(f'{key}: not every ASCII letter/digit is allowed by the running crate', ['*'])
    return s
tsp = special('type_special', 'typechars'); ksp = special('key_special', 'keychars')
dash = d.get('dash_chars')
if dash is None: warn('DASH_CHARACTERS not recognised'); dash = [45, 95, 46]
exp_names = [('Cargo', 'cargo'), ('Gem', 'gem'), ('Golang', 'golang'), ('Maven', 'maven'), ('Npm', 'npm'), ('NuGet', 'nuget'), ('PyPI', 'pypi')]
if [tuple(x) for x in d.get('name', [])] != exp_names: warn(f"PackageType::name() table differs from the model's: {d.get('name')}", ['C15', 'C08'])
if sorted((v, k) for k, v in map(tuple, d.get('phf', []))) != sorted(exp_names): warn(f"PACKAGE_TYPES table differs from the model's: {d.get('phf')}", ['C15', 'C08'])
if probe.get('ptypes') and probe['ptypes'] != exp_names: warn(f"running crate reports other type names: {probe.get('ptypes')}", ['C15', 'C08'])
def flag(key, true_val, false_val, default='true'):
    v = d.get(key)
    if v == true_val: return 'true'
    if v == false_val: return 'false'
    warn(f'variation point {key} not recognised ({v}); the model uses the default form'); return default
scan_ip = flag('scan_in_place', 'ScanLowerNe', 'ScanUpper'); scan_cp = flag('scan_copy', 'ScanLowerNe', 'ScanUpper')
if scan_ip != scan_cp: warn('the two lower-casing scans differ; the model has one form (that of lowercase_in_place)')
cap = flag('cap_form', 'CapSaturating', 'CapMinus1'); mv = flag('maven_ns', 'NsNoSegment', 'NsIsEmpty')
def direction(ch):
    hits = [m for (m, lit, c) in map(tuple, d.get('skeleton', [])) if c == ch and m in ('rsplit_once', 'split_once')]
    if len(hits) != 1:
        warn(f"split at {ch!r} not recognised: {hits}"); return 'true'
    return 'true' if hits[0] == 'rsplit_once' else 'false'
dsub, dq, dv = direction('#'), direction('?'), direction('@')
sk = [tuple(x) for x in d.get('skeleton', [])]
if sk[:2] != [('strip_prefix', 'pkg:', ''), ('trim_start_matches', '', '/')]: warn(f'scheme / leading-slash handling not recognised: {sk[:2]}')
if [m for (m, lit, c) in sk if c == '/' and m in ('rsplit_once', 'split_once')] != ['split_once', 'rsplit_once']: warn('type / namespace splits not recognised')
if d.get('visitor_methods') != ['visit_str'] or d.get('deserialize_call') != ['deserialize_str'] or [list(x) for x in d.get('serialize_call', [])] != [['collect_str', 'self']] \
        or d.get('visit_str_body') != 'GenericPurl::<T>::from_str(v).map_err(Error::custom)':
    warn(f"serde impls differ from the modelled ones (Serialize = collect_str(self); Deserialize = deserialize_str + a visitor with visit_str = from_str only): "
         f"visitor {d.get('visitor_methods')}, deserialize {d.get('deserialize_call')}, serialize {d.get('serialize_call')}, visit_str body {d.get('visit_str_body')!r}", ['C16'])
# the data types whose derived Eq / Hash / Ord the model transcribes (Exec.v: cmp_parts, cmp_g, cmp_t - lexicographic in declaration order; equality structural)
CMP = {'Eq', 'Hash', 'Ord', 'PartialEq', 'PartialOrd'}
EXP_SHAPES = {
    'PurlParts': (CMP, ['pub namespace: SmallString', 'pub name: SmallString', 'pub version: SmallString', 'pub qualifiers: Qualifiers', 'pub subpath: SmallString']),
    'GenericPurl': (CMP, ['package_type: T', 'parts: PurlParts']),
    'Qualifiers': (CMP, ['qualifiers: Vec<(QualifierKey, SmallString)>']),
    'PackageType': (CMP, ['Cargo', 'Gem', 'Golang', 'Maven', 'Npm', 'NuGet', 'PyPI']),
    'QualifierKey': ({'Eq', 'Hash', 'Ord'}, ['SmallString']),
}
sh = d.get('shapes') or {}
for name, (der, fields) in EXP_SHAPES.items():
    got = sh.get(name)
    if not got:
        warn(f'definition of {name} not recognised', ['C19', 'C11']); continue
    if set(got['derives']) & CMP != der:
        warn(f"{name}: derived comparison/hash traits are {sorted(set(got['derives']) & CMP)}, the model transcribes {sorted(der)} as derived (structural, lexicographic in declaration order)", ['C19', 'C11'])
    if got['fields'] != fields:
        warn(f"{name}: fields/variants {got['fields']} differ from the modelled {fields} (derived Eq/Hash/Ord depend on them and on their order)", ['C19', 'C11'])
if d.get('manual_impls') is not None and d.get('manual_impls') != ['PartialEq<S> for QualifierKey', 'PartialOrd<S> for QualifierKey']:
    warn(f"hand-written comparison/hash impls are {d.get('manual_impls')}; the model knows PartialEq<S> and PartialOrd<S> for QualifierKey only", ['C19', 'C11'])
hc = d.get('hook_calls')
if hc is not None and hc != {'finish_in_build': 1, 'finish_elsewhere': 0, 'from_str_in_parse': 1, 'build_calls_in_parse': 1}:
    warn(f"calls of the user hooks in the source are {hc}; the model has one finish() call in build(), one T::from_str and one build() call in the parser", ['C14'])
if 'search_form' in d and d.get('search_form') != 'self.qualifiers.binary_search_by(|(qk, _qv)| qk.partial_cmp(&key).unwrap())':
    # recorded only (affects nothing by itself): any search that returns the index / insertion point on a sorted list is the model's scan;
    # theorem C11_search_is_binary_search speaks about the binary_search_by form, the C11 correspondence decides for any other
    warn(f"Qualifiers::search is no longer the recognised binary_search_by call ({d.get('search_form')}); C11_search_is_binary_search describes the recorded form only", [])
if d.get('state_sites'):
    # the model is a pure function of its arguments; state that survives a call breaks the tie for everything anchored in that file
    import os as _os
    try:
        props = [json.loads(l) for l in open(_os.path.join(_os.path.dirname(_os.path.abspath(__file__)), '..', 'properties.jsonl'))]
    except Exception: props = []
    for f, text in d['state_sites']:
        aff = sorted(p['id'] for p in props if any(x.endswith('/' + f) or x.endswith(f) for x in (p.get('anchors') or {}).get('files', []))) or ['*']
        warn(f"{f}: state that survives a call ({text}); the model is a pure function of the arguments", aff)
if d.get('checksum_key') != ['checksum']: warn(f"Checksum::KEY is {d.get('checksum_key')}", ['C12', 'C04'])
exp_typed = ['RepositoryUrl', 'DownloadUrl', 'VcsUrl', 'FileName', 'Platform', 'Classifier', 'Type']
tk = d.get('typed_keys') or []
if [x[0] for x in tk] != exp_typed: warn(f'typed qualifier types differ from the expected list: {[x[0] for x in tk]}', ['C06'])
tkd = dict((a, b) for a, b in tk)
def_keys = dict(zip(exp_typed, ['repository_url', 'download_url', 'vcs_url', 'file_name', 'platform', 'classifier', 'type']))
typed = '; '.join(bl(list((tkd.get(n, def_keys[n])).encode())) for n in exp_typed)
src = f"""(* generated by tools/gen_consts_v.py from the current /repo/purl/src - do not edit *)
From Coq Require Import List NArith.
From PM Require Import Base Text Model Tables.
Import ListNotations.
Local Open Scope N_scope.
Definition src_cfg : config :=
  {{| set_path := {bl(s_ns)};
     set_seg := {bl(s_name)};
     set_query := {bl(s_q)};
     set_frag := {bl(s_sub)};
     type_special := {bl(tsp)}; key_special := {bl(ksp)}; dash_chars := {bl(dash)};
     lower_tbl := std_lower_tbl; upper_rng := std_upper_rng; fold_tbl := unicase_fold_tbl;
     scan_lower_ne := {scan_ip}; cap_saturating := {cap}; maven_ns_segments := {mv};
     dir_sub := {dsub}; dir_qual := {dq}; dir_ver := {dv};
     typed_keys := [{typed}] |}}.
"""
open(out, 'w').write(src)
json.dump({'problems': problems, 'source': {k: d.get(k) for k in ('scan_in_place', 'scan_copy', 'cap_form', 'maven_ns', 'type_special', 'key_special', 'dash_chars')},
           'sets': {k: v.get('line') for k, v in sets.items()}}, open(out + '.problems.json', 'w'))
