"""Per-property configuration of a check: generators per tier, the observable compared between
model and implementation (project), the pinned theorem names of coq/props/Cnn.v, evidence text."""
import gens, json, os, re, subprocess

def trip(line):      # the three components of a PURL-producing line, padded (a whole-case PANIC has only one)
    p = line.split(' ## ')
    return p + ['-'] * (3 - len(p)) if len(p) < 3 else p
def main(line):      # first component of a triple line
    return line.split(' ## ')[0]
def fields(show):    # 'O a|b|..' -> list, else None
    return show[2:].split('|') if show.startswith('O ') else None
def vals(show):     # the six component fields without the canonical string
    f = fields(show); return tuple(f[:6]) if f else show
def canon(show):
    f = fields(show); return f[6] if f else None
def is_parse(c): return c[0] in 'PSX'
def accepts_all(c): return True
def kind_of(c): return c.split(' ')[1] if c[0] in 'PSXB' else None

# ---- common streams
def tokk(tier, quick, thorough):
    return quick if tier == 'quick' else thorough
def parse_stream(tier, rng, kinds=('g', 't'), tok_q=None, tok_t=None, nspell=(20000, 300000), ncorpus=(3000, 60000), nfault=(0, 0)):
    q = tier == 'quick'
    yield from gens.gen_corpus(rng, ncorpus[0] if q else ncorpus[1], kinds)
    yield from gens.gen_slot(tuple(k for k in kinds if k in 'gt'))
    yield from gens.gen_tok(tok_q if q else tok_t, kinds)
    yield from gens.gen_spell(rng, nspell[0] if q else nspell[1], kinds)
    if nfault[0 if q else 1]:
        yield from gens.gen_fault(rng, nfault[0 if q else 1], kinds)
TOK_Q = {'head': 3, 'path': 3, 'qual': 3, 'sub': 3, 'seg': 4, 'typed': 3}
TOK_T = {'head': 4, 'path': 4, 'qual': 4, 'sub': 4, 'seg': 5, 'typed': 4}

PROPS = {}

# ------------------------------------------------------------------ C01
def c01_project(c, line, is_impl):
    # one direction: only what the implementation accepts matters; then main value and re-parse must agree
    if not hasattr(c01_project, 'acc'): c01_project.acc = {}
    p = line.split(' ## ')
    if is_impl:
        c01_project.acc[c] = p[0].startswith('O ')
        if not c01_project.acc[c]: return None
    return (p[0], p[1])
def impl_accepts(sel):
    """compare factory: the observable sel(parts of the triple) is compared for the cases that BOTH sides accept.  A case that only the
    implementation accepts is an acceptance mismatch: it is C05's (and C02's) to report; for this property the theorem does not transfer to that
    input and the executable oracle alone decides it (counted in the evidence as acceptance_mismatches)."""
    def cmp(c, a, m):
        pa = trip(a); pm = trip(m)
        acc = lambda p: (p[-1] if c.startswith('H ') else p[0]).startswith('O ')
        if not acc(pa): return 'skip'
        if not acc(pm): return 'mismatch'
        return sel(c, pa) == sel(c, pm)
    cmp.obs = lambda c, a: sel(c, trip(a)) if (a.split(' ## ')[-1] if c.startswith('H ') else a.split(' ## ')[0]).startswith('O ') else None
    return cmp
def on_same_value(sel):
    """compare factory for properties about a function applied to a PURL value (format: C03; into_builder().build(): C10): the function's result
    sel(parts of the triple) is compared only where model and crate hold the SAME value (the six components agree).  Where they hold different values the
    difference is C01/C02/C09's to report, the theorem about the function still applies to the crate's value, and the executable oracle decides the case."""
    def cmp(c, a, m):
        pa = trip(a); pm = trip(m)
        if not pa[0].startswith('O '): return 'skip'
        if not pm[0].startswith('O ') or vals(pa[0]) != vals(pm[0]): return 'mismatch'
        return sel(c, pa) == sel(c, pm)
    cmp.obs = lambda c, a: sel(c, trip(a)) if a.split(' ## ')[0].startswith('O ') else None
    return cmp
def from_project(proj):
    def cmp(c, a, m):
        oa = proj(c, a, True)
        if oa is None: return 'skip'
        return oa == proj(c, m, False)
    cmp.obs = lambda c, a: proj(c, a, True)
    return cmp
PROPS['C01'] = dict(
    theorems=['C01_generic_purl', 'C01_typed_purl', 'C01_same_string_G', 'C01_same_string_P'],
    accepts=lambda c: c[0] in 'PS' and kind_of(c) in 'gst',
    gen=lambda tier, rng: chain(parse_stream(tier, rng, ('g', 't', 's'), TOK_Q, TOK_T), gens.gen_utf8(Q(tier, 2, 3), ('g', 't')), (c for c in gens.gen_lengths() if c[0] == 'P'), (c for c in c03_scalars(tier) if c[0] == 'P')),
    compare=impl_accepts(lambda c, p: (vals(p[0]), vals(p[1]), canon(p[0]) == canon(p[1]))),
    rule='conformance corpus and mutations of it, exhaustive bounded token language (6 families), random legal spellings of random component tuples; '
         'parse + canonical string + re-parse compared between extracted model and crate for every string the crate accepts',
)

# ------------------------------------------------------------------ C07
def c07_sel(c, p):
    f = fields(p[0])
    return (f[1], f[5]) if f else p[0]
def c07_exhaustive(tier):
    import itertools
    pieces = ['a', '', '.', '..', '%2e', '%2E', '.%2e', '%2F', '%2f', '%5C', 'b c']
    n = 4 if tier == 'quick' else 5
    for k in range(1, n + 1):
        for w in itertools.product(pieces, repeat=k):
            s = '/'.join(w)
            yield f'P g {gens.hx("pkg:t/" + s + "/n")}'
            yield f'P g {gens.hx("pkg:t/n#" + s)}'
            if k <= 3:
                yield f'P t {gens.hx("pkg:npm/" + s + "/n#" + s)}'
    # white space and escaped slashes at the edges of a segment (sanitise-after-validate slips)
    pieces2 = ['@a%2Fb', '@%2f', '!', 'a', '..%20', '%20', ' .', '%09..', '.. ', 'a%2F', '%2Fa', '%2f', '.%20.', '%0A..%0D', '\u3000..']
    for k in range(1, 4):
        for w in itertools.product(pieces2, repeat=k):
            s = '/'.join(w)
            yield f'P g {gens.hx("pkg:t/" + s + "/n")}'
            yield f'P g {gens.hx("pkg:t/n#" + s)}'
            if k <= 2: yield f'P t {gens.hx("pkg:npm/" + s + "/n#" + s)}'
    for c in gens.gen_lengths(('g', 't')):
        if c[0] == 'P' and ('642f642f642f' in c): yield c       # many segments, then '..' / empty pieces
    for n in [30, 31, 32, 33, 64]:
        for tail in ['../../../etc/passwd', 'a//b/./c', '%2E%2E/x', '..', 'a%2Fb']:
            yield f'P g {gens.hx("pkg:t/n#" + "d/" * n + tail)}'
            yield f'P t {gens.hx("pkg:npm/n@1#" + "d/" * n + tail)}'
            yield f'P g {gens.hx("pkg:t/" + "d/" * n + tail + "/n")}'
    for body in ['a%252Fb', '%252F', '%252E%252E/%252e%252e/etc', '.%252E/x', 'a%25252Fb']:
        yield f'P g {gens.hx("pkg:t/" + body + "/n")}'
        yield f'P g {gens.hx("pkg:t/n#" + body)}'
        yield f'P t {gens.hx("pkg:golang/" + body + "/n#" + body)}'
    for tail in ['/', '//', '/@1', '//@1.0', '/?k=v', '/#s']:
        for body in ['ns/name', 'a/b/name', 'name', 'a//name']:
            yield f'P g {gens.hx("pkg:t/" + body + tail)}'
            yield f'P t {gens.hx("pkg:golang/" + body + tail)}'
PROPS['C07'] = dict(
    theorems=['C07_generic_purl', 'C07_typed_purl', 'C07_no_climb_generic', 'C07_no_climb_typed', 'C07_ns_split_generic', 'C07_ns_split_typed'],
    accepts=lambda c: c[0] in 'PS' and kind_of(c) in 'gst',
    gen=lambda tier, rng: (l for g in (c07_exhaustive(tier), parse_stream(tier, rng, ('g', 't', 's'), {'seg': 4, 'sub': 3, 'path': 3}, {'seg': 5, 'sub': 4, 'path': 4}, (10000, 200000), (2000, 30000))) for l in g),
    compare=impl_accepts(c07_sel),
    rule='exhaustive products of <= 4 (thorough 5) namespace / subpath pieces from {a, empty, ., .., %2e, %2E, .%2e, %2F, %2f, %5C, "b c"}, token language, random spellings, corpus; '
         'namespace and subpath of every accepted string compared between model and crate',
)

# ------------------------------------------------------------------ helpers for the remaining properties
def both(sel):
    def proj(c, line, is_impl): return sel(c, trip(line))
    return proj
def whole(c, line, is_impl): return line
def err_class(c, p):     # acceptance or the error variant only
    return 'O' if p[0].startswith('O ') else p[0]
def chain(*gs):
    for g in gs: yield from g
FACTOR = int(os.environ.get('VERIF_INTENSIFY', '1'))
Q = lambda tier, a, b: (a * FACTOR if isinstance(a, int) and a >= 100 else a) if tier == 'quick' else b

# ------------------------------------------------------------------ C02
def c02_compare(c, a, m):
    # C02 speaks about legal spellings: every S case (expected tuple carried) and every string the model accepts (theorem C02: those are
    # exactly the legal spellings).  What the model rejects is C05's.
    ma, mm = main(a), main(m)
    if c[0] != 'S' and not mm.startswith('O '): return 'skip'
    return ma == mm
c02_compare.obs = lambda c, a: main(a)
PROPS['C02'] = dict(
    accepts=lambda c: c[0] in 'PS' and kind_of(c) in 'gst',
    gen=lambda tier, rng: chain(gens.gen_spell(rng, Q(tier, 60000, 600000), ('g', 't', 's')), gens.gen_corpus(rng, Q(tier, 2000, 30000), ('g', 't')),
                                gens.gen_tok(Q(tier, {'head': 3, 'path': 3, 'qual': 3, 'sub': 3, 'seg': 3, 'typed': 3}, TOK_T), ('g', 't')), (c for c in gens.gen_typed_punct() if c[0] == 'P')),
    compare=c02_compare,
    rule='random component tuples with random legal spellings (case, raw/escaped bytes in either hex case, extra slashes, dot segments, qualifier order, '
         'interleaved empty qualifiers, raw @ ? # left of the separator, checksum entry order and case), expected tuple carried with the case; token language and corpus; '
         'the full parse outcome compared in both directions',
)
# ------------------------------------------------------------------ C03
def c03_sel(c, p):
    return p[0]
def c03_scalars(tier):
    cps = list(range(0x80, 0x600)) + [0x4E2D, 0x6587, 0x65E5, 0x672C, 0x1E9E, 0x2102, 0x212A, 0xFB00, 0xFF21, 0x10400, 0x1F600, 0x10FFFF] + (list(range(0x600, 0x3000, 7)) if tier != 'quick' else [])
    for cp in cps:
        if 0xD800 <= cp <= 0xDFFF: continue
        ch = chr(cp); v = 'x' + ch + 'y'
        yield f'B g {gens.hx("t")} {gens.hx(v)} S:{gens.hx(v)},V:{gens.hx(v)},U:{gens.hx(v)},Q:{gens.hx("k")}:{gens.hx(v)}'
        yield f'P g {gens.hx("pkg:t/" + v + "/" + v + "@" + v + "?k=" + v + "#" + v)}'
PROPS['C03'] = dict(
    accepts=lambda c: c[0] in 'PSB',
    gen=lambda tier, rng: chain(gens.gen_byte(pairs=True, kinds=('g',)), gens.gen_byte(pairs=False, kinds=('t', 's', 'b')), gens.gen_types(),
                                gens.gen_build(rng, Q(tier, 20000, 300000), 1, ('g', 't', 's', 'b', 'o')), gens.gen_spell(rng, Q(tier, 20000, 200000), ('g', 't', 's')), c03_scalars(tier)),
    compare=on_same_value(lambda c, p: canon(p[0])), exhaustive=False,
    rule='exhaustive: every ASCII byte and every ASCII pair (plus 2-, 3-, 4-byte scalars) in each of the 5 component positions through the builder; '
         'random builder sequences and parsed spellings; the canonical string compared wherever model and crate hold the same component values, and an independent renderer of the documented shape in the oracle on every value',
)
# ------------------------------------------------------------------ C04
def c04_sel(c, p):
    return vals(p[-1] if c.startswith('H ') else p[0])
PROPS['C04'] = dict(
    accepts=lambda c: c[0] in 'PSBH',
    gen=lambda tier, rng: chain(parse_stream(tier, rng, ('g', 't', 's'), {'head': 3, 'path': 3, 'qual': 3, 'sub': 3}, {'head': 4, 'path': 4, 'qual': 4, 'sub': 4}, (15000, 200000), (2000, 30000)),
                                gens.gen_build(rng, Q(tier, 30000, 400000), 1, ('g', 't', 's', 'b', 'o')), gens.gen_types(), gens.gen_shape(rng, Q(tier, 3000, 50000)), gens.gen_slot(('g', 't')), gens.gen_slot2(('g', 't'))),
    compare=impl_accepts(c04_sel),
    rule='parser streams, builder call sequences for String / Cow borrowed / Cow owned / SmallString / PackageType, and the family of user-written shapes '
         '(3 conversions x 3 type renderings x 29 hook programs); the value handed out compared; invariant evaluated by the oracle on every value',
)
# ------------------------------------------------------------------ C05
def c05_builders():
    for ns in ['', '/', '//', '///', 'g', '/g/']:
        for nm in ['n', 'g:a', '']:
            yield f'B t 3 {gens.hx(nm)} S:{gens.hx(ns)}'
            yield f'B t 3 {gens.hx(nm)} S:{gens.hx("org")},S:{gens.hx(ns)}'
    for k in 'gt':
        ty = '0' if k == 't' else gens.hx('t')
        for r in ['sha1:0', 'sha1', 'sha1:zz', 'sha1:00,SHA1:11', 'sha1:00,', ',', '']:
            yield f'B {k} {ty} {gens.hx("n")} Q:{gens.hx("checksum")}:{gens.hx(r)}'
PROPS['C05'] = dict(
    accepts=lambda c: (c[0] in 'PSX' and kind_of(c) in 'gt') or (c[0] == 'B' and kind_of(c) in 'gt'), corpus=True,
    gen=lambda tier, rng: chain(gens.gen_fault(rng, Q(tier, 60000, 600000)), gens.gen_utf8(Q(tier, 3, 4), ('g',)), gens.gen_slot(('g', 't')), gens.gen_tok(Q(tier, TOK_Q, TOK_T), ('g', 't')), gens.gen_corpus(rng, Q(tier, 3000, 50000), ('g', 't')),
                                gens.gen_spell(rng, Q(tier, 5000, 50000)), c05_builders(), gens.gen_slot2(('g', 't'))),
    project=both(err_class),
    rule='legal spellings with exactly one injected fault of each listed kind (13 kinds, every spelling of the fault incl. 12 invalid UTF-8 patterns) with the expected error carried; '
         'exhaustive percent-encoded byte sequences of length <= 3 (thorough 4) over the 27 boundary bytes of the UTF-8 table in four component positions; token language; corpus mutations; acceptance / error variant compared in both directions',
)
# ------------------------------------------------------------------ C06
def c06_proj(c, line, is_impl):
    if line in ('HANG', 'CRASH'): return (line,)      # the harness watchdog: the call did not return / the process died on this case
    if c[0] == 'Q':
        outs = line.split('|')[0].split(',')
        return tuple(i for i, o in enumerate(outs) if o == 'PANIC')
    return ('PANIC' in line, '!' in line.split(' ## ')[0][-2:], line.endswith('|P') or '|P|' in line)
def c06_odd(rng):
    for s in ['pkgé', 'pk€:npm/n', 'p📦:npm/n', 'é', 'pkg:é', 'pkg:n/é', '€pkg:npm/n', 'pkg\u0301:npm/n', 'pkg:npm/n?é=1', 'pkg:npm/n?k=é#é', 'PKG:npm/n', 'pkg:%', 'pkg:t/%', 'pkg:t/%4', 'pkg:t/n?k=%', 'pkg:t/n#%F']:
        for k in 'gst': yield f'P {k} {gens.hx(s)}'
    keys = ['é', 'ключ', 'K', 'ß', 'a\u0301', '']
    for k in keys:
        for pre in ['', f'i:{gens.hx("a")}:{gens.hx("1")},', f'i:{gens.hx("a")}:{gens.hx("1")},i:{gens.hx("b")}:{gens.hx("2")},i:{gens.hx("c")}:{gens.hx("3")},']:
            for op in ['g', 'c', 'r', 'x', 'er', 'ke']:
                yield f'Q {pre}{op}:{gens.hx(k)}'
            yield f'Q {pre}i:{gens.hx(k)}:{gens.hx("v")}'
            yield f'B g {gens.hx("t")} {gens.hx("n")} Q:{gens.hx("a")}:{gens.hx("1")},q:{gens.hx(k)}'
def c06_long(rng, n):
    base = gens.corpus_strings()
    for i in range(n):
        s = rng.choice(base)
        big = rng.choice(['a', '/', '%41', 'é', '&k=v', '/..', '%2F', ',a:00', '@', '#', '?']) * rng.choice([1000, 6000, 25000])
        pos = rng.randint(0, len(s))
        yield f'P {rng.choice("gt")} {gens.hx(s[:pos] + big + s[pos:])}'
def c06_extra(cases, impl, model, run_sharded, HAR, CACHE, pid):
    here = os.path.dirname(os.path.abspath(__file__))
    repo = os.environ.get('VERIF_REPO', '/repo')
    r = subprocess.run(['python3', f'{here}/panic_sites.py', 'check', f'{repo}/purl/src', f'{here}/panic_sites.json'], capture_output=True, text=True)
    res = dict(panic_sites=None)
    try:
        d = json.loads(r.stdout); res['panic_sites'] = dict(total=d['total'], new=len(d['new']), gone=len(d['gone']))
        if d['new']:
            res['broken'] = ['panic-site inventory: %d site(s) in the source have no lemma: %s' % (len(d['new']), '; '.join(f"{s['file']}:{s['fn']}: {s['text'][:80]}" for s in d['new'][:4]))]
    except Exception as e:
        res['broken'] = [f'panic-site scanner failed: {e} {r.stderr[-300:]}']
    return res
PROPS['C06'] = dict(
    accepts=accepts_all, extra=c06_extra,
    gen=lambda tier, rng: chain(gens.gen_tok(Q(tier, {'head': 3, 'path': 3, 'qual': 3, 'sub': 3}, TOK_T), ('g', 't')), gens.gen_fault(rng, Q(tier, 10000, 100000)),
                                gens.gen_corpus(rng, Q(tier, 3000, 50000)), gens.gen_build(rng, Q(tier, 15000, 200000), 1, ('g', 't', 's', 'b', 'o')),
                                gens.gen_qops(rng, Q(tier, 3000, 50000)), gens.gen_cs(rng, Q(tier, 3000, 50000)), gens.gen_pt(rng, 500, 2), gens.gen_comb(rng, 500),
                                c06_odd(rng), gens.gen_types(), gens.gen_slot(('g', 't')), gens.gen_shape(rng, 500), c06_long(rng, Q(tier, 0, 60)), gens.gen_lengths(), gens.gen_typed_punct()),
    project=c06_proj,
    rule='every case of every other stream runs under catch_unwind in a build with overflow checks and debug assertions; the observable is where PANIC occurs (and HANG: a watchdog in the harness ends a call that has not returned after 10 s); '
         'documented panics (Index of an absent key, insert_typed with an invalid KEY, Display of an invalid user type) are predicted by the model',
    assumptions=['panics inside dependencies (smartstring, percent-encoding, hex, phf, unicase, std), allocation failure and stack exhaustion are outside the model'],
)
# ------------------------------------------------------------------ C08
def c08_gen(tier, rng):
    def pairs(g):
        for l in g:
            a = l.split(' ')
            if a[0] in 'PS' and a[1] == 't':
                yield 'P g ' + a[-1]
                yield 'P t ' + a[-1]
            else:
                yield l
    yield from pairs(gens.gen_names(rng, tier))
    yield from pairs(gens.gen_lengths(('t',)))
    yield from gens.gen_typed_punct()
    yield from pairs(gens.gen_spell(rng, Q(tier, 10000, 100000), ('t',)))
    yield from pairs(gens.gen_tok(Q(tier, {'typed': 4}, {'typed': 5}), ('t',)))
    yield from pairs(gens.gen_corpus(rng, Q(tier, 1000, 20000), ('t',)))
    for i in range(7):
        for ns in ['', '/', '//', 'a', 'a//b', '/a/']:
            for nm in ['n', 'A_.-b', 'Æǅ', '']:
                yield f'B t {i} {gens.hx(nm)} S:{gens.hx(ns)}'
    # qualifiers the ecosystems know (and plausible values): untouched by every type, from parser and builder alike
    WK = [('type', 'jar'), ('type', 'JAR'), ('type', 'pom'), ('Type', 'jar'), ('classifier', 'sources'), ('platform', 'java'), ('platform', 'ruby'), ('file_name', 'X.whl'),
          ('repository_url', 'https://R.example/x'), ('download_url', 'https://d.example/A.tgz'), ('vcs_url', 'git+https://e.x/r.git@V1'), ('arch', 'x86_64'), ('checksum', 'sha1:AABB')]
    for i, ty in enumerate(gens.SEVEN):
        for k, v in WK:
            for rest in ['g/Name_.x@V1.0', 'Name']:
                sfx = '#Sub/Path' if rest != 'Name' else ''
                yield from pairs([f'P t {gens.hx("pkg:" + ty + "/" + rest + "?" + k + "=" + v + sfx)}'])
            yield f'B t {i} {gens.hx("Name_.x")} S:{gens.hx("g")},V:{gens.hx("V1.0")},Q:{gens.hx(k)}:{gens.hx(v)}'
            yield f'B t {i} {gens.hx("n")} S:{gens.hx("g")},Q:{gens.hx(k)}:{gens.hx(v)},Q:{gens.hx("os")}:{gens.hx("L")}'
        for vv in ['V1.0-Beta', 'vv1', 'Vv2', '1.0/', ' 1 ']:
            yield from pairs([f'P t {gens.hx("pkg:" + ty + "/g/Name@" + vv)}'])
            yield f'B t {i} {gens.hx("Name")} S:{gens.hx("g")},V:{gens.hx(vv)}'
    # the combined-name entry point applies the same name rule
    for c in gens.gen_comb(rng, Q(tier, 2000, 20000)):
        yield c
def c08_compare_factory():
    st = {}
    def view(side, c, line):
        """(typed type+name or error class, relation of the typed parse to the type-agnostic parse of the same string)"""
        a = c.split(' '); m = main(line)
        if a[0] == 'N':                       # combined-name entry point: the built name (third field of the line) or the refusal
            f = line.split('|'); return (('N', f[3] if len(f) > 3 else f[-1]), None)
        if a[0] == 'P' and a[1] == 'g':
            st[side] = (a[-1], m); return None
        f = fields(m)
        if a[0] == 'B': return ((f[0], f[2]) if f else m, None)
        rel = None; g = st.get(side)
        if g and g[0] == a[-1]:
            gf = fields(g[1])
            if f and gf: rel = (f[1], f[3], f[4], f[5]) == (gf[1], gf[3], gf[4], gf[5]) and f[0] == gf[0]
            elif f and not gf: rel = False                       # typed accepts what the type-agnostic parser refuses
            elif gf and not f: rel = m if m in ('E UnsupportedType', 'E PMissing(namespace)') else False
            else: rel = True
        return ((f[0], f[2]) if f else m, rel)
    def cmp(c, a, m):
        va = view('i', c, a); vm = view('m', c, m)
        if va is None: return 'skip'
        (na, ra), (nm, rm) = va, vm
        if ra != rm and not (rm is True and ra is True): 
            # the relation between typed and type-agnostic parse differs from the model's
            if not (isinstance(nm, str) and nm.startswith('E ') and ra is True): return False
        acc_a = not isinstance(na, str); acc_m = not isinstance(nm, str)
        if acc_a and acc_m: return na == nm                       # type and name after the rule
        if acc_a != acc_m: return 'mismatch' if ra in (True, None) and c[0] != 'B' else False
        # both refuse: only the typed-specific refusals are C08's
        special = ('E UnsupportedType', 'E PMissing(namespace)')
        if (na in special) != (nm in special): return 'mismatch' if c[0] != 'B' else False
        return na == nm if na in special else True
    cmp.obs = lambda c, a: None if c.startswith('P g') else main(a)[:200]
    return cmp
PROPS['C08'] = dict(
    accepts=lambda c: (c[0] in 'PSB' and kind_of(c) == 't') or c[0] == 'N' or (c[0] == 'P' and kind_of(c) == 'g'),
    gen=c08_gen, compare=c08_compare_factory(),
    rule='names: every string of length <= 4 (thorough 5) over {a A 1 - _ . AE-ligature titlecase-dz}, single scalar values (quick: Latin/Greek/Cyrillic/extended blocks, '
         'all special cases and 3000 random; thorough: all 1.1M) through parser and builder for nuget, pypi, cargo; typed vs type-agnostic parse of the same string; '
         'observable: typed type and name, and whether the other fields equal the type-agnostic ones',
)
# ------------------------------------------------------------------ C09
PROPS['C09'] = dict(
    accepts=lambda c: c[0] == 'B' and kind_of(c) in 'gt',
    gen=lambda tier, rng: chain(gens.gen_build(rng, Q(tier, 60000, 800000), Q(tier, 1, 2), ('g', 't')), gens.gen_byte(pairs=False, kinds=('g', 't'))),
    project=both(lambda c, p: (vals(p[0]), vals(p[1]))),
    rule='builder call sequences: exhaustive for length <= 1 (thorough 2) over ~330 operations on a universe of 14 field values, 12 keys x 9 values, typed checksums, '
         'direct edits; random sequences of 2-10 calls with arbitrary strings; outcome, accessors, canonical string and its re-parse compared in both directions; '
         'an independent last-write-wins reference in the oracle',
)
# ------------------------------------------------------------------ C10
PROPS['C10'] = dict(
    accepts=lambda c: c[0] in 'PSB',
    gen=lambda tier, rng: chain(parse_stream(tier, rng, ('g', 't', 's'), {'head': 3, 'path': 3, 'qual': 3, 'sub': 3, 'typed': 3}, TOK_T, (15000, 200000), (2000, 30000)),
                                gens.gen_build(rng, Q(tier, 30000, 400000), 1, ('g', 't', 's', 'b', 'o')), gens.gen_names(rng, 'quick'), gens.gen_lengths(), gens.gen_typed_punct()),
    compare=on_same_value(lambda c, p: (vals(p[2]), canon(p[0]) == canon(p[2]))),
    rule='every PURL produced by the parser and builder streams, for String, SmallString, Cow borrowed/owned and PackageType: the result of into_builder().build() compared wherever model and crate hold the same value; idempotence itself checked by the oracle on every value',
)
# ------------------------------------------------------------------ C11
PROPS['C11'] = dict(
    accepts=lambda c: c[0] in 'QF',
    gen=lambda tier, rng: gens.gen_qops(rng, Q(tier, 20000, 400000)),
    project=whole, exhaustive=False,
    rule='exhaustive: every content over keys {a, b, a.b} x values {absent, empty, x, y} x every operation of a universe of ~330 (13 keys incl. case variants and invalid ones), '
         'all ordered pairs of operations (every third as second); random sequences of 3-25 operations over arbitrary strings; try_from_iter; every returned value, '
         'forward and backward iteration and length compared; BTreeMap reference in the oracle',
)
# ------------------------------------------------------------------ C12
def c12_compare(c, a, m):
    if c[0] == 'H': return c14_compare(c, a, m)
    if c[0] in 'Cc': return a == m
    if c[0] == 'Q': return a == m
    fa, fm = fields(main(a)), fields(main(m))
    if not fa: return 'skip'
    if not fm: return 'mismatch'
    return fa[4] == fm[4]
c12_compare.obs = lambda c, a: a if c[0] in 'CcQH' else (fields(main(a)) or [None] * 5)[4]
def c12_purls(rng, n):
    for _ in range(n):
        t = gens.random_tuple(rng)
        cs = {}
        for _ in range(rng.randint(1, 4)):
            cs[rng.choice(['sha1', 'sha256', 'md5', 'b2', 'x-y', 'é1', 'ǆ', 'a'])] = bytes(rng.randrange(256) for _ in range(rng.choice([0, 1, 2, 4])))
        t['cs'] = cs
        t['quals']['checksum'] = ','.join(f'{a}:{cs[a].hex()}' for a in sorted(cs, key=lambda a: a.encode()))
        yield f'S g {gens.tuple_exp(t)} {gens.hx(gens.spelling_of(rng, t))}'
        ops = '+'.join(f'i.{gens.hx(gens.rcase(rng, a) if a.isascii() else a)}.{b.hex() or "-"}' for a, b in rng.sample(list(cs.items()), len(cs)))
        yield f'B g {gens.hx("t")} {gens.hx("n")} C:{ops}'
        yield f'Q tC:{ops},tG'
def c12_builders(rng, n):
    raws = ['a:00,sha1:zz', 'md5:00,sha1:0', 'sha1:aabb,md5:01fe', 'SHA1:AABB,MD5:01FE', 'Sha1:aAbB,mD5:01fE', 'md5:00', 'b:00,a:ff', 'sha1:00,', 'sha1:', 'a:0', 'sha3-256:aa,sha3:bb', 'md5:,sha1:01']
    typed = ['i.' + gens.hx('sha1') + '.00', 'i.' + gens.hx('SHA256') + '.abcd+i.' + gens.hx('md5') + '.11', 'i.' + gens.hx('MD5') + '.01fe', 'w.' + gens.hx('Sha1') + '.' + gens.hx('AAbb'),
             'i.' + gens.hx('sha1') + '.-', '-']
    keys = ['checksum', 'Checksum', 'CHECKSUM']
    for k in 'gstbo':
        ty = '0' if k == 't' else gens.hx('t')
        seqs = []
        for r in raws:
            seqs.append(f'Q:{gens.hx(rng.choice(keys))}:{gens.hx(r)}')
            seqs.append(f'D:{gens.hx("checksum")}:{gens.hx(r)}')
            for t in typed:
                seqs.append(f'Q:{gens.hx(rng.choice(keys))}:{gens.hx(r)},C:{t}')
                seqs.append(f'C:{t},Q:{gens.hx(rng.choice(keys))}:{gens.hx(r)}')
        for r in raws[:6]:
            for ek in ['arch', 'a', 'zz', 'channel']:
                seqs.append(f'Q:{gens.hx(ek)}:-,Q:{gens.hx("checksum")}:{gens.hx(r)}')
                seqs.append(f'Q:{gens.hx(ek)}:-,Q:{gens.hx("checksum")}:{gens.hx(r)},R:{gens.hx("https://e.x")}')
                seqs.append(f'D:{gens.hx(ek)}:-,D:{gens.hx("b")}:-,Q:{gens.hx("checksum")}:{gens.hx(r)}')
        for t1 in typed:
            for t2 in typed:
                seqs.append(f'C:{t1},C:{t2}')
            seqs.append(f'C:{t1},c'); seqs.append(f'c,C:{t1}'); seqs.append(f'C:{t1},q:{gens.hx("CheckSum")}')
        for sq in seqs:
            yield f'B {k} {ty} {gens.hx("n")} {sq}'
    for t1 in typed:
        for t2 in typed:
            yield f'Q tC:{t1},tC:{t2},tG'
            yield f'Q i:{gens.hx("checksum")}:{gens.hx("md5:00")},tC:{t1},tG,g:{gens.hx("checksum")}'
PROPS['C12'] = dict(
    accepts=lambda c: c[0] in 'CcPSBQ' or (c[0] == 'H' and any(x in c.split(' ')[1][2:] for x in 'cmob')),
    gen=lambda tier, rng: chain(gens.gen_cs(rng, Q(tier, 30000, 400000)), c12_purls(rng, Q(tier, 10000, 100000)), gens.gen_slot(('g',)), c12_builders(rng, 0), (c for c in gens.gen_lengths(('g',)) if 'checksum' in gens.unhx(c.split(' ')[-1])), (c for c in gens.gen_shape(rng, 0) if any(x in c.split(' ')[1][2:] for x in 'cmob'))),
    compare=c12_compare,
    rule='checksum operation sequences (insert / insert_raw / remove over 15 algorithm spellings incl. case variants, titlecase letters, empty and non-ASCII), texts, '
         'PURLs and builders carrying the same entry set in random order and case; entries, canonical text, parse-back and typed decode compared; '
         'the model fixes no iteration order (theorem over all permutations), each run uses fresh RandomState seeds',
)
# ------------------------------------------------------------------ C13
def c13_gen(tier, rng):
    for l in chain(parse_stream(tier, rng, ('g',), {'head': 3, 'path': 3, 'qual': 2, 'sub': 2}, TOK_T, (10000, 100000), (2000, 20000))):
        a = l.split(' ')
        yield l
        yield ' '.join([a[0], 's'] + a[2:])
    for l in chain(gens.gen_types(('g',)), gens.gen_build(rng, Q(tier, 20000, 200000), 1, ('g',))):
        a = l.split(' ')
        yield l
        for k in 'sbo': yield ' '.join([a[0], k] + a[2:])
    for l in gens.gen_lengths(('g',)):
        a = l.split(' ')
        yield l
        for k in ('s' if a[0] == 'P' else 'sbo'): yield ' '.join([a[0], k] + a[2:])
    # types the purl-spec gives special rules (none of which this crate implements), in several letter cases, with mixed-case fields and odd subpaths
    for ty in ['github', 'GitHub', 'BITBUCKET', 'githuB', 'Composer', 'go_lang', '@scope', 'c#']:
        for ops in [f'S:{gens.hx("Package-url")},V:{gens.hx("1A")}', f'U:{gens.hx("../cmd")}', f'U:{gens.hx("src/./lib")}', f'S:{gens.hx("/ a")}', '-']:
            for k in 'gsbo': yield f'B {k} {gens.hx(ty)} {gens.hx("purl-Spec")} {ops}'
def c13_compare_factory():
    st = {}
    def cmp(c, a, m):
        k = kind_of(c); sig = ' '.join(c.split(' ')[:1] + c.split(' ')[2:])
        if k == 'g':
            st['g'] = (sig, main(a), main(m)); return 'skip'
        g = st.get('g')
        if not g or g[0] != sig: return 'skip'
        return (main(a) == g[1]) == (main(m) == g[2])
    cmp.obs = lambda c, a: main(a)[:120]
    return cmp
PROPS['C13'] = dict(
    accepts=lambda c: c[0] in 'PSB' and kind_of(c) in 'gsbo',
    gen=c13_gen, corpus=False,
    compare=c13_compare_factory(),
    rule='parser streams for String and SmallString; builder sequences for String, Cow::Borrowed, Cow::Owned, SmallString on arbitrary (also invalid) type strings; '
         'each compared with the one model function, and pairwise with each other by the oracle',
)
# ------------------------------------------------------------------ C14
def c14_compare(c, a, m):
    # call log (with arguments), outcome and value.  When the two sides disagree on whether the *generic* parser front end refuses the string
    # (a Parse error on one side only), that is C05's; the protocol on the implementation side is then judged by the oracle alone.
    pa, pm = trip(a), trip(m)
    # refused by the generic front end = a Parse error before the hook ran (no H: entry in the call log)
    ea = pa[1].startswith('E Parse:') and 'H:' not in pa[0]
    em = pm[1].startswith('E Parse:') and 'H:' not in pm[0]
    if ea != em: return 'mismatch'
    return (pa[0], vals(pa[1]), canon(pa[1]) == '!') == (pm[0], vals(pm[1]), canon(pm[1]) == '!')
c14_compare.obs = lambda c, a: (trip(a)[0], vals(trip(a)[1]))
PROPS['C14'] = dict(
    accepts=lambda c: c[0] == 'H',
    gen=lambda tier, rng: gens.gen_shape(rng, Q(tier, 10000, 200000)),
    compare=c14_compare,
    rule='family of user-written shapes: conversion {always, never, only "custom"} x type rendering {lower-cased, raw, invalid} x 29 hook programs (fail, clear name, '
         'rewrite namespace/version/subpath, insert empty/valid/malformed qualifiers and checksums, mutate the type, combinations) x 19 parser inputs and builder inputs, '
         'plus random members and spellings; call log (arguments included), result and accessors compared with the model instantiated at the same member',
)
# ------------------------------------------------------------------ C15
def c15_purls(rng, n):
    # the type as it is spelled inside a PURL string: case variants, percent-encoded letters, padded, look-alikes
    def enc(name, i): return name[:i] + '%%%02X' % ord(name[i]) + name[i + 1:]
    for name in gens.SEVEN:
        for v in [name, name.upper(), name.capitalize(), name.swapcase()] + [enc(name, i) for i in range(len(name))] + [enc(name.upper(), 0), '%' + name, name + '%20', name + '%', ' ' + name, name + ' ',
                  ''.join('%%%02x' % ord(ch) for ch in name), name + '.', name[:-1], name + name[-1], name.replace('m', 'ｍ').replace('g', 'ɡ')]:
            for rest in ['/n', '/g/n@1', '/g/n?k=v#s']:
                yield f'P t {gens.hx("pkg:" + v + rest)}'
                yield f'P g {gens.hx("pkg:" + v + rest)}'
    for _ in range(n):
        name = rng.choice(gens.SEVEN); i = rng.randrange(len(name))
        v = ''.join(rng.choice([ch, ch.upper(), '%%%02X' % ord(ch), '%%%02x' % ord(ch.upper())]) if rng.random() < 0.4 else ch for ch in name)
        yield f'P t {gens.hx("pkg:" + v + "/g/n")}'
def c15_proj(c, line, is_impl):
    if c[0] == 'T': return line
    f = fields(trip(line)[0])
    return f[0] if f else 'E'         # accepted with which type, or refused (which error is C05's)
PROPS['C15'] = dict(
    accepts=lambda c: c[0] == 'T' or (c[0] == 'P' and kind_of(c) in 'gt'), corpus=False,
    gen=lambda tier, rng: chain(gens.gen_pt(rng, Q(tier, 5000, 100000), Q(tier, 3, 4)), c15_purls(rng, Q(tier, 3000, 30000))),
    project=c15_proj, exhaustive=False,
    rule='exhaustive: all 192 case variants of the 7 names; every string of length <= 3 (thorough 4) over the letters of the names plus look-alikes '
         '(long s, Kelvin sign, dotless i, dotted I, full-width letters, sharp s); one-edit neighbours; the other PURL type names; random strings; '
         'the type as spelled inside a PURL string (case variants, percent-encoded letters, padding, look-alikes) through Purl::from_str and GenericPurl::from_str',
)
# ------------------------------------------------------------------ C16 (needs the serde build)
def serde_extra(cases, impl, model, run_sharded, HAR, CACHE, pid):
    har = f'{CACHE}/target-serde/release/vharness'
    import random as _r
    rng = _r.Random(int(os.environ.get('VERIF_SEED', '1')))
    jc = list(gens.gen_serde(rng, 20000 if os.environ.get('VERIF_TIER_EFFECTIVE') == 'thorough' else 4000))
    out = run_sharded(f'{har} oracle', jc, f'{pid}.serde')
    bad = [i for i, o in enumerate(out) if o.startswith('FAIL') and 'C16' in o]
    res = dict(serde_cases=len(jc))
    if bad:
        i = min(bad, key=lambda j: len(jc[j]))
        res['broken'] = [f'serde oracle: {len(bad)} JSON inputs violate C16']
        res['failing'] = dict(case=jc[i], printable=' '.join(jc[i].split(' ')[:2]) + ' ' + bytes.fromhex(jc[i].split(' ')[2]).decode('utf-8', 'replace'), oracle=out[i],
                              replay_with=f'{har} oracle')
    return res
PROPS['C16'] = dict(
    accepts=lambda c: c[0] in 'PS' and kind_of(c) in 'gt',
    features=(('serde', '--features serde'),),
    gen=lambda tier, rng: parse_stream(tier, rng, ('g', 't'), {'head': 3, 'path': 3, 'qual': 2, 'sub': 2}, {'head': 4, 'path': 4, 'qual': 3, 'sub': 3}, (10000, 100000), (2000, 20000)),
    compare=impl_accepts(lambda c, p: (vals(p[0]), vals(p[1]), canon(p[0]) == canon(p[1]))), extra=serde_extra,
    rule='the C01 tie (parse, canonical string, re-parse) on the parser streams, plus, in a build with the serde feature, JSON texts of corpus strings and random spellings '
         '(escaped and raw), and non-string JSON values: deserialise = parse, serialise = canonical string, non-strings refused (oracle with serde_json)',
    assumptions=['JSON string escaping by serde_json is trusted; the derive-free impls are checked to be collect_str / visit_str by behaviour only'],
)
# ------------------------------------------------------------------ C17
def c17_compare(c, a, m):
    # the property relates builds to each other (extra); differences from the model are recorded, they are other properties' business
    return True if a == m else 'mismatch'
c17_compare.obs = lambda c, a: a[:160]
FEATS = (('nodef', '--no-default-features'), ('pt', '--no-default-features --features pt'), ('serde', '--features serde'))
def c17_extra(cases, impl, model, run_sharded, HAR, CACHE, pid):
    res = dict(programs=4, transcripts={})
    broken = []
    def errtexts(har):
        r = subprocess.run([har, 'errtexts'], stdin=subprocess.DEVNULL, capture_output=True, text=True)
        return [l for l in r.stdout.splitlines() if not l.startswith('package ')], [l for l in r.stdout.splitlines() if l.startswith('package ')]
    base_txt = errtexts(HAR)
    res['error_texts'] = len(base_txt[0]) + len(base_txt[1])
    for name, _ in FEATS:
        t = errtexts(f'{CACHE}/target-{name}/release/vharness')
        if t[0] != base_txt[0] or (t[1] and t[1] != base_txt[1]):
            broken.append(f'feature set {name}: error texts differ from the default build')
            res['failing'] = dict(case='errtexts', printable='Display text of the error variants', default_features='\n'.join(base_txt[0] + base_txt[1]), other='\n'.join(t[0] + t[1]), feature_set=name)
    for name, _ in FEATS:
        out = run_sharded(f'{CACHE}/target-{name}/release/vharness run', cases, f'{pid}.{name}')
        diff = [i for i, (a, b) in enumerate(zip(impl, out)) if b != 'SKIP' and a != b]
        res['transcripts'][name] = dict(cases=len(out), skipped=sum(1 for b in out if b == 'SKIP'), differences=len(diff))
        if diff:
            i = min(diff, key=lambda j: len(cases[j]))
            broken.append(f'feature set {name}: {len(diff)} outcome lines differ from the default build')
            res['failing'] = dict(case=cases[i], printable=cases[i], default_features=impl[i], other=out[i], feature_set=name)
    # inventory of the feature gates in the source: a gate that is not in the committed table can make behaviour depend on the feature set
    here = os.path.dirname(os.path.abspath(__file__)); repo = os.environ.get('VERIF_REPO', '/repo')
    r = subprocess.run(['python3', f'{here}/feature_gates.py', 'check', f'{repo}/purl/src', f'{here}/feature_gates.json'], capture_output=True, text=True)
    try:
        d = json.loads(r.stdout); res['feature_gates'] = dict(total=d['total'], new=len(d['new']), gone=len(d['gone']))
        if d['new']:
            broken.append('feature-gate inventory: %d gate(s) in the source are not in the table: %s' % (len(d['new']), '; '.join(f"{g['file']}: #[cfg({g['gate']})] {g['item'][:60]}" for g in d['new'][:4])))
    except Exception as e:
        broken.append(f'feature-gate scanner failed: {e} {r.stderr[-300:]}')
    if broken: res['broken'] = broken
    return res
PROPS['C17'] = dict(
    level='translation_validation', corpus=True,
    accepts=lambda c: c[0] in 'PSXBQFCc',
    features=FEATS,
    gen=lambda tier, rng: chain(gens.gen_tok(Q(tier, {'head': 3, 'path': 3, 'qual': 3, 'sub': 3}, TOK_T), ('g', 's', 't')), gens.gen_spell(rng, Q(tier, 20000, 200000), ('g', 's', 't')),
                                gens.gen_fault(rng, Q(tier, 10000, 100000)), gens.gen_build(rng, Q(tier, 20000, 200000), 1, ('g', 's', 'b', 'o', 't')),
                                gens.gen_qops(rng, Q(tier, 2000, 20000)), gens.gen_cs(rng, Q(tier, 2000, 20000)), gens.gen_types(), gens.gen_slot(('g', 's', 't')), gens.gen_utf8(2, ('g', 's')), gens.gen_lengths()),
    compare=c17_compare, extra=c17_extra,
    rule='one deterministic stream (token language, seeded spellings, faults, builder, qualifier and checksum sequences) run through the harness built with '
         '{default}, {no features}, {package-type}, {default+serde}; every transcript compared line by line with the default one and with the extracted model '
         '(the typed API only where it exists); error texts are compared through their variants; every #[cfg]/cfg!() gate of the source must be in the committed inventory (tools/feature_gates.json)',
    assumptions=['feature selection is a build-time fact below the model: the Coq content is only that the model is one deterministic function'],
)
# ------------------------------------------------------------------ C18
def c18_proj(c, line, is_impl):
    # split result, and (when the PURL builds) its combined name and re-split; which error build() gives otherwise is C05/C09's
    if c[0] == 'M': return line if not line.startswith('E ') else 'E'
    f = line.split('|')
    return tuple(f[:2]) + (('E',) if len(f) == 3 else tuple(f[2:]))
def c18_compare(c, a, m):
    # M cases: the parse of the string is C01/C02/C08's; C18 compares what combined_name and the re-split make of the SAME parsed value
    if c[0] == 'M':
        if a.startswith('E ') or m.startswith('E '): return 'skip' if a.startswith('E ') else 'mismatch'
        fa, fm = a.split('|'), m.split('|')
        if fa[:3] != fm[:3]: return 'mismatch'
        return fa[3:] == fm[3:]
    return c18_proj(c, a, True) == c18_proj(c, m, False)
c18_compare.obs = lambda c, a: c18_proj(c, a, True)
PROPS['C18'] = dict(
    compare=c18_compare,
    accepts=lambda c: c[0] in 'NM',
    gen=lambda tier, rng: chain(gens.gen_comb(rng, Q(tier, 30000, 400000)), gens.gen_comb_purl(rng, Q(tier, 10000, 100000))),
    rule='combined names with any number of "/" and ":" for the seven types (20 fixed shapes each, random strings); split, built PURL, combined_name and its re-split compared; '
         'typed PURLs parsed from strings (with version, qualifiers, subpath): combined_name() and its re-split compared on the same parsed value',
)
# ------------------------------------------------------------------ C19
def c19_compare(c, a, m):
    # the verdict (==, cmp) is compared only where model and crate speak about the same two values (same canonical strings);
    # a difference in the values themselves is C01/C02/C09's observable, and the oracle (== iff same string, etc.) runs on every case regardless
    fa, fm = a.split(' | '), m.split(' | ')
    if len(fa) != 3: return 'skip' if a in ('NA', 'SKIP') else a == m       # the crate produced no pair of PURLs: nothing to compare
    if len(fm) != 3: return 'mismatch'                                         # only the crate produced both PURLs: acceptance is C05/C02's
    if fa[1:] != fm[1:]: return 'mismatch'
    return fa[0] == fm[0]
c19_compare.obs = lambda c, a: a.split(' | ')[0]
PROPS['C19'] = dict(
    accepts=lambda c: c[0] == 'K',
    gen=lambda tier, rng: gens.gen_pair(rng, Q(tier, 40000, 500000)),
    compare=c19_compare,
    rule='pairs of PURLs biased to near-collisions (two spellings of one tuple, one character changed, a separator moved between neighbouring fields, values with & and =, '
         'parser vs builder) for String, SmallString, Cow and PackageType: ==, cmp compared with the model, and ==/hash/cmp/partial_cmp against canonical-string equality in the oracle',
)

for _pid, _s in PROPS.items():
    if 'compare' not in _s: _s['compare'] = from_project(_s['project'])
# theorem names are read from the props files (each Theorem there is followed by Print Assumptions)
for _pid, _s in PROPS.items():
    _f = os.path.join(os.path.dirname(os.path.abspath(__file__)), '..', 'coq', 'props', _pid + '.v')
    _s.setdefault('theorems', re.findall(r'^Theorem (\w+)', open(_f).read(), re.M) if os.path.exists(_f) else [])
