"""Per-property configuration of a check: generators per tier, the observable compared between
model and implementation (project), the pinned theorem names of coq/props/Cnn.v, evidence text."""
import gens, json, os, re, subprocess

def main(line):      # first component of a triple line
    return line.split(' ## ')[0]
def fields(show):    # 'O a|b|..' -> list, else None
    return show[2:].split('|') if show.startswith('O ') else None
def is_parse(c): return c[0] in 'PSX'
def accepts_all(c): return True
def kind_of(c): return c.split(' ')[1] if c[0] in 'PSXB' else None

# ---- common streams
def tokk(tier, quick, thorough):
    return quick if tier == 'quick' else thorough
def parse_stream(tier, rng, kinds=('g', 't'), tok_q=None, tok_t=None, nspell=(20000, 300000), ncorpus=(3000, 60000), nfault=(0, 0)):
    q = tier == 'quick'
    yield from gens.gen_corpus(rng, ncorpus[0] if q else ncorpus[1], kinds)
    yield from gens.gen_tok(tok_q if q else tok_t, kinds)
    yield from gens.gen_spell(rng, nspell[0] if q else nspell[1], kinds)
    if nfault[0 if q else 1]:
        yield from gens.gen_fault(rng, nfault[0 if q else 1], kinds)
TOK_Q = {'head': 3, 'path': 3, 'qual': 3, 'sub': 3, 'seg': 4, 'typed': 3}
TOK_T = {'head': 4, 'path': 4, 'qual': 4, 'sub': 4, 'seg': 5, 'typed': 4}

PROPS = {}

# ------------------------------------------------------------------ C01
def c01_project(c, line, is_impl):
    # one direction: only what the implementation accepts matters; then main value and re-parse must agree
    if not hasattr(c01_project, 'acc'): c01_project.acc = {}
    p = line.split(' ## ')
    if is_impl:
        c01_project.acc[c] = p[0].startswith('O ')
        if not c01_project.acc[c]: return None
    return (p[0], p[1])
def impl_accepts(sel):
    """projection factory: observable sel(parts of the triple) only for cases the implementation accepts"""
    state = {}
    def proj(c, line, is_impl):
        p = line.split(' ## ')
        if is_impl:
            state['ok'] = p[0].startswith('O ')
            if not state['ok']: return None
        return sel(c, p)
    return proj
PROPS['C01'] = dict(
    theorems=['C01_generic_purl', 'C01_typed_purl', 'C01_same_string_G', 'C01_same_string_P'],
    accepts=lambda c: c[0] in 'PS' and kind_of(c) in 'gst',
    gen=lambda tier, rng: (l for l in parse_stream(tier, rng, ('g', 't', 's'), TOK_Q, TOK_T)),
    project=impl_accepts(lambda c, p: (p[0], p[1])),
    rule='conformance corpus and mutations of it, exhaustive bounded token language (6 families), random legal spellings of random component tuples; '
         'parse + canonical string + re-parse compared between extracted model and crate for every string the crate accepts',
)

# ------------------------------------------------------------------ C07
def c07_sel(c, p):
    f = fields(p[0])
    return (f[1], f[5]) if f else p[0]
def c07_exhaustive(tier):
    import itertools
    pieces = ['a', '', '.', '..', '%2e', '%2E', '.%2e', '%2F', '%2f', '%5C', 'b c']
    n = 4 if tier == 'quick' else 5
    for k in range(1, n + 1):
        for w in itertools.product(pieces, repeat=k):
            s = '/'.join(w)
            yield f'P g {gens.hx("pkg:t/" + s + "/n")}'
            yield f'P g {gens.hx("pkg:t/n#" + s)}'
            if k <= 3:
                yield f'P t {gens.hx("pkg:npm/" + s + "/n#" + s)}'
PROPS['C07'] = dict(
    theorems=['C07_generic_purl', 'C07_typed_purl'],
    accepts=lambda c: c[0] in 'PS' and kind_of(c) in 'gst',
    gen=lambda tier, rng: (l for g in (c07_exhaustive(tier), parse_stream(tier, rng, ('g', 't', 's'), {'seg': 4, 'sub': 3, 'path': 3}, {'seg': 5, 'sub': 4, 'path': 4}, (10000, 200000), (2000, 30000))) for l in g),
    project=impl_accepts(c07_sel),
    rule='exhaustive products of <= 4 (thorough 5) namespace / subpath pieces from {a, empty, ., .., %2e, %2E, .%2e, %2F, %2f, %5C, "b c"}, token language, random spellings, corpus; '
         'namespace and subpath of every accepted string compared between model and crate',
)
