#!/usr/bin/env python3
"""Change awareness for the *search* side of the checks (never for the decision):
  fingerprint.py record <src-dir> <out.json>   record the normalised non-test source lines of the crate
  fingerprint.py diff <src-dir> <recorded.json> -> JSON {changed_files, new_lines, literals}
Literals (characters, bytes, short strings, small numbers) occurring in source lines that are new relative to the
recorded tree are fed to the generators as extra tokens (a dictionary, as fuzzers do), and the random generators
run at a higher volume when anything changed.  On the recorded tree the diff is empty and nothing changes."""
import re, sys, json, os

def lines_of(path):
    out = []; in_test = False; depth = 0; test_depth = None; pending = False
    for raw in open(path).read().split('\n'):
        s = raw.strip()
        code = re.sub(r'//.*$', '', s) if not ('"' in s and '//' in s and s.index('"') < s.index('//')) else s
        if s.startswith('#[cfg(test)]'): pending = True
        if pending and re.match(r'(pub\s+)?mod\s+\w+\s*\{', s): in_test = True; test_depth = depth; pending = False
        elif pending and s and not s.startswith('#['): pending = False
        if not in_test and code and not s.startswith('//'):
            out.append(re.sub(r'\s+', ' ', code))
        depth += raw.count('{') - raw.count('}')
        if in_test and depth <= test_depth: in_test = False
    return out
def scan(root):
    res = {}
    for d, _, fs in os.walk(root):
        for f in sorted(fs):
            if f.endswith('.rs'):
                p = os.path.join(d, f); res[os.path.relpath(p, root)] = lines_of(p)
    return res
def literals(lines):
    lits = set()
    for l in lines:
        for m in re.finditer(r"b?'(\\.|\\x[0-9a-fA-F]{2}|[^'\\])'", l):
            c = m.group(1)
            if c.startswith('\\x'): c = chr(int(c[2:], 16))
            elif c.startswith('\\'): c = {'n': '\n', 't': '\t', '0': '\0', 'r': '\r'}.get(c[1], c[1])
            lits.add(c)
        for m in re.finditer(r'"((?:[^"\\]|\\.)*)"', l):
            s = m.group(1)
            if 0 < len(s) <= 12 and '{' not in s: lits.add(s.replace('\\\\', '\\'))
        for m in re.finditer(r'(?<![\w.])(\d{1,3})(?![\w.])', l):
            lits.add('#' + m.group(1))
    return sorted(lits)
if __name__ == '__main__':
    if sys.argv[1] == 'record':
        json.dump(scan(sys.argv[2]), open(sys.argv[3], 'w'), indent=0)
    else:
        cur = scan(sys.argv[2]); rec = json.load(open(sys.argv[3]))
        changed = []; new = []
        for f, ls in cur.items():
            old = set(rec.get(f, []))
            nl = [l for l in ls if l not in old]
            if nl or len(ls) != len(rec.get(f, [])): changed.append(f)
            new += nl
        for f in rec:
            if f not in cur: changed.append(f)
        print(json.dumps(dict(changed_files=sorted(set(changed)), new_lines=new[:200], literals=literals(new))))
