#!/usr/bin/env python3
"""Assemble /verif/seeded/<id>/ (patch.diff, demo.rs, README.md, meta.json) from the sub-agents' deliverables, the confirmation logs and the
matrix results, and write the detection table of DESIGN.md section 11 (between the markers)."""
import json, os, re, shutil, sys, glob
conf = {}
for f in glob.glob('/tmp/mxout/confirm*.log') + glob.glob('/verif/seeded/confirm*.log'):
    for l in open(f):
        m = re.match(r'((?:R\d+)?C\d\d[AB]): (.*)', l.strip())
        if m: conf[m.group(1)] = m.group(2)
for f in glob.glob('/verif/seeded/confirm17*.log'):
    cur = None
    for l in open(f):
        m = re.match(r'((?:R\d+)?C17[AB]) suite failing lines: (\d+)', l.strip())
        if m: cur = m.group(1); conf[cur] = f'suite failing lines: {m.group(2)}'
        elif cur and l.startswith('  '): conf[cur] += ' | ' + re.sub(r'; 0 ignored.*', '', l.strip())
matrix = {}
for f in sorted(glob.glob('/tmp/mxout/m*.json')) + sorted(glob.glob('/verif/seeded/matrix*.json')):
    try:
        for r in json.load(open(f)): matrix[r['name']] = r      # later files win
    except Exception: pass
props = {json.loads(l)['id']: json.loads(l) for l in open('/verif/properties.jsonl')}
def needs(readme):
    ls = [l.strip('-* ').strip() for l in readme.split('\n')]
    hit = [l for l in ls if re.search(r'(?i)\b(trigger|manifest|needs|only when|only shows|only for|requires)\b', l) and len(l) > 30]
    return ' '.join(hit[:3])[:700] if hit else ' '.join(ls[:6])[:500]
rows = []
for name in sorted(set(conf) | {n for n in matrix if re.match(r'(R\d+)?C\d\d[AB]$', n)}):
    rnd = name[:-4]; r2 = bool(rnd); pid = name[-4:-1]; ab = name[-1]
    src = f'/tmp/wt{rnd[1:] if rnd else ""}/{pid}/MUTANT/{ab}'
    dst = f'/verif/seeded/{name}'
    if os.path.exists(src + '/patch.diff'):
        os.makedirs(dst, exist_ok=True)
        for f in ('patch.diff', 'demo.rs', 'README.md'):
            if os.path.exists(f'{src}/{f}'): shutil.copy(f'{src}/{f}', f'{dst}/{f}')
    if not os.path.exists(dst + '/patch.diff'): continue
    readme = open(f'{dst}/README.md').read() if os.path.exists(f'{dst}/README.md') else ''
    mx = matrix.get(name, {}).get('results', {})
    meta = dict(id=name, breaks_property=pid, property_title=props[pid]['title'],
                origin='written by an independent sub-agent that saw only the property text and a scratch worktree of /repo' + ((f' (round {rnd[1:]}: asked for boundaries, fast paths for some byte patterns, state-dependent shortcuts, cooperating sites)' if rnd == 'R10' else f' (round {rnd[1:]}: told which mechanisms earlier rounds had used, to avoid them)') if r2 else ''),
                needs_to_manifest=needs(readme), description_file='README.md',
                confirmed=dict(how='tools/confirm_mutant.sh in a scratch worktree of /repo: cargo test --workspace --offline with the change applied; the demonstration as purl/tests/demo.rs with the change; the demonstration without it',
                               result=conf.get(name, 'not re-confirmed')),
                checks=dict(ran=('tools/matrix.py with MATRIX_TARGET=1: the quick check of the target property on a scratch worktree with the change applied (VERIF_REPO)' if rnd in ('R9', 'R10') else 'tools/matrix.py: every registered quick check on a scratch worktree with the change applied (VERIF_REPO)'),
                            alarms={p: r['kind'] for p, r in sorted(mx.items()) if r['kind'] != 'pass'},
                            target_detected=mx.get(pid, {}).get('kind'), target_replay=(mx.get(pid, {}).get('replay') or {}).get('printable')) if mx else None)
    json.dump(meta, open(f'{dst}/meta.json', 'w'), indent=1, ensure_ascii=False)
    rows.append((name, pid, meta))
for name in ['D1', 'D2', 'D3', 'D4']:
    mx = matrix.get(name, {}).get('results', {})
    if mx:
        json.dump(dict(id=name + '-regression', what='reverse patch of the fix: commit', alarms={p: r['kind'] for p, r in sorted(mx.items()) if r['kind'] != 'pass'},
                       replays={p: (r.get('replay') or {}).get('printable') for p, r in sorted(mx.items()) if r['kind'] == 'input'}),
                  open(f'/verif/seeded/{name}-regression/meta.json', 'w'), indent=1, ensure_ascii=False)
harm = {n: matrix[n] for n in matrix if re.match(r'H\d+$', n)}
# ---- DESIGN table
lines = ['| change | breaks | target check | replay found by the target check | other checks that alarm (input = with a failing input, nofail = no-failing-input-found) |', '|---|---|---|---|---|']
for name, pid, meta in rows:
    c = meta['checks'] or {}
    al = c.get('alarms', {})
    other = ' '.join(f'{p}({k})' for p, k in al.items() if p != pid) or '-'
    rp = ''.join(ch if (32 <= ord(ch) != 127) else '\\x%02x' % ord(ch) for ch in (c.get('target_replay') or '-')).replace('|', '\\|')[:90]
    lines.append(f"| {name} | {pid} | {c.get('target_detected') or 'not run'} | `{rp}` | {other} |")
for name in ['D1', 'D2', 'D3', 'D4']:
    mx = matrix.get(name, {}).get('results', {})
    if mx:
        al = ' '.join(p + '(' + r['kind'] + ')' for p, r in sorted(mx.items()) if r['kind'] != 'pass')
        lines.append(f"| {name}-regression | (defect of section 6) | - | - | {al} |")
for name in sorted(harm):
    mx = harm[name].get('results', {})
    al = ' '.join(p + '(' + r['kind'] + ')' for p, r in sorted(mx.items()) if r['kind'] != 'pass') or 'none: all 19 checks pass'
    lines.append(f"| {name} (harmless rewrite) | nothing | - | - | {al} |")
d = open('/verif/DESIGN.md').read()
a, b = '<!-- SEEDED-TABLE-BEGIN -->', '<!-- SEEDED-TABLE-END -->'
if a in d:
    d = d[:d.index(a) + len(a)] + '\n' + '\n'.join(lines) + '\n' + d[d.index(b):]
    open('/verif/DESIGN.md', 'w').write(d)
print(len(rows), 'mutants;', sum(1 for _, pid, m in rows if (m['checks'] or {}).get('target_detected') == 'input'), 'target detected with input;',
      [n for n, pid, m in rows if (m['checks'] or {}).get('target_detected') not in ('input',)])
