#!/usr/bin/env python3
"""Assemble /verif/seeded/<id>/ from the sub-agents' deliverables, the confirmation log and the matrix results."""
import json, os, re, shutil, sys, glob
conf = {}
for l in open('/tmp/mxout/confirm.log'):
    m = re.match(r'(C\d\d[AB]): (.*)', l.strip())
    if m: conf[m.group(1)] = m.group(2)
matrix = {}
for f in sorted(glob.glob('/tmp/mxout/m*.json')):
    for r in json.load(open(f)):
        matrix[r['name']] = r
props = {json.loads(l)['id']: json.loads(l) for l in open('/verif/properties.jsonl')}
for name in sorted(conf):
    pid = name[:3]; ab = name[3]
    src = f'/tmp/wt/{pid}/MUTANT/{ab}'
    if not os.path.exists(src + '/patch.diff'): continue
    dst = f'/verif/seeded/{name}'; os.makedirs(dst, exist_ok=True)
    for f in ('patch.diff', 'demo.rs', 'README.md'):
        if os.path.exists(f'{src}/{f}'): shutil.copy(f'{src}/{f}', f'{dst}/{f}')
    readme = open(f'{src}/README.md').read() if os.path.exists(f'{src}/README.md') else ''
    mx = matrix.get(name, {}).get('results', {})
    meta = dict(id=name, breaks_property=pid, property_title=props[pid]['title'], origin='written by an independent sub-agent that saw only the property text and a scratch worktree of /repo',
                needs_to_manifest=(re.search(r'(?is)(needs?|manifest|trigger)[^\n]*\n?.{0,600}', readme) or [None])[0] if False else None,
                description_file='README.md',
                confirmed=dict(how='tools/confirm_mutant.sh in a scratch worktree: cargo test --workspace --offline with the change; the demo as purl/tests/demo.rs with the change; the demo without it',
                               result=conf[name]),
                checks=dict(alarms={p: r['kind'] for p, r in mx.items() if r['kind'] != 'pass'},
                            target_detected=mx.get(pid, {}).get('kind'), target_replay=(mx.get(pid, {}).get('replay') or {}).get('printable')) if mx else None)
    meta.pop('needs_to_manifest')
    json.dump(meta, open(f'{dst}/meta.json', 'w'), indent=1, ensure_ascii=False)
print(len(conf), 'mutants written')
