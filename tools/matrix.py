#!/usr/bin/env python3
"""Mutant matrix: for each mutant patch, copy /verif to a scratch dir, apply the patch in a scratch worktree of /repo,
run every quick check there (VERIF_REPO), record which checks alarm.  usage: matrix.py <out.json> <name=patch> ...   (parallel pool)"""
import sys, os, subprocess, json, concurrent.futures, shutil, re, time
OUT = sys.argv[1]; items = [a.split('=', 1) for a in sys.argv[2:]]
PIDS = [c['property_id'] for c in json.load(open('/verif/MANIFEST.json'))['checks']]
only = os.environ.get('MATRIX_PROPS'); PIDS = only.split(',') if only else PIDS
def run(item):
    name, patch = item
    base = f'/tmp/mx/{name}'; shutil.rmtree(base, ignore_errors=True); os.makedirs(base)
    wt = f'{base}/repo'
    subprocess.run(['git', '-C', '/repo', 'worktree', 'add', '-q', '--detach', wt, 'HEAD'], check=True)
    res = dict(name=name, patch=patch, results={})
    try:
        r = subprocess.run(['git', '-C', wt, 'apply', patch], capture_output=True, text=True)
        if r.returncode: res['error'] = 'patch does not apply: ' + r.stderr; return res
        subprocess.run(f'rsync -a /tmp/mx/_snap/ {base}/verif/', shell=True, check=True)
        env = dict(os.environ, VERIF_REPO=wt)
        # MATRIX_TARGET=1: only the check of the property the change was written against (its id is part of the name)
        for pid in ([re.search(r'C\d\d', name).group(0)] if os.environ.get('MATRIX_TARGET') else PIDS):
            t = time.time()
            r = subprocess.run(['./vcheck', 'check', pid, '--tier', 'quick'], cwd=f'{base}/verif', capture_output=True, text=True, env=env)
            lines = [l for l in r.stdout.splitlines() if re.match(r'^(C\d+ |VIOLATION|KNOWN|  - )', l)]
            v = [l for l in lines if l.startswith('VIOLATION')]
            kind = 'pass' if r.returncode == 0 else ('nofail' if v and v[0].endswith('no-failing-input-found') else ('input' if v else 'error'))
            replay = None
            if v:
                m = re.search(r'replay=(\S+)', v[0])
                try:
                    rec = json.load(open(m.group(1)))
                    replay = dict(printable=rec.get('printable'), oracle=rec.get('oracle'), reasons=rec.get('reasons'))
                except Exception: pass
            res['results'][pid] = dict(kind=kind, rc=r.returncode, lines=lines[:6], replay=replay, s=round(time.time() - t, 1), err=(r.stderr[-500:] if kind == 'error' else ''))
    finally:
        subprocess.run(['git', '-C', '/repo', 'worktree', 'remove', '--force', wt])
        shutil.rmtree(base, ignore_errors=True)
    return res
allres = []
os.makedirs('/tmp/mx', exist_ok=True)
for _ in range(5):
    if subprocess.run('rsync -a --delete --exclude replays --exclude .git /verif/ /tmp/mx/_snap/', shell=True).returncode == 0: break
with concurrent.futures.ThreadPoolExecutor(max_workers=int(os.environ.get('MATRIX_JOBS', '3'))) as ex:
    for res in ex.map(run, items):
        allres.append(res)
        al = [p for p, r in res.get('results', {}).items() if r['kind'] != 'pass']
        print(res['name'], 'ALARMS:', ' '.join(f"{p}({res['results'][p]['kind']})" for p in al) or '-', res.get('error', ''), flush=True)
        json.dump(allres, open(OUT, 'w'), indent=1, ensure_ascii=False)
