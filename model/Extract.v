From Coq Require Import List NArith Bool Extraction ExtrOcamlBasic.
From Coq.Strings Require Import Byte.
From PM Require Import Base Text Model Tables Consts.
Import ListNotations.
Local Open Scope N_scope.

Section X.
Let cfg := src_cfg.
(* builder: new(type,name).with_namespace.with_version.with_subpath.with_qualifier* .build *)
Fixpoint apply_quals (q : quals) (kvs : list (bytes * bytes)) : result parse_error quals :=
  match kvs with [] => Ok q | (k, v) :: t => match q_insert cfg q k v with Ok q' => apply_quals q' t | Err e => Err e end end.
Definition mkparts ns name ver sub q := {| p_ns := ns; p_name := name; p_ver := ver; p_quals := q; p_sub := sub |}.
Definition build_generic (borrowed : bool) (ty name ns ver sub : bytes) (kvs : list (bytes * bytes)) :=
  match apply_quals [] kvs with
  | Err e => None
  | Ok q => Some (build cfg (if borrowed then {| sh_from_str := fun s => Ok s; sh_finish := cow_borrowed_finish cfg; sh_type := fun t => t; sh_inj := fun e => e |} else string_shape cfg) ty (mkparts ns name ver sub q))
  end.
Definition build_typed (t : ptype) (name ns ver sub : bytes) (kvs : list (bytes * bytes)) :=
  match apply_quals [] kvs with
  | Err e => None
  | Ok q => Some (build cfg (ptype_shape cfg) t (mkparts ns name ver sub q))
  end.
(* Qualifiers ops *)
Inductive qop := QInsert (k v : bytes) | QRemove (k : bytes) | QGet (k : bytes) | QClear | QRetainNonEmpty | QEntryOrInsert (k v : bytes).
Inductive qout := OUnit | OErr | OVal (o : option bytes).
Definition qstep (q : quals) (o : qop) : quals * qout :=
  match o with
  | QInsert k v => match q_insert cfg q k v with Ok q' => (q', OUnit) | Err _ => (q, OErr) end
  | QRemove k => let '(q', r) := q_remove cfg q k in (q', OVal r)
  | QGet k => (q, OVal (q_get cfg q k))
  | QClear => ([], OUnit)
  | QRetainNonEmpty => (q_retain (fun _ v => negb (is_empty v)) q, OUnit)
  | QEntryOrInsert k v =>
      match check_key cfg k with Err _ => (q, OErr) | Ok m =>
        match search cfg q m with
        | Found i => (q, OVal (option_map snd (nth_error q i)))
        | NotFound i => (insert_at q i (into_key m, v), OVal (Some v)) end end
  end.
(* Checksum ops *)
Inductive cop := CInsert (alg bs : bytes) | CInsertRaw (alg raw : bytes) | CRemove (alg : bytes).
Definition cstep (m : cmap) (o : cop) : cmap :=
  match o with
  | CInsert a bs => cs_insert_raw cfg m a (hex_encode bs)
  | CInsertRaw a r => cs_insert_raw cfg m a r
  | CRemove a => cm_remove m a
  end.
Definition cs_text (m : cmap) := (cs_cap_panics cfg m, cs_to_text m).
Definition cs_parse (v : bytes) := cs_try_from cfg v.
Definition cs_sorted (m : cmap) := cs_sort m.
Definition ptfs (s : bytes) := pt_from_str cfg s.
Definition comb (t : ptype) (s : bytes) :=
  let '(ns, name) := combined_split t s in
  let p := mkparts (match ns with Some n => n | None => [] end) name [] [] [] in
  (p, match build cfg (ptype_shape cfg) t p with Ok (t', p') => Some (combined_name t' p') | Err _ => None end).
End X.
Definition hexdec := hex_decode.
Definition parse_generic (s : bytes) := parse src_cfg (string_shape src_cfg) s.
Definition parse_typed (s : bytes) := parse src_cfg (ptype_shape src_cfg) s.
Definition format_generic (t : bytes) (p : parts) := format src_cfg (string_shape src_cfg) t p.
Definition format_typed (t : ptype) (p : parts) := format src_cfg (ptype_shape src_cfg) t p.
Definition pt_name_x := pt_name.
Extraction "model.ml" parse_generic parse_typed format_generic format_typed pt_name_x Byte.to_N
  build_generic build_typed qstep cstep cs_text cs_parse cs_sorted ptfs comb hexdec all_ptypes.
