(* Extraction of the model, instantiated at the configuration read from the source (gen/Consts.v).
   Directives: ExtrOcamlBasic only. *)
From Coq Require Import List NArith Bool Extraction ExtrOcamlBasic.
From Coq.Strings Require Import Byte.
From PM Require Import Base Text Model Order C14 Quals5 Exec Tables Consts.
Import ListNotations.
Local Open Scope N_scope.

Definition cfg := src_cfg.
Definition shG := string_shape cfg.
Definition shB := cow_shape cfg.
Definition shT := ptype_shape cfg.

Definition x_parse_g (s : bytes) := triple cfg shG shG (make_parse cfg shG s).
Definition x_parse_t (s : bytes) := triple cfg shT shT (make_parse cfg shT s).
Definition x_build_g (t name0 : bytes) (ops : list (@xbop bytes)) := triple cfg shG shG (make_build cfg shG t name0 ops).
Definition x_build_b (t name0 : bytes) (ops : list (@xbop bytes)) := triple cfg shB shG (make_build cfg shB t name0 ops).
Definition x_build_t (t : ptype) (name0 : bytes) (ops : list (@xbop ptype)) := triple cfg shT shT (make_build cfg shT t name0 ops).
Definition x_cmp_g := @cmp_made bytes parse_error cmp_g.
Definition x_cmp_t := @cmp_made ptype package_error cmp_t.
Definition x_qrun (ops : list qxop) := qxrun cfg [] ops.
Definition x_from_iter (items : list (bytes * bytes)) := Quals5.q_try_from_iter cfg items [].
Definition x_cs_ops (ops : list cop) := cs_show cfg (crun cfg ops).
Definition x_cs_text (v : bytes) := cs_parse_show cfg v.
Definition x_pt_from_str (s : bytes) := pt_from_str cfg s.
Definition x_comb := comb_case cfg.
Definition x_comb_purl := comb_purl cfg.
Definition x_fam_parse := fam_parse cfg.
Definition x_fam_build := fam_build cfg.
Definition x_fam_canon c r hks (t : bytes) (p : parts) := canon_of cfg (fam_shape cfg c r hks) t p.
Definition x_format_g (t : bytes) (p : parts) := format cfg shG t p.
Definition x_format_t (t : ptype) (p : parts) := format cfg shT t p.
Definition x_pt_name := pt_name.
Definition x_all_ptypes := all_ptypes.
Definition x_byte_to_N := Byte.to_N.
(* the skeleton-only view used by the C07 correspondence: namespace and subpath of a string *)
Definition x_valid_type (s : bytes) := valid_type cfg s.

Extraction "model.ml" x_parse_g x_parse_t x_build_g x_build_b x_build_t x_cmp_g x_cmp_t x_qrun x_from_iter
  x_cs_ops x_cs_text x_pt_from_str x_comb x_comb_purl x_fam_parse x_fam_build x_fam_canon x_format_g x_format_t x_pt_name x_all_ptypes x_byte_to_N x_valid_type.
