open Model
let byte_of_int (i:int) : byte = Obj.magic i
let int_of_byte (b:byte) : int = Obj.magic b
let unhex s = let n = String.length s / 2 in List.init n (fun i -> byte_of_int (int_of_string ("0x" ^ String.sub s (2*i) 2)))
let hex l = String.concat "" (List.map (fun b -> Printf.sprintf "%02x" (int_of_byte b)) l)
let fld = function FType -> "type" | FNamespace -> "namespace" | FName -> "name" | FVersion -> "version" | FSubpath -> "subpath"
let perr = function EScheme -> "Scheme" | EMissing f -> "Missing(" ^ fld f ^ ")" | EInvalidType -> "InvalidType" | EInvalidQualifier -> "InvalidQualifier" | EInvalidEscape -> "InvalidEscape"
let pkerr = function PMissing f -> "PMissing(" ^ fld f ^ ")" | PParse e -> "Parse:" ^ perr e | PUnsupportedType -> "UnsupportedType"
let qs q = String.concat ";" (List.map (fun (k,v) -> hex k ^ "=" ^ hex v) q)
let show ty p canon = Printf.sprintf "O %s|%s|%s|%s|%s|%s|%s" (hex ty) (hex p.p_ns) (hex p.p_name) (hex p.p_ver) (qs p.p_quals) (hex p.p_sub) (hex canon)
let split c s = if s = "" then [] else String.split_on_char c s
let pairs s = List.map (fun kv -> match String.split_on_char '=' kv with [k;v] -> (unhex k, unhex v) | _ -> failwith "pair") (split ',' s)
let pt i = List.nth all_ptypes i
let () =
  try while true do
    let line = input_line stdin in
    let a = Array.of_list (String.split_on_char ' ' line) in
    let g i = if i < Array.length a then a.(i) else "" in
    let out = match a.(0) with
      | "pg" -> (match parse_generic (unhex (g 1)) with Ok (t,p) -> show t p (format_generic t p) | Err e -> "E " ^ perr e)
      | "pt" -> (match parse_typed (unhex (g 1)) with Ok (t,p) -> show (pt_name_x t) p (format_typed t p) | Err e -> "E " ^ pkerr e)
      | "bg" | "bb" -> (match build_generic (a.(0) = "bb") (unhex (g 1)) (unhex (g 2)) (unhex (g 3)) (unhex (g 4)) (unhex (g 5)) (pairs (g 6)) with
                 | None -> "QE" | Some (Ok (t,p)) -> show t p (format_generic t p) | Some (Err e) -> "E " ^ perr e)
      | "bt" -> (match build_typed (pt (int_of_string (g 1))) (unhex (g 2)) (unhex (g 3)) (unhex (g 4)) (unhex (g 5)) (pairs (g 6)) with
                 | None -> "QE" | Some (Ok (t,p)) -> show (pt_name_x t) p (format_typed t p) | Some (Err e) -> "E " ^ pkerr e)
      | "qo" ->
          let ops = List.map (fun o -> match String.split_on_char ':' o with
             | ["i";k;v] -> QInsert (unhex k, unhex v) | ["r";k] -> QRemove (unhex k) | ["g";k] -> QGet (unhex k)
             | ["c"] -> QClear | ["t"] -> QRetainNonEmpty | ["e";k;v] -> QEntryOrInsert (unhex k, unhex v) | _ -> failwith "qop") (split ';' (g 1)) in
          let (q, outs) = List.fold_left (fun (q, acc) o -> let (q', r) = qstep q o in
             (q', (match r with OUnit -> "u" | OErr -> "e" | OVal None -> "n" | OVal (Some v) -> "v:" ^ hex v) :: acc)) ([], []) ops in
          String.concat ";" (List.rev outs) ^ "|" ^ qs q
      | "cs" ->
          let ops = List.map (fun o -> match String.split_on_char ':' o with
             | ["i";k;v] -> CInsert (unhex k, unhex v) | ["w";k;v] -> CInsertRaw (unhex k, unhex v) | ["r";k] -> CRemove (unhex k) | _ -> failwith "cop") (split ';' (g 1)) in
          let m = List.fold_left cstep [] ops in
          let (pan, txt) = cs_text m in
          qs (cs_sorted m) ^ "|" ^ (if pan then "P" else match txt with Ok t -> "T:" ^ hex t | Err _ -> "E")
      | "ct" -> (match cs_parse (unhex (g 1)) with Err _ -> "E" | Ok m ->
                   let (pan, txt) = cs_text m in qs (cs_sorted m) ^ "|" ^ (if pan then "P" else match txt with Ok t -> "T:" ^ hex t | Err _ -> "E"))
      | "pn" -> (match ptfs (unhex (g 1)) with None -> "none" | Some t -> hex (pt_name_x t))
      | "cn" -> let (p, c) = comb (pt (int_of_string (g 1))) (unhex (g 2)) in
                hex p.p_ns ^ "|" ^ hex p.p_name ^ "|" ^ (match c with None -> "berr" | Some c -> hex c)
      | _ -> "?" in
    print_endline out
  done with End_of_file -> ()
