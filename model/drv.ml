(* Line driver for the extracted Coq model: reads the same case lines as the Rust harness and prints
   the same canonical outcome lines.  Only parsing of case lines and printing happens here. *)
open Model

let byte_of_int (i : int) : byte = Obj.magic i
let int_of_byte (b : byte) : int = Obj.magic b
let rec int_of_pos = function XH -> 1 | XO p -> 2 * int_of_pos p | XI p -> 2 * int_of_pos p + 1
let int_of_n = function N0 -> 0 | Npos p -> int_of_pos p

let () =
  (* the Obj.magic conversion relies on the 256 constant constructors being numbered in order *)
  for i = 0 to 255 do
    if int_of_n (x_byte_to_N (byte_of_int i)) <> i then failwith "byte representation check failed"
  done

let unhex s =
  if s = "-" then []
  else List.init (String.length s / 2) (fun i -> byte_of_int (int_of_string ("0x" ^ String.sub s (2 * i) 2)))
let h l = if l = [] then "-" else String.concat "" (List.map (fun b -> Printf.sprintf "%02x" (int_of_byte b)) l)
let fld = function FType -> "type" | FNamespace -> "namespace" | FName -> "name" | FVersion -> "version" | FSubpath -> "subpath"
let perr = function
  | EScheme -> "Scheme" | EMissing f -> "Missing(" ^ fld f ^ ")" | EInvalidType -> "InvalidType"
  | EInvalidQualifier -> "InvalidQualifier" | EInvalidEscape -> "InvalidEscape"
let pkerr = function PMissing f -> "PMissing(" ^ fld f ^ ")" | PParse e -> "Parse:" ^ perr e | PUnsupportedType -> "UnsupportedType"
let ferr = function FParse e -> "Parse:" ^ perr e | FConv -> "Conv" | FHook -> "Hook"
let qs q = if q = [] then "-" else String.concat ";" (List.map (fun (k, v) -> h k ^ "=" ^ h v) q)
let show tys p canon =
  Printf.sprintf "O %s|%s|%s|%s|%s|%s|%s" (h tys) (h p.p_ns) (h p.p_name) (h p.p_ver) (qs p.p_quals) (h p.p_sub)
    (match canon with Some c -> h c | None -> "!")
let stop = function StopQE -> "QE" | StopCE -> "CE" | StopPanic -> "PANIC"
let split c s = if s = "-" || s = "" then [] else String.split_on_char c s
let pt i = List.nth x_all_ptypes i

(* made -> text, given how to print the type, the error, and the canonical string of a value *)
let show_made tyf errf canonf = function
  | MPurl (t, p) -> show (tyf t) p (canonf t p)
  | MErr e -> "E " ^ errf e
  | MStop s -> stop s
let ukey i = List.map (fun c -> byte_of_int (Char.code c)) (let s = [| "buildTag"; "X-Y.z_1"; "bad key" |].(i) in List.init (String.length s) (String.get s))
let csops s =
  List.map (fun o -> match String.split_on_char '.' o with
    | ["i"; k; v] -> CInsert (unhex k, unhex v) | ["w"; k; v] -> CInsertRaw (unhex k, unhex v) | ["r"; k] -> CRemove (unhex k)
    | _ -> failwith "cop") (split '+' s)
let bops tyf s =
  List.map (fun o -> match String.split_on_char ':' o with
    | ["N"; x] -> XName (unhex x) | ["S"; x] -> XNs (unhex x) | ["s"] -> XNoNs | ["V"; x] -> XVer (unhex x) | ["v"] -> XNoVer
    | ["U"; x] -> XSub (unhex x) | ["u"] -> XNoSub | ["T"; x] -> XType (tyf x) | ["Q"; k; v] -> XQual (unhex k, unhex v)
    | ["q"; k] -> XUnqual (unhex k) | ["z"] -> XClearQ | ["C"; c] -> XCs (csops c) | ["c"] -> XNoCs | ["R"; x] -> XRepo (unhex x)
    | ["r"] -> XNoRepo | ["W"; i; v] -> XTyped (ukey (int_of_string i), unhex v) | ["w"; i] -> XUntyped (ukey (int_of_string i)) | ["D"; k; v] -> XDirectIns (unhex k, unhex v) | ["E"; k] -> XDirectRem (unhex k)
    | _ -> failwith ("bop " ^ o)) (split ',' s)

(* the canonical string of a value of a given kind: format through the extracted functions *)
let made_g a = match a with
  | ("P" | "S" | "X") :: _ -> x_parse_g (unhex (List.nth a (List.length a - 1)))
  | "B" :: "b" :: t :: n :: ops :: _ -> x_build_b (unhex t) (unhex n) (bops unhex ops)
  | "B" :: _ :: t :: n :: ops :: _ -> x_build_g (unhex t) (unhex n) (bops unhex ops)
  | _ -> failwith "case"
let made_t a = match a with
  | ("P" | "S" | "X") :: _ -> x_parse_t (unhex (List.nth a (List.length a - 1)))
  | "B" :: _ :: t :: n :: ops :: _ -> x_build_t (pt (int_of_string t)) (unhex n) (bops (fun x -> pt (int_of_string x)) ops)
  | _ -> failwith "case"

let line_of_triple tyf errf fmtf (m, rest) =
  match rest with
  | None -> show_made tyf errf (fun _ _ -> None) m ^ " ## - ## -"
  | Some ((c, re), rb) ->
    let main = show_made tyf errf (fun _ _ -> c) m in
    let re_s = match re with None -> "!" | Some m' -> show_made tyf errf fmtf m' in
    let rb_s = show_made tyf errf fmtf rb in
    main ^ " ## " ^ re_s ^ " ## " ^ rb_s

(* canonical string of a re-parsed / re-built value: the model's format *)
let fmt_g t p = x_format_g t p
let fmt_t t p = x_format_t t p

let rec nat_of_int i = if i <= 0 then O else S (nat_of_int (i - 1))
let qops s =
  List.map (fun o -> match String.split_on_char ':' o with
    | ["i"; k; v] -> QIns (unhex k, unhex v) | ["r"; k] -> QRem (unhex k) | ["g"; k] -> QGet (unhex k)
    | ["m"; k; v] -> QGetMut (unhex k, unhex v) | ["c"; k] -> QHas (unhex k) | ["x"; k] -> QIdx (unhex k)
    | ["X"; k; v] -> QIdxSet (unhex k, unhex v) | ["C"] -> QClear | ["wc"; _] -> QClear | ["re"; _] | ["rv"; _] -> QIterMut [] | ["t"] -> QRetNE | ["T"; k] -> QRetKeyNe (unhex k)
    | ["M"; s] -> QRetMut (unhex s) | ["I"; s] | ["J"; s] -> QIterMut (unhex s)
    | ["eo"; k; v] -> QEOrIns (unhex k, unhex v) | ["ew"; k; v] -> QEOrInsWith (unhex k, unhex v)
    | ["eC"; k; v] -> QEAndClr (unhex k, unhex v) | ["em"; k; s; v] -> QEAndMod (unhex k, unhex s, unhex v) | ["ei"; k; v] -> QEInsert (unhex k, unhex v)
    | ["er"; k] -> QERemove (unhex k) | ["eR"; k] -> QERemoveEntry (unhex k) | ["eG"; k; s] -> QEGetMut (unhex k, unhex s)
    | ["l"] -> QLen | ["tr"; u] -> QTRepo (unhex u) | ["tg"] -> QTGet | ["tc"] -> QTHas | ["td"] -> QTDel
    | ["tC"; c] -> QTCs (csops c) | ["tG"] -> QTCsGet | ["ke"; s] -> QKeyCmp (unhex s)
    | ["tu"; i; v] -> (match i with "0" -> QTUIns (ukey 0, unhex v) | "1" -> QTUIns (ukey 1, unhex v) | _ -> QTUIns (ukey 2, unhex v))
    | ["tug"; i] -> QGet (ukey (int_of_string i)) | ["tud"; i] -> QTUDel (ukey (int_of_string i))
    | ["tk"; i; v] -> QTKIns (nat_of_int (int_of_string i), unhex v) | ["tkg"; i] -> QTKGet (nat_of_int (int_of_string i)) | ["tkd"; i] -> QTKDel (nat_of_int (int_of_string i))
    | _ -> failwith ("qop " ^ o)) (split ',' s)
let ord_s = function Lt -> "lt" | Eq -> "eq" | Gt -> "gt"
let qout = function
  | XoU -> "u" | XoUV v -> "u:" ^ h v | XoE -> "e" | XoOpt None -> "n" | XoOpt (Some v) -> "v:" ^ h v
  | XoB b -> if b then "t" else "f" | XoPanic -> "PANIC"
  | XoVC (v, c) -> "v:" ^ h v ^ ":" ^ (if c then "c" else "nc")
  | XoOcc2 (g, o) -> "o:" ^ h g ^ ":" ^ h o | XoVac -> "vac" | XoVacV v -> "vac:" ^ h v | XoOcc v -> "o:" ^ h v
  | XoOccKV (k, v) -> "o:" ^ h k ^ "=" ^ h v
  | XoLen (n, e) -> let n = int_of_n n in Printf.sprintf "l:%d:%s:%d:%d:true:%d:%d" n (if e then "t" else "f") n n n n
  | XoCs m -> "k:" ^ qs m
  | XoKe l -> String.concat "/" (List.map (fun (e, c) -> (if e then "E" else "N") ^ ord_s c) l) ^ "."
let cs_res (ents, r) =
  qs ents ^ (match r with
    | CsPanic -> "|P" | CsErr -> "|E"
    | CsText (t, back) -> "|T:" ^ h t ^ "|" ^ (match back with Some m -> qs m | None -> "E"))
let pairs s = List.map (fun kv -> match String.split_on_char '=' kv with [k; v] -> (unhex k, unhex v) | _ -> failwith "pair") (split ',' s)

let fam_params s =
  let c = match s.[0] with 'A' -> ConvAlways | 'F' -> ConvFail | 'C' -> ConvCustom | _ -> failwith "conv" in
  let r = match s.[1] with 'L' -> TyLower | 'R' -> TyRaw | _ -> TyInvalid in
  let hk = List.init (String.length s - 2) (fun i -> match s.[i + 2] with
    | 'k' -> HkNothing | 'f' -> HkFail | 'n' -> HkClearName | 's' -> HkNs | 'v' -> HkNoVer | 'V' -> HkVer | 'u' -> HkSub
    | 'e' -> HkEmptyQ | 'q' -> HkQual | 'm' -> HkBadCs | 'c' -> HkCs | 'N' -> HkNameX | 't' -> HkType2 | 'b' -> HkBlankCs | 'x' -> HkClearQ | 'S' -> HkNsSlashes | 'U' -> HkSubDots | 'o' -> HkOddCs | _ -> failwith "hook") in
  (c, r, hk)
let tyrep r t = match r with
  | TyLower -> List.map (fun b -> let i = int_of_byte b in if i >= 65 && i <= 90 then byte_of_int (i + 32) else b) t
  | TyRaw -> t
  | TyInvalid -> List.map (fun c -> byte_of_int (Char.code c)) (List.init 8 (String.get "in valid"))

let run_line line =
  let a = String.split_on_char ' ' line in
  match a with
  | ("P" | "S" | "X" | "B") :: k :: _ ->
    (match k with
     | "g" | "s" | "b" | "o" -> line_of_triple (fun t -> t) perr (fun t p -> Some (fmt_g t p)) (made_g a)
     | "t" -> line_of_triple x_pt_name pkerr (fun t p -> Some (fmt_t t p)) (made_t a)
     | _ -> "SKIP")
  | "K" :: rest ->
    let rec cut acc = function "~" :: r -> (List.rev acc, r) | x :: r -> cut (x :: acc) r | [] -> failwith "~" in
    let (l, r) = cut [] rest in
    let kl = List.nth l 1 and kr = List.nth r 1 in
    let cow k = k = "b" || k = "o" in
    if kl <> kr && not (cow kl && cow kr) then "NA"
    else
      let can rest = match rest with Some ((Some c, _), _) -> h c | _ -> "!" in
      let (res, cl, cr) =
        if kl = "t" then let (a, ra) = made_t l and (b, rb) = made_t r in (x_cmp_t a b, can ra, can rb)
        else let (a, ra) = made_g l and (b, rb) = made_g r in (x_cmp_g a b, can ra, can rb) in
      (* the two canonical strings follow the verdict: C19's comparison is made only where model and crate speak about the same two values *)
      (match res with None -> "NA" | Some c -> (if c = Eq then "EQ " else "NE ") ^ ord_s c ^ " | " ^ cl ^ " | " ^ cr)
  | ["Q"; ops] ->
    let (q, outs) = x_qrun (qops ops) in
    Printf.sprintf "%s|%s|%s|%d" (if outs = [] then "-" else String.concat "," (List.map qout outs)) (qs q) (qs (List.rev q)) (List.length q)
  | ["F"; ps] -> (match x_from_iter (pairs ps) with Ok q -> Printf.sprintf "%s|%d" (qs q) (List.length q) | Err e -> "E " ^ perr e)
  | ["C"; ops] -> cs_res (x_cs_ops (csops ops))
  | ["c"; t] ->
    (match x_cs_text (unhex t) with
     | None -> "E"
     | Some (r, dec) ->
       let d = String.concat ";" (List.map (function Some b -> h b | None -> "x") dec) in
       cs_res r ^ "|" ^ (if d = "" then "-" else d))
  | ["T"; s] -> (match x_pt_from_str (unhex s) with None -> "none" | Some t -> h (x_pt_name t))
  | ["N"; i; s] ->
    let (p, r) = x_comb (pt (int_of_string i)) (unhex s) in
    (match r with
     | Err e -> Printf.sprintf "%s|%s|E %s" (h p.p_ns) (h p.p_name) (pkerr e)
     | Ok ((p', cn), (ns2, name2)) ->
       Printf.sprintf "%s|%s|%s|%s|%s|%s|%s" (h p.p_ns) (h p.p_name) (h p'.p_ns) (h p'.p_name) (h cn) (h ns2) (h name2))
  | ["M"; s] ->
    (match x_comb_purl (unhex s) with
     | Err e -> "E " ^ pkerr e
     | Ok (((t, p), cn), (ns2, name2)) -> Printf.sprintf "%s|%s|%s|%s|%s|%s" (h (x_pt_name t)) (h p.p_ns) (h p.p_name) (h cn) (h ns2) (h name2))
  | "H" :: fam :: rest ->
    let (c, r, hk) = fam_params fam in
    let res = match rest with
      | ["P"; s] -> Some (x_fam_parse c r hk (unhex s))
      | ["B"; t; n; ops] -> x_fam_build c r hk (unhex t) (unhex n) (bops unhex ops)
      | _ -> failwith "family case" in
    (match res with
     | None -> "- ## QE"
     | Some (log, out) ->
       let l = String.concat "," (List.map (function CFromStr ty -> "F:" ^ h ty | CFinish (t, p) -> "H:" ^ h t ^ ":" ^ h p.p_name) log) in
       (if l = "" then "-" else l) ^ " ## " ^
       (match out with Err e -> "E " ^ ferr e | Ok (t, p) -> show (tyrep r t) p (x_fam_canon c r hk t p)))
  | _ -> "SKIP"

let () =
  let out = Buffer.create (1 lsl 16) in
  (try
     while true do
       let line = input_line stdin in
       Buffer.add_string out (try run_line line with Stack_overflow -> "MODEL-STACK" | Failure m -> "MODEL-ERR " ^ m);
       Buffer.add_char out '\n';
       if Buffer.length out > 1 lsl 16 then (print_string (Buffer.contents out); Buffer.clear out)
     done
   with End_of_file -> ());
  print_string (Buffer.contents out)
